#!/bin/sh
# Offline setup: nothing to download or build ahead of time.  Every check compiles its harness crate
# (path dependencies on /repo/crates/*) with `cargo kani` against /repo's current working tree and
# caches build output under /verif/.kani-target/<group>.  This script only verifies the tool chain.
set -e
cd "$(dirname "$0")"
export CARGO_NET_OFFLINE=true
cargo kani --version
cbmc --version
python3 -c "import json,sys; json.load(open('MANIFEST.json')); json.load(open('known_findings.json')); print('manifest + known findings parse')"
python3 lib/driver.py --list | awk '{print $1}' | sort | uniq -c
echo setup done
