#!/bin/sh
# Offline setup: nothing to download.  Warms the Kani build of every harness crate's dependencies
# (optional: the checks rebuild whatever is stale from /repo's working tree anyway).
set -e
cd "$(dirname "$0")"
export CARGO_NET_OFFLINE=true
python3 lib/gen.py 2>/dev/null || true
for g in harnesses/*/; do
  g=$(basename "$g")
  [ -f "harnesses/$g/Cargo.toml" ] || continue
  cp /repo/Cargo.lock "harnesses/$g/Cargo.lock" 2>/dev/null || true
  mkdir -p ".kani-target/$g"
  (cd "harnesses/$g" && cargo kani -Z stubbing --only-codegen --target-dir "../../.kani-target/$g" >/dev/null 2>&1) || echo "warm build of $g failed (checks will rebuild)"
done
echo setup done
