// C17 — LruManager vs. a textbook LRU over bounded operation histories.
use cascette_client_storage::lru::LruManager;
use std::path::PathBuf;

/// Concrete key alphabet: the all-zero key, a key that differs from it only in the first byte, one
/// that differs only in the LAST byte (9-byte keys: catches 8-byte compares / truncation), all-ones.
pub const NK: usize = 4;
pub const ALPHA: [[u8; 9]; NK] = [
    [0, 0, 0, 0, 0, 0, 0, 0, 0],
    [1, 0, 0, 0, 0, 0, 0, 0, 0],
    [0, 0, 0, 0, 0, 0, 0, 0, 1],
    [0xFF, 0xFF, 0xFF, 0xFF, 0xFF, 0xFF, 0xFF, 0xFF, 0xFF],
];
pub const MAXC: usize = 3;
const NONE: usize = 9;

/// Textbook LRU: `ord[0..n]` = key indices, most recent first; capacity `cap`.
/// `lost` = entries removed by explicit evict_tail / evict_to_target since the last reset (ghost
/// counter used only to delimit the region of known finding KF-1; the model itself never uses it).
pub struct Model {
    pub cap: usize,
    pub n: usize,
    pub ord: [usize; MAXC],
    pub lost: usize,
    pub generation: u64,
    pub prev_generation: u64,
}

impl Model {
    pub fn new(cap: usize) -> Self {
        Self { cap, n: 0, ord: [NONE; MAXC], lost: 0, generation: 1, prev_generation: 0 }
    }
    pub fn pos(&self, k: usize) -> usize {
        let mut p = NONE;
        let mut i = MAXC;
        while i > 0 {
            i -= 1;
            if i < self.n && self.ord[i] == k {
                p = i;
            }
        }
        p
    }
    pub fn has(&self, k: usize) -> bool {
        self.pos(k) != NONE
    }
    /// touch: present -> move to front; absent -> drop the least recent if full, insert in front.
    pub fn touch(&mut self, k: usize) {
        let p0 = self.pos(k);
        let p = if p0 != NONE {
            p0
        } else {
            if self.n == self.cap {
                self.n -= 1;
            }
            self.n += 1;
            self.n - 1
        };
        // elements before p move one place towards the tail, elements after p stay
        let old = self.ord;
        let mut i = 1;
        while i < MAXC {
            if i <= p {
                self.ord[i] = old[i - 1];
            }
            i += 1;
        }
        self.ord[0] = k;
    }
    pub fn remove(&mut self, k: usize) -> bool {
        let p = self.pos(k);
        if p == NONE {
            return false;
        }
        let old = self.ord;
        let mut i = 0;
        while i + 1 < MAXC {
            if i >= p {
                self.ord[i] = old[i + 1];
            }
            i += 1;
        }
        self.n -= 1;
        true
    }
    pub fn evict(&mut self) -> bool {
        if self.n == 0 {
            return false;
        }
        self.n -= 1;
        self.lost += 1;
        true
    }
    pub fn reset(&mut self) {
        self.n = 0;
        self.lost = 0;
    }
}

pub fn key_index(k: &[u8; 9]) -> usize {
    let mut r = NONE;
    let mut q = 0;
    while q < NK {
        let a = &ALPHA[q];
        if k[0] == a[0] && k[1] == a[1] && k[2] == a[2] && k[3] == a[3] && k[4] == a[4] && k[5] == a[5] && k[6] == a[6] && k[7] == a[7] && k[8] == a[8] {
            r = q;
        }
        q += 1;
    }
    r
}

/// Compare everything observable with the model.
pub fn observe(m: &LruManager, md: &Model) {
    assert!(m.len() == md.n, "len differs from the textbook LRU");
    assert!(m.len() <= md.cap, "more entries than the capacity");
    assert!(m.is_empty() == (md.n == 0), "is_empty differs from the textbook LRU");
    assert!(m.capacity() as usize == md.cap, "capacity changed");
    let mut q = 0;
    while q < NK {
        assert!(m.contains(&ALPHA[q]) == md.has(q), "contains differs from the textbook LRU");
        q += 1;
    }
    // recency order: for_each_entry walks least-recent -> most-recent
    let mut seen = [NONE; MAXC + 1];
    let mut cnt = 0usize;
    m.for_each_entry(|k| {
        if cnt <= MAXC {
            seen[cnt] = key_index(k);
        }
        cnt += 1;
    });
    // The all-zero key is skipped by for_each_entry (known finding KF-2, own harness): here the
    // sequence of the NON-zero keys must be the textbook order restricted to the non-zero keys.
    let mut want = [NONE; MAXC + 1];
    let mut wn = 0usize;
    let mut j = 0;
    while j < MAXC {
        // j-th least recent of the model = ord[n-1-j]
        if j < md.n {
            let k = md.ord[md.n - 1 - j];
            if k != 0 {
                want[wn] = k;
                wn += 1;
            }
        }
        j += 1;
    }
    assert!(cnt == wn, "for_each_entry visits a wrong number of (non-zero) keys");
    let mut j = 0;
    while j < MAXC {
        if j < wn {
            assert!(seen[j] == want[j], "recency order differs from the textbook LRU");
        }
        j += 1;
    }
    assert!(m.generation() == md.generation && m.prev_generation() == md.prev_generation, "generation counters");
}

// ---- steps ---------------------------------------------------------------------------------------
pub fn any_key() -> usize {
    let k: usize = kani::any();
    kani::assume(k < NK);
    k
}

/// KF-1 region: a touch of an absent key when (present + explicitly evicted since reset) >= capacity
/// would need a slot that evict_tail never returned to the free list.
pub fn in_kf1_region(md: &Model, k: usize) -> bool {
    md.lost > 0 && !md.has(k) && md.n + md.lost >= md.cap
}

pub fn step_touch(m: &mut LruManager, md: &mut Model, k: usize) {
    kani::assume(!in_kf1_region(md, k));
    let key = ALPHA[k];
    let r = m.touch(&key);
    md.touch(k);
    assert!(r, "touch with capacity >= 1 must return true");
    assert!(m.contains(&key), "touched key must be present");
    observe(m, md);
}
pub fn step_remove(m: &mut LruManager, md: &mut Model, k: usize) {
    let key = ALPHA[k];
    let r = m.remove(&key);
    let want = md.remove(k);
    assert!(r == want, "remove must report whether the key was present");
    observe(m, md);
}
pub fn step_evict_tail(m: &mut LruManager, md: &mut Model) {
    let r = m.evict_tail();
    let want = md.evict();
    assert!(r.is_some() == want, "evict_tail must report Some iff the LRU was non-empty");
    if let Some(slot) = r {
        assert!((slot as usize) < md.cap, "evicted slot index out of range");
    }
    observe(m, md);
}
pub fn step_evict_to_target(m: &mut LruManager, md: &mut Model, target: u64, avg: u64) {
    // no overflow of the running total inside the bound (MAXC * 2^40)
    kani::assume(avg <= 1 << 40);
    let (cnt, freed) = m.evict_to_target(target, avg);
    // textbook: evict least-recent entries while freed < target
    let mut wc = 0usize;
    let mut wf = 0u64;
    let mut i = 0;
    while i < MAXC {
        if wf < target && md.evict() {
            wc += 1;
            wf += avg;
        }
        i += 1;
    }
    assert!(cnt == wc, "evict_to_target evicted a wrong number of entries");
    assert!(freed == wf, "evict_to_target reports wrong freed bytes");
    observe(m, md);
}
pub fn step_bump(m: &mut LruManager, md: &mut Model) {
    m.bump_generation();
    md.prev_generation = md.generation;
    md.generation = if md.generation == u64::MAX { 1 } else { md.generation + 1 };
    observe(m, md);
}
pub fn step_reset(m: &mut LruManager, md: &mut Model) {
    m.reset();
    md.reset();
    observe(m, md);
}

macro_rules! lru_step {
    (T, $m:ident, $md:ident) => {{
        let k = any_key();
        step_touch(&mut $m, &mut $md, k);
    }};
    (R, $m:ident, $md:ident) => {{
        let k = any_key();
        step_remove(&mut $m, &mut $md, k);
    }};
    (E, $m:ident, $md:ident) => {{
        step_evict_tail(&mut $m, &mut $md);
    }};
    (G, $m:ident, $md:ident) => {{
        let t: u64 = kani::any();
        let a: u64 = kani::any();
        step_evict_to_target(&mut $m, &mut $md, t, a);
    }};
    (B, $m:ident, $md:ident) => {{
        step_bump(&mut $m, &mut $md);
    }};
    (Z, $m:ident, $md:ident) => {{
        step_reset(&mut $m, &mut $md);
    }};
}

macro_rules! lru_seq {
    ($name:ident, $cap:expr, [$($k:ident),*]) => {
        #[kani::proof]
        #[kani::unwind(10)]
        #[kani::stub(tracing_core::callsite::DefaultCallsite::interest, crate::tracing_stubs::interest_never)]
        #[kani::stub(tracing::__macro_support::__is_enabled, crate::tracing_stubs::is_enabled_false)]
        #[kani::stub(tracing_core::event::Event::dispatch, crate::tracing_stubs::dispatch_nop)]
        #[kani::stub(std::hash::RandomState::new, crate::stubs::fixed_random_state)]
        fn $name() {
            let mut m = LruManager::new($cap, PathBuf::new());
            let mut md = Model::new($cap);
            observe(&m, &md);
            $( lru_step!($k, m, md); )*
            kani::cover!(md.n > 0, "history ends non-empty");
            std::mem::forget(m);
        }
    };
}

// @family prop=C17 tier=thorough timeout=1500 role=probe-seq
lru_seq!(c17_probe_c1_t_r_t, 1, [T, R, T]);
lru_seq!(c17_probe_bt_c1_t_r_t, 1, [T, R, T]);
lru_seq!(c17_probe_bt_c3_t_t_t, 3, [T, T, T]);
// @end
