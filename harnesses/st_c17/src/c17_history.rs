// C17 — LruManager vs. a textbook LRU over bounded operation histories.
use cascette_client_storage::lru::LruManager;
use std::path::PathBuf;

/// Concrete key alphabet: the all-zero key, a key that differs from it only in the first byte, one
/// that differs only in the LAST byte (9-byte keys: catches 8-byte compares / truncation), all-ones.
pub const NK: usize = 4;
pub const ALPHA: [[u8; 9]; NK] = [
    [0, 0, 0, 0, 0, 0, 0, 0, 0],
    [1, 0, 0, 0, 0, 0, 0, 0, 0],
    [0, 0, 0, 0, 0, 0, 0, 0, 1],
    [0xFF, 0xFF, 0xFF, 0xFF, 0xFF, 0xFF, 0xFF, 0xFF, 0xFF],
];
pub const MAXC: usize = 3;
const NONE: usize = 9;

/// Textbook LRU: `ord[0..n]` = key indices, most recent first; capacity `cap`.
pub struct Model {
    pub cap: usize,
    /// number of alphabet keys used by this harness (ALPHA[0..nk])
    pub nk: usize,
    pub n: usize,
    pub ord: [usize; MAXC],
    pub generation: u64,
    pub prev_generation: u64,
}

impl Model {
    pub fn new(cap: usize, nk: usize) -> Self {
        Self { cap, nk, n: 0, ord: [NONE; MAXC], generation: 1, prev_generation: 0 }
    }
    pub fn pos(&self, k: usize) -> usize {
        let mut p = NONE;
        let mut i = MAXC;
        while i > 0 {
            i -= 1;
            if i < self.n && self.ord[i] == k {
                p = i;
            }
        }
        p
    }
    pub fn has(&self, k: usize) -> bool {
        self.pos(k) != NONE
    }
    /// touch: present -> move to front; absent -> drop the least recent if full, insert in front.
    pub fn touch(&mut self, k: usize) {
        let p0 = self.pos(k);
        let p = if p0 != NONE {
            p0
        } else {
            if self.n == self.cap {
                self.n -= 1;
            }
            self.n += 1;
            self.n - 1
        };
        // elements before p move one place towards the tail, elements after p stay
        let old = self.ord;
        let mut i = 1;
        while i < MAXC {
            if i <= p {
                self.ord[i] = old[i - 1];
            }
            i += 1;
        }
        self.ord[0] = k;
    }
    pub fn remove(&mut self, k: usize) -> bool {
        let p = self.pos(k);
        if p == NONE {
            return false;
        }
        let old = self.ord;
        let mut i = 0;
        while i + 1 < MAXC {
            if i >= p {
                self.ord[i] = old[i + 1];
            }
            i += 1;
        }
        self.n -= 1;
        true
    }
    pub fn evict(&mut self) -> bool {
        if self.n == 0 {
            return false;
        }
        self.n -= 1;
        true
    }
    pub fn reset(&mut self) {
        self.n = 0;
    }
}

pub fn key_index(k: &[u8; 9]) -> usize {
    let mut r = NONE;
    let mut q = 0;
    while q < NK {
        let a = &ALPHA[q];
        if k[0] == a[0] && k[1] == a[1] && k[2] == a[2] && k[3] == a[3] && k[4] == a[4] && k[5] == a[5] && k[6] == a[6] && k[7] == a[7] && k[8] == a[8] {
            r = q;
        }
        q += 1;
    }
    r
}

/// Compare everything observable with the model.
pub fn observe(m: &LruManager, md: &Model) {
    assert!(m.len() == md.n, "len differs from the textbook LRU");
    assert!(m.len() <= md.cap, "more entries than the capacity");
    assert!(m.is_empty() == (md.n == 0), "is_empty differs from the textbook LRU");
    assert!(m.capacity() as usize == md.cap, "capacity changed");
    // key set: not probed key by key here (each probe is a map search).  It follows from the checks
    // below: the invariant hook gives "list nodes == key_map entries, key_map[key] == slot" (so the
    // map's key set is the list's key set, all distinct), the order check gives "non-zero list keys ==
    // non-zero model keys", and len == n leaves room for the all-zero key only where the model has it.
    // `contains` itself is exercised on the operated key in step_touch / step_remove.
    // recency order: for_each_entry walks least-recent -> most-recent
    let mut seen = [NONE; MAXC + 1];
    let mut cnt = 0usize;
    m.for_each_entry(|k| {
        if cnt <= MAXC {
            seen[cnt] = key_index(k);
        }
        cnt += 1;
    });
    // The all-zero key is skipped by for_each_entry (known finding KF-2, own harness): here the
    // sequence of the NON-zero keys must be the textbook order restricted to the non-zero keys.
    let mut want = [NONE; MAXC + 1];
    let mut wn = 0usize;
    let mut j = 0;
    while j < MAXC {
        // j-th least recent of the model = ord[n-1-j]
        if j < md.n {
            let k = md.ord[md.n - 1 - j];
            if k != 0 {
                want[wn] = k;
                wn += 1;
            }
        }
        j += 1;
    }
    assert!(cnt == wn, "for_each_entry visits a wrong number of (non-zero) keys");
    let mut j = 0;
    while j < MAXC {
        if j < wn {
            assert!(seen[j] == want[j], "recency order differs from the textbook LRU");
        }
        j += 1;
    }
    assert!(m.generation() == md.generation && m.prev_generation() == md.prev_generation, "generation counters");
    // representation invariant (cfg(kani) hook): catches structural damage that the public observers
    // (which only walk `next`) would show one step later: prev links, head/tail, key_map slots, free list
    assert!(m.verif_invariants_ok(), "representation invariant broken (prev/next links, head/tail, key_map slots or free list)");
}

// ---- steps ---------------------------------------------------------------------------------------
pub fn any_below(n: usize) -> usize {
    let k: usize = kani::any();
    kani::assume(k < n);
    k
}

pub fn step_touch(m: &mut LruManager, md: &mut Model, k: usize) {
    let key = ALPHA[k];
    let r = m.touch(&key);
    md.touch(k);
    assert!(r, "touch with capacity >= 1 must return true");
    assert!(m.contains(&key), "touched key must be present");
    observe(m, md);
}
pub fn step_remove(m: &mut LruManager, md: &mut Model, k: usize) {
    let key = ALPHA[k];
    let r = m.remove(&key);
    let want = md.remove(k);
    assert!(r == want, "remove must report whether the key was present");
    assert!(!m.contains(&key), "removed key still present");
    observe(m, md);
}
pub fn step_evict_tail(m: &mut LruManager, md: &mut Model) {
    let r = m.evict_tail();
    let want = md.evict();
    assert!(r.is_some() == want, "evict_tail must report Some iff the LRU was non-empty");
    if let Some(slot) = r {
        assert!((slot as usize) < md.cap, "evicted slot index out of range");
    }
    observe(m, md);
}
/// textbook evict_to_target on the model: evict least-recent entries while freed < target
pub fn model_evict_to_target(md: &mut Model, target: u64, avg: u64) -> (usize, u64) {
    let mut wc = 0usize;
    let mut wf = 0u64;
    let mut i = 0;
    while i < MAXC {
        if wf < target && md.evict() {
            wc += 1;
            wf += avg;
        }
        i += 1;
    }
    (wc, wf)
}
pub fn step_evict_to_target(m: &mut LruManager, md: &mut Model, target: u64, avg: u64) {
    let (cnt, freed) = m.evict_to_target(target, avg);
    let (wc, wf) = model_evict_to_target(md, target, avg);
    assert!(cnt == wc, "evict_to_target evicted a wrong number of entries");
    assert!(freed == wf, "evict_to_target reports wrong freed bytes");
    observe(m, md);
}
pub fn step_bump(m: &mut LruManager, md: &mut Model) {
    m.bump_generation();
    md.prev_generation = md.generation;
    md.generation = if md.generation == u64::MAX { 1 } else { md.generation + 1 };
    observe(m, md);
}
pub fn step_reset(m: &mut LruManager, md: &mut Model) {
    m.reset();
    md.reset();
    observe(m, md);
}

/// Concrete (target_bytes, avg_entry_size) grid used where evict_to_target is followed by further
/// steps: nothing / exactly 1 (freed == target stops) / exactly 2 (target one above) / everything
/// (avg 0 never reaches the target).  Fully symbolic arguments: family c17_evict_to_target_sym.
pub const GRID: [(u64, u64); 4] = [(0, 7), (7, 7), (8, 7), (1, 0)];

// History runner.  Every symbolic choice (operation / key of a step) is turned into an if/else-if chain
// whose arms contain the REST of the history, so each path through the real code runs on concrete
// container state (CBMC merges states only at the very end); the choices are kani::any() inputs, so a
// counterexample replays natively.  Tokens:
//   T0..T3 R0..R3 G0..G3  fixed key / grid point        T R   choice over the harness's nk keys
//   TL / TH  touch of key 0|1 / key 2|3 (4-key alphabets only)
//   D  touch of any ABSENT key                            G     choice over grid points 1..3
//   E  evict_tail   Z reset   B bump_generation           X     E | G | Z
//   A  any operation: T | R | E | G | Z                   N     R | E | G | Z
macro_rules! lru_run {
    ($m:ident, $md:ident, $cv:ident;) => {{
        $cv[0] = true;
        if $md.n > 0 { $cv[1] = true; }
    }};
    ($m:ident, $md:ident, $cv:ident; T0 $($rest:tt)*) => {{ step_touch(&mut $m, &mut $md, 0); lru_run!($m, $md, $cv; $($rest)*); }};
    ($m:ident, $md:ident, $cv:ident; T1 $($rest:tt)*) => {{ step_touch(&mut $m, &mut $md, 1); lru_run!($m, $md, $cv; $($rest)*); }};
    ($m:ident, $md:ident, $cv:ident; T2 $($rest:tt)*) => {{ step_touch(&mut $m, &mut $md, 2); lru_run!($m, $md, $cv; $($rest)*); }};
    ($m:ident, $md:ident, $cv:ident; T3 $($rest:tt)*) => {{ step_touch(&mut $m, &mut $md, 3); lru_run!($m, $md, $cv; $($rest)*); }};
    ($m:ident, $md:ident, $cv:ident; R0 $($rest:tt)*) => {{ step_remove(&mut $m, &mut $md, 0); lru_run!($m, $md, $cv; $($rest)*); }};
    ($m:ident, $md:ident, $cv:ident; R1 $($rest:tt)*) => {{ step_remove(&mut $m, &mut $md, 1); lru_run!($m, $md, $cv; $($rest)*); }};
    ($m:ident, $md:ident, $cv:ident; R2 $($rest:tt)*) => {{ step_remove(&mut $m, &mut $md, 2); lru_run!($m, $md, $cv; $($rest)*); }};
    ($m:ident, $md:ident, $cv:ident; R3 $($rest:tt)*) => {{ step_remove(&mut $m, &mut $md, 3); lru_run!($m, $md, $cv; $($rest)*); }};
    ($m:ident, $md:ident, $cv:ident; G0 $($rest:tt)*) => {{ step_evict_to_target(&mut $m, &mut $md, GRID[0].0, GRID[0].1); lru_run!($m, $md, $cv; $($rest)*); }};
    ($m:ident, $md:ident, $cv:ident; G1 $($rest:tt)*) => {{ step_evict_to_target(&mut $m, &mut $md, GRID[1].0, GRID[1].1); lru_run!($m, $md, $cv; $($rest)*); }};
    ($m:ident, $md:ident, $cv:ident; G2 $($rest:tt)*) => {{ step_evict_to_target(&mut $m, &mut $md, GRID[2].0, GRID[2].1); lru_run!($m, $md, $cv; $($rest)*); }};
    ($m:ident, $md:ident, $cv:ident; G3 $($rest:tt)*) => {{ step_evict_to_target(&mut $m, &mut $md, GRID[3].0, GRID[3].1); lru_run!($m, $md, $cv; $($rest)*); }};
    ($m:ident, $md:ident, $cv:ident; E $($rest:tt)*) => {{ step_evict_tail(&mut $m, &mut $md); lru_run!($m, $md, $cv; $($rest)*); }};
    ($m:ident, $md:ident, $cv:ident; B $($rest:tt)*) => {{ step_bump(&mut $m, &mut $md); lru_run!($m, $md, $cv; $($rest)*); }};
    ($m:ident, $md:ident, $cv:ident; Z $($rest:tt)*) => {{ step_reset(&mut $m, &mut $md); lru_run!($m, $md, $cv; $($rest)*); }};
    ($m:ident, $md:ident, $cv:ident; T $($rest:tt)*) => {{
        let k = any_below($md.nk);
        if k == 0 { lru_run!($m, $md, $cv; T0 $($rest)*); }
        else if k == 1 { if 1 < $md.nk { lru_run!($m, $md, $cv; T1 $($rest)*); } }
        else if k == 2 { if 2 < $md.nk { lru_run!($m, $md, $cv; T2 $($rest)*); } }
        else { if 3 < $md.nk { lru_run!($m, $md, $cv; T3 $($rest)*); } }
    }};
    ($m:ident, $md:ident, $cv:ident; TL $($rest:tt)*) => {{
        let k = any_below(2);
        if k == 0 { lru_run!($m, $md, $cv; T0 $($rest)*); }
        else { lru_run!($m, $md, $cv; T1 $($rest)*); }
    }};
    ($m:ident, $md:ident, $cv:ident; TH $($rest:tt)*) => {{
        let k = any_below(2);
        if k == 0 { lru_run!($m, $md, $cv; T2 $($rest)*); }
        else { lru_run!($m, $md, $cv; T3 $($rest)*); }
    }};
    ($m:ident, $md:ident, $cv:ident; D $($rest:tt)*) => {{
        let k = any_below($md.nk);
        if k == 0 { if !$md.has(0) { lru_run!($m, $md, $cv; T0 $($rest)*); } }
        else if k == 1 { if 1 < $md.nk && !$md.has(1) { lru_run!($m, $md, $cv; T1 $($rest)*); } }
        else if k == 2 { if 2 < $md.nk && !$md.has(2) { lru_run!($m, $md, $cv; T2 $($rest)*); } }
        else { if 3 < $md.nk && !$md.has(3) { lru_run!($m, $md, $cv; T3 $($rest)*); } }
    }};
    ($m:ident, $md:ident, $cv:ident; R $($rest:tt)*) => {{
        let k = any_below($md.nk);
        if k == 0 { lru_run!($m, $md, $cv; R0 $($rest)*); }
        else if k == 1 { if 1 < $md.nk { lru_run!($m, $md, $cv; R1 $($rest)*); } }
        else if k == 2 { if 2 < $md.nk { lru_run!($m, $md, $cv; R2 $($rest)*); } }
        else { if 3 < $md.nk { lru_run!($m, $md, $cv; R3 $($rest)*); } }
    }};
    ($m:ident, $md:ident, $cv:ident; G $($rest:tt)*) => {{
        let g = any_below(3);
        if g == 0 { lru_run!($m, $md, $cv; G1 $($rest)*); }
        else if g == 1 { lru_run!($m, $md, $cv; G2 $($rest)*); }
        else { lru_run!($m, $md, $cv; G3 $($rest)*); }
    }};
    ($m:ident, $md:ident, $cv:ident; X $($rest:tt)*) => {{
        let op = any_below(3);
        if op == 0 { lru_run!($m, $md, $cv; E $($rest)*); }
        else if op == 1 { lru_run!($m, $md, $cv; G $($rest)*); }
        else { lru_run!($m, $md, $cv; Z $($rest)*); }
    }};
    ($m:ident, $md:ident, $cv:ident; N $($rest:tt)*) => {{
        let op = any_below(2);
        if op == 0 { lru_run!($m, $md, $cv; R $($rest)*); }
        else { lru_run!($m, $md, $cv; X $($rest)*); }
    }};
    ($m:ident, $md:ident, $cv:ident; A $($rest:tt)*) => {{
        let op = any_below(3);
        if op == 0 { lru_run!($m, $md, $cv; T $($rest)*); }
        else if op == 1 { lru_run!($m, $md, $cv; R $($rest)*); }
        else { lru_run!($m, $md, $cv; X $($rest)*); }
    }};
}

macro_rules! lru_seq {
    ($name:ident, $cap:expr, $nk:expr, [$($k:tt)*]) => {
        #[kani::proof]
        #[kani::unwind(10)]
        #[kani::stub(tracing_core::callsite::DefaultCallsite::interest, crate::tracing_stubs::interest_never)]
        #[kani::stub(tracing::__macro_support::__is_enabled, crate::tracing_stubs::is_enabled_false)]
        #[kani::stub(tracing_core::event::Event::dispatch, crate::tracing_stubs::dispatch_nop)]
        fn $name() {
            let mut m = LruManager::new($cap, PathBuf::new());
            let mut md = Model::new($cap, $nk);
            let mut cv = [false; 2];
            observe(&m, &md);
            lru_run!(m, md, cv; $($k)*);
            kani::cover!(cv[0], "some history runs to its end");
            kani::cover!(cv[1], "some history ends non-empty");
            std::mem::forget(m);
        }
    };
}

// ---- all histories of length <= 3 that start with a touch -------------------------------------------
// @family prop=C17 tier=quick timeout=900 mem=24 role=history-len3 ram=6
// @bounds capacity in the name (c1,c2,c3) with key alphabet ALPHA[0..capacity+1] (all-zero key, first-byte-only key, last-byte-only key, all-ones key); EVERY history of length <= 3 (every prefix is compared) whose first step is touch(first key in the name) and whose later steps are any of touch(k)/remove(k)/evict_tail/evict_to_target(grid)/reset with any alphabet key; after every step: len, is_empty, capacity, contains (all keys), full recency order, return values vs a textbook LRU
// @encodes cascette_client_storage::lru::LruManager::new, cascette_client_storage::lru::LruManager::touch, cascette_client_storage::lru::LruManager::remove, cascette_client_storage::lru::LruManager::evict_tail, cascette_client_storage::lru::LruManager::evict_to_target, cascette_client_storage::lru::LruManager::reset, cascette_client_storage::lru::LruManager::contains, cascette_client_storage::lru::LruManager::len, cascette_client_storage::lru::LruManager::is_empty, cascette_client_storage::lru::LruManager::for_each_entry, cascette_client_storage::lru::LruManager::unlink, cascette_client_storage::lru::LruManager::link_at_head, cascette_client_storage::lru::LruManager::detach_tail
// @assumes hook H6: under cfg(kani) LruManager::key_map is a std BTreeMap instead of the std HashMap (same map contract; hashbrown does not finish); tracing neutralised (3 stubs); representation invariant read through the add-only cfg(kani) hook LruManager::verif_invariants_ok (walk tail->head via next: prev links, end at head, key_map[key]==slot, free list disjoint/cleared, list+free == slots) asserted after every step; for_each_entry is compared on the non-zero keys only (a live all-zero key is skipped: known finding KF-2, c17_kf2_*); evict_to_target arguments from the 3-point grid (7,7)/(8,7)/(1,0) = exactly one / two / all entries (fully symbolic arguments: c17_evict_to_target_sym_*)
// @catches touch not moving an existing key to the head, wrong victim on a full LRU, unlink/link_at_head pointer mistakes (head/tail/middle, incl. a wrong `prev` back-pointer that stays latent for the public observers), remove or reset not returning slots to the free list, stale key_map entries after eviction, evict_to_target loop boundary (<= vs <), len/contains/order disagreeing with each other, capacity exceeded, key compares that ignore the last byte or treat the all-zero key as absent
lru_seq!(c17_hist_c1_t0_a_a, 1, 2, [T0 A A]);
lru_seq!(c17_hist_c1_t1_a_a, 1, 2, [T1 A A]);
lru_seq!(c17_hist_c2_t0_t_a, 2, 3, [T0 T A]);
lru_seq!(c17_hist_c2_t0_n_a, 2, 3, [T0 N A]);
lru_seq!(c17_hist_c2_t1_t_a, 2, 3, [T1 T A]);
lru_seq!(c17_hist_c2_t1_n_a, 2, 3, [T1 N A]);
lru_seq!(c17_hist_c3_t0_tl_a, 3, 4, [T0 TL A]);
lru_seq!(c17_hist_c3_t0_th_a, 3, 4, [T0 TH A]);
lru_seq!(c17_hist_c3_t0_r_a, 3, 4, [T0 R A]);
lru_seq!(c17_hist_c3_t0_x_a, 3, 4, [T0 X A]);
// @end
// (capacity-3 histories starting with key 2 or 3 are data-renamings of those starting with key 0 or 1 up to the
// concrete key bytes; they run in the thorough tier to keep the quick tier under ten minutes)
// @family prop=C17 tier=thorough timeout=1800 mem=24 role=history-len3-c3-first-key-variants ram=6
// @bounds capacity in the name (c1,c2,c3) with key alphabet ALPHA[0..capacity+1] (all-zero key, first-byte-only key, last-byte-only key, all-ones key); EVERY history of length <= 3 (every prefix is compared) whose first step is touch(first key in the name) and whose later steps are any of touch(k)/remove(k)/evict_tail/evict_to_target(grid)/reset with any alphabet key; after every step: len, is_empty, capacity, contains (all keys), full recency order, return values vs a textbook LRU
// @encodes cascette_client_storage::lru::LruManager::new, cascette_client_storage::lru::LruManager::touch, cascette_client_storage::lru::LruManager::remove, cascette_client_storage::lru::LruManager::evict_tail, cascette_client_storage::lru::LruManager::evict_to_target, cascette_client_storage::lru::LruManager::reset, cascette_client_storage::lru::LruManager::contains, cascette_client_storage::lru::LruManager::len, cascette_client_storage::lru::LruManager::is_empty, cascette_client_storage::lru::LruManager::for_each_entry, cascette_client_storage::lru::LruManager::unlink, cascette_client_storage::lru::LruManager::link_at_head, cascette_client_storage::lru::LruManager::detach_tail
// @assumes hook H6: under cfg(kani) LruManager::key_map is a std BTreeMap instead of the std HashMap (same map contract; hashbrown does not finish); tracing neutralised (3 stubs); representation invariant read through the add-only cfg(kani) hook LruManager::verif_invariants_ok (walk tail->head via next: prev links, end at head, key_map[key]==slot, free list disjoint/cleared, list+free == slots) asserted after every step; for_each_entry is compared on the non-zero keys only (a live all-zero key is skipped: known finding KF-2, c17_kf2_*); evict_to_target arguments from the 3-point grid (7,7)/(8,7)/(1,0) = exactly one / two / all entries (fully symbolic arguments: c17_evict_to_target_sym_*)
// @catches touch not moving an existing key to the head, wrong victim on a full LRU, unlink/link_at_head pointer mistakes (head/tail/middle, incl. a wrong `prev` back-pointer that stays latent for the public observers), remove or reset not returning slots to the free list, stale key_map entries after eviction, evict_to_target loop boundary (<= vs <), len/contains/order disagreeing with each other, capacity exceeded, key compares that ignore the last byte or treat the all-zero key as absent
lru_seq!(c17_hist_c2_t2_t_a, 2, 3, [T2 T A]);
lru_seq!(c17_hist_c2_t2_n_a, 2, 3, [T2 N A]);
lru_seq!(c17_hist_c3_t1_tl_a, 3, 4, [T1 TL A]);
lru_seq!(c17_hist_c3_t1_th_a, 3, 4, [T1 TH A]);
lru_seq!(c17_hist_c3_t1_r_a, 3, 4, [T1 R A]);
lru_seq!(c17_hist_c3_t1_x_a, 3, 4, [T1 X A]);
lru_seq!(c17_hist_c3_t2_tl_a, 3, 4, [T2 TL A]);
lru_seq!(c17_hist_c3_t2_th_a, 3, 4, [T2 TH A]);
lru_seq!(c17_hist_c3_t2_r_a, 3, 4, [T2 R A]);
lru_seq!(c17_hist_c3_t2_x_a, 3, 4, [T2 X A]);
lru_seq!(c17_hist_c3_t3_tl_a, 3, 4, [T3 TL A]);
lru_seq!(c17_hist_c3_t3_th_a, 3, 4, [T3 TH A]);
lru_seq!(c17_hist_c3_t3_r_a, 3, 4, [T3 R A]);
lru_seq!(c17_hist_c3_t3_x_a, 3, 4, [T3 X A]);
// @end

// ---- capacity 3 filled, then any operation (length 4) ------------------------------------------------
// @family prop=C17 tier=quick timeout=900 mem=24 role=history-full3 ram=6
// @bounds capacity 3, 4-key alphabet; the LRU is filled with three distinct keys (first two in the name, third any other key), then ANY single operation (touch/remove of any of the 4 keys, evict_tail, evict_to_target grid, reset) = length-4 histories covering eviction of the true tail, re-touch of tail/middle/head, removal of tail/middle/head
// @encodes cascette_client_storage::lru::LruManager::new, cascette_client_storage::lru::LruManager::touch, cascette_client_storage::lru::LruManager::remove, cascette_client_storage::lru::LruManager::evict_tail, cascette_client_storage::lru::LruManager::evict_to_target, cascette_client_storage::lru::LruManager::reset, cascette_client_storage::lru::LruManager::contains, cascette_client_storage::lru::LruManager::len, cascette_client_storage::lru::LruManager::is_empty, cascette_client_storage::lru::LruManager::for_each_entry, cascette_client_storage::lru::LruManager::unlink, cascette_client_storage::lru::LruManager::link_at_head, cascette_client_storage::lru::LruManager::detach_tail
// @assumes hook H6: under cfg(kani) LruManager::key_map is a std BTreeMap instead of the std HashMap (same map contract; hashbrown does not finish); tracing neutralised (3 stubs); representation invariant read through the add-only cfg(kani) hook LruManager::verif_invariants_ok (walk tail->head via next: prev links, end at head, key_map[key]==slot, free list disjoint/cleared, list+free == slots) asserted after every step; for_each_entry is compared on the non-zero keys only (a live all-zero key is skipped: known finding KF-2, c17_kf2_*); evict_to_target arguments from the 3-point grid (7,7)/(8,7)/(1,0) = exactly one / two / all entries (fully symbolic arguments: c17_evict_to_target_sym_*)
// @catches touch not moving an existing key to the head, wrong victim on a full LRU, unlink/link_at_head pointer mistakes (head/tail/middle, incl. a wrong `prev` back-pointer that stays latent for the public observers), remove or reset not returning slots to the free list, stale key_map entries after eviction, evict_to_target loop boundary (<= vs <), len/contains/order disagreeing with each other, capacity exceeded, key compares that ignore the last byte or treat the all-zero key as absent
lru_seq!(c17_full3_t0_t1_d_a, 3, 4, [T0 T1 D A]);
lru_seq!(c17_full3_t1_t2_d_a, 3, 4, [T1 T2 D A]);
lru_seq!(c17_full3_t2_t3_d_a, 3, 4, [T2 T3 D A]);
lru_seq!(c17_full3_t3_t0_d_a, 3, 4, [T3 T0 D A]);
// @end

// @family prop=C17 tier=thorough timeout=1800 mem=24 role=history-full3 ram=6
// @bounds capacity 3, 4-key alphabet; the LRU is filled with three distinct keys (first two in the name, third any other key), then ANY single operation (touch/remove of any of the 4 keys, evict_tail, evict_to_target grid, reset) = length-4 histories covering eviction of the true tail, re-touch of tail/middle/head, removal of tail/middle/head
// @encodes cascette_client_storage::lru::LruManager::new, cascette_client_storage::lru::LruManager::touch, cascette_client_storage::lru::LruManager::remove, cascette_client_storage::lru::LruManager::evict_tail, cascette_client_storage::lru::LruManager::evict_to_target, cascette_client_storage::lru::LruManager::reset, cascette_client_storage::lru::LruManager::contains, cascette_client_storage::lru::LruManager::len, cascette_client_storage::lru::LruManager::is_empty, cascette_client_storage::lru::LruManager::for_each_entry, cascette_client_storage::lru::LruManager::unlink, cascette_client_storage::lru::LruManager::link_at_head, cascette_client_storage::lru::LruManager::detach_tail
// @assumes hook H6: under cfg(kani) LruManager::key_map is a std BTreeMap instead of the std HashMap (same map contract; hashbrown does not finish); tracing neutralised (3 stubs); representation invariant read through the add-only cfg(kani) hook LruManager::verif_invariants_ok (walk tail->head via next: prev links, end at head, key_map[key]==slot, free list disjoint/cleared, list+free == slots) asserted after every step; for_each_entry is compared on the non-zero keys only (a live all-zero key is skipped: known finding KF-2, c17_kf2_*); evict_to_target arguments from the 3-point grid (7,7)/(8,7)/(1,0) = exactly one / two / all entries (fully symbolic arguments: c17_evict_to_target_sym_*)
// @catches touch not moving an existing key to the head, wrong victim on a full LRU, unlink/link_at_head pointer mistakes (head/tail/middle, incl. a wrong `prev` back-pointer that stays latent for the public observers), remove or reset not returning slots to the free list, stale key_map entries after eviction, evict_to_target loop boundary (<= vs <), len/contains/order disagreeing with each other, capacity exceeded, key compares that ignore the last byte or treat the all-zero key as absent
lru_seq!(c17_full3_t0_t2_d_a, 3, 4, [T0 T2 D A]);
lru_seq!(c17_full3_t0_t3_d_a, 3, 4, [T0 T3 D A]);
lru_seq!(c17_full3_t1_t0_d_a, 3, 4, [T1 T0 D A]);
lru_seq!(c17_full3_t1_t3_d_a, 3, 4, [T1 T3 D A]);
lru_seq!(c17_full3_t2_t0_d_a, 3, 4, [T2 T0 D A]);
lru_seq!(c17_full3_t2_t1_d_a, 3, 4, [T2 T1 D A]);
lru_seq!(c17_full3_t3_t1_d_a, 3, 4, [T3 T1 D A]);
lru_seq!(c17_full3_t3_t2_d_a, 3, 4, [T3 T2 D A]);
// @end

// ---- histories that do not start with a touch -------------------------------------------------------
// @family prop=C17 tier=quick timeout=900 mem=24 role=history-nontouch-first ram=6
// @bounds capacity 2, 3-key alphabet; first step any of remove(k)/evict_tail/evict_to_target(grid)/reset on the EMPTY LRU, then any operation (length 2)
// @encodes cascette_client_storage::lru::LruManager::new, cascette_client_storage::lru::LruManager::touch, cascette_client_storage::lru::LruManager::remove, cascette_client_storage::lru::LruManager::evict_tail, cascette_client_storage::lru::LruManager::evict_to_target, cascette_client_storage::lru::LruManager::reset, cascette_client_storage::lru::LruManager::contains, cascette_client_storage::lru::LruManager::len, cascette_client_storage::lru::LruManager::is_empty, cascette_client_storage::lru::LruManager::for_each_entry, cascette_client_storage::lru::LruManager::unlink, cascette_client_storage::lru::LruManager::link_at_head, cascette_client_storage::lru::LruManager::detach_tail
// @assumes hook H6: under cfg(kani) LruManager::key_map is a std BTreeMap instead of the std HashMap (same map contract; hashbrown does not finish); tracing neutralised (3 stubs); representation invariant read through the add-only cfg(kani) hook LruManager::verif_invariants_ok (walk tail->head via next: prev links, end at head, key_map[key]==slot, free list disjoint/cleared, list+free == slots) asserted after every step; for_each_entry is compared on the non-zero keys only (a live all-zero key is skipped: known finding KF-2, c17_kf2_*); evict_to_target arguments from the 3-point grid (7,7)/(8,7)/(1,0) = exactly one / two / all entries (fully symbolic arguments: c17_evict_to_target_sym_*)
// @catches touch not moving an existing key to the head, wrong victim on a full LRU, unlink/link_at_head pointer mistakes (head/tail/middle, incl. a wrong `prev` back-pointer that stays latent for the public observers), remove or reset not returning slots to the free list, stale key_map entries after eviction, evict_to_target loop boundary (<= vs <), len/contains/order disagreeing with each other, capacity exceeded, key compares that ignore the last byte or treat the all-zero key as absent
lru_seq!(c17_hist_c2_n_a, 2, 3, [N A]);
// @end

// ---- bump_generation interleaved ---------------------------------------------------------------------
// @family prop=C17 tier=quick timeout=900 mem=24 role=history-bump-generation ram=6
// @bounds capacity 2, 2-key alphabet; bump_generation before/after touch, remove/evict/reset: generation = previous + 1, prev_generation = previous, LRU content untouched (wrap at u64::MAX -> 1 is NOT reachable: the generation field is private and starts at 1)
// @encodes cascette_client_storage::lru::LruManager::new, cascette_client_storage::lru::LruManager::touch, cascette_client_storage::lru::LruManager::remove, cascette_client_storage::lru::LruManager::evict_tail, cascette_client_storage::lru::LruManager::evict_to_target, cascette_client_storage::lru::LruManager::reset, cascette_client_storage::lru::LruManager::contains, cascette_client_storage::lru::LruManager::len, cascette_client_storage::lru::LruManager::is_empty, cascette_client_storage::lru::LruManager::for_each_entry, cascette_client_storage::lru::LruManager::unlink, cascette_client_storage::lru::LruManager::link_at_head, cascette_client_storage::lru::LruManager::detach_tail
// @assumes hook H6: under cfg(kani) LruManager::key_map is a std BTreeMap instead of the std HashMap (same map contract; hashbrown does not finish); tracing neutralised (3 stubs); representation invariant read through the add-only cfg(kani) hook LruManager::verif_invariants_ok (walk tail->head via next: prev links, end at head, key_map[key]==slot, free list disjoint/cleared, list+free == slots) asserted after every step; for_each_entry is compared on the non-zero keys only (a live all-zero key is skipped: known finding KF-2, c17_kf2_*); evict_to_target arguments from the 3-point grid (7,7)/(8,7)/(1,0) = exactly one / two / all entries (fully symbolic arguments: c17_evict_to_target_sym_*)
// @catches touch not moving an existing key to the head, wrong victim on a full LRU, unlink/link_at_head pointer mistakes (head/tail/middle, incl. a wrong `prev` back-pointer that stays latent for the public observers), remove or reset not returning slots to the free list, stale key_map entries after eviction, evict_to_target loop boundary (<= vs <), len/contains/order disagreeing with each other, capacity exceeded, key compares that ignore the last byte or treat the all-zero key as absent
lru_seq!(c17_hist_c2_bump, 2, 2, [B T B N B T]);
// @end

// ---- thorough: all histories of length <= 4 at capacity 1 and 2 ----------------------------------------
// @family prop=C17 tier=thorough timeout=1800 mem=24 role=history-len4 ram=6
// @bounds capacity 1 (2-key alphabet; the capacity-2 instances are un-registered: out of memory in the thorough tier): EVERY history of length <= 4 starting with a touch (first key and second operation in the name: t<k> touch, r<k> remove, e evict_tail, g<i> evict_to_target grid point, z reset), later steps any of touch/remove/evict_tail/evict_to_target(grid)/reset with any alphabet key
// @encodes cascette_client_storage::lru::LruManager::new, cascette_client_storage::lru::LruManager::touch, cascette_client_storage::lru::LruManager::remove, cascette_client_storage::lru::LruManager::evict_tail, cascette_client_storage::lru::LruManager::evict_to_target, cascette_client_storage::lru::LruManager::reset, cascette_client_storage::lru::LruManager::contains, cascette_client_storage::lru::LruManager::len, cascette_client_storage::lru::LruManager::is_empty, cascette_client_storage::lru::LruManager::for_each_entry, cascette_client_storage::lru::LruManager::unlink, cascette_client_storage::lru::LruManager::link_at_head, cascette_client_storage::lru::LruManager::detach_tail
// @assumes hook H6: under cfg(kani) LruManager::key_map is a std BTreeMap instead of the std HashMap (same map contract; hashbrown does not finish); tracing neutralised (3 stubs); representation invariant read through the add-only cfg(kani) hook LruManager::verif_invariants_ok (walk tail->head via next: prev links, end at head, key_map[key]==slot, free list disjoint/cleared, list+free == slots) asserted after every step; for_each_entry is compared on the non-zero keys only (a live all-zero key is skipped: known finding KF-2, c17_kf2_*); evict_to_target arguments from the 3-point grid (7,7)/(8,7)/(1,0) = exactly one / two / all entries (fully symbolic arguments: c17_evict_to_target_sym_*)
// @catches touch not moving an existing key to the head, wrong victim on a full LRU, unlink/link_at_head pointer mistakes (head/tail/middle, incl. a wrong `prev` back-pointer that stays latent for the public observers), remove or reset not returning slots to the free list, stale key_map entries after eviction, evict_to_target loop boundary (<= vs <), len/contains/order disagreeing with each other, capacity exceeded, key compares that ignore the last byte or treat the all-zero key as absent
// NOT REGISTERED (measured: ~7.3 M variables each; 16 of 33 ran out of memory when the thorough tier ran 13 at a time): lru_seq!(c17_hist4_c2_t0_t0_a_a, 2, 3, [T0 T0 A A]);
// NOT REGISTERED (measured: ~7.3 M variables each; 16 of 33 ran out of memory when the thorough tier ran 13 at a time): lru_seq!(c17_hist4_c2_t0_t1_a_a, 2, 3, [T0 T1 A A]);
// NOT REGISTERED (measured: ~7.3 M variables each; 16 of 33 ran out of memory when the thorough tier ran 13 at a time): lru_seq!(c17_hist4_c2_t0_t2_a_a, 2, 3, [T0 T2 A A]);
// NOT REGISTERED (measured: ~7.3 M variables each; 16 of 33 ran out of memory when the thorough tier ran 13 at a time): lru_seq!(c17_hist4_c2_t0_r0_a_a, 2, 3, [T0 R0 A A]);
// NOT REGISTERED (measured: ~7.3 M variables each; 16 of 33 ran out of memory when the thorough tier ran 13 at a time): lru_seq!(c17_hist4_c2_t0_r1_a_a, 2, 3, [T0 R1 A A]);
// NOT REGISTERED (measured: ~7.3 M variables each; 16 of 33 ran out of memory when the thorough tier ran 13 at a time): lru_seq!(c17_hist4_c2_t0_r2_a_a, 2, 3, [T0 R2 A A]);
// NOT REGISTERED (measured: ~7.3 M variables each; 16 of 33 ran out of memory when the thorough tier ran 13 at a time): lru_seq!(c17_hist4_c2_t0_e_a_a, 2, 3, [T0 E A A]);
// NOT REGISTERED (measured: ~7.3 M variables each; 16 of 33 ran out of memory when the thorough tier ran 13 at a time): lru_seq!(c17_hist4_c2_t0_g1_a_a, 2, 3, [T0 G1 A A]);
// NOT REGISTERED (measured: ~7.3 M variables each; 16 of 33 ran out of memory when the thorough tier ran 13 at a time): lru_seq!(c17_hist4_c2_t0_g2_a_a, 2, 3, [T0 G2 A A]);
// NOT REGISTERED (measured: ~7.3 M variables each; 16 of 33 ran out of memory when the thorough tier ran 13 at a time): lru_seq!(c17_hist4_c2_t0_g3_a_a, 2, 3, [T0 G3 A A]);
// NOT REGISTERED (measured: ~7.3 M variables each; 16 of 33 ran out of memory when the thorough tier ran 13 at a time): lru_seq!(c17_hist4_c2_t0_z_a_a, 2, 3, [T0 Z A A]);
// NOT REGISTERED (measured: ~7.3 M variables each; 16 of 33 ran out of memory when the thorough tier ran 13 at a time): lru_seq!(c17_hist4_c2_t1_t0_a_a, 2, 3, [T1 T0 A A]);
// NOT REGISTERED (measured: ~7.3 M variables each; 16 of 33 ran out of memory when the thorough tier ran 13 at a time): lru_seq!(c17_hist4_c2_t1_t1_a_a, 2, 3, [T1 T1 A A]);
// NOT REGISTERED (measured: ~7.3 M variables each; 16 of 33 ran out of memory when the thorough tier ran 13 at a time): lru_seq!(c17_hist4_c2_t1_t2_a_a, 2, 3, [T1 T2 A A]);
// NOT REGISTERED (measured: ~7.3 M variables each; 16 of 33 ran out of memory when the thorough tier ran 13 at a time): lru_seq!(c17_hist4_c2_t1_r0_a_a, 2, 3, [T1 R0 A A]);
// NOT REGISTERED (measured: ~7.3 M variables each; 16 of 33 ran out of memory when the thorough tier ran 13 at a time): lru_seq!(c17_hist4_c2_t1_r1_a_a, 2, 3, [T1 R1 A A]);
// NOT REGISTERED (measured: ~7.3 M variables each; 16 of 33 ran out of memory when the thorough tier ran 13 at a time): lru_seq!(c17_hist4_c2_t1_r2_a_a, 2, 3, [T1 R2 A A]);
// NOT REGISTERED (measured: ~7.3 M variables each; 16 of 33 ran out of memory when the thorough tier ran 13 at a time): lru_seq!(c17_hist4_c2_t1_e_a_a, 2, 3, [T1 E A A]);
// NOT REGISTERED (measured: ~7.3 M variables each; 16 of 33 ran out of memory when the thorough tier ran 13 at a time): lru_seq!(c17_hist4_c2_t1_g1_a_a, 2, 3, [T1 G1 A A]);
// NOT REGISTERED (measured: ~7.3 M variables each; 16 of 33 ran out of memory when the thorough tier ran 13 at a time): lru_seq!(c17_hist4_c2_t1_g2_a_a, 2, 3, [T1 G2 A A]);
// NOT REGISTERED (measured: ~7.3 M variables each; 16 of 33 ran out of memory when the thorough tier ran 13 at a time): lru_seq!(c17_hist4_c2_t1_g3_a_a, 2, 3, [T1 G3 A A]);
// NOT REGISTERED (measured: ~7.3 M variables each; 16 of 33 ran out of memory when the thorough tier ran 13 at a time): lru_seq!(c17_hist4_c2_t1_z_a_a, 2, 3, [T1 Z A A]);
// NOT REGISTERED (measured: ~7.3 M variables each; 16 of 33 ran out of memory when the thorough tier ran 13 at a time): lru_seq!(c17_hist4_c2_t2_t0_a_a, 2, 3, [T2 T0 A A]);
// NOT REGISTERED (measured: ~7.3 M variables each; 16 of 33 ran out of memory when the thorough tier ran 13 at a time): lru_seq!(c17_hist4_c2_t2_t1_a_a, 2, 3, [T2 T1 A A]);
// NOT REGISTERED (measured: ~7.3 M variables each; 16 of 33 ran out of memory when the thorough tier ran 13 at a time): lru_seq!(c17_hist4_c2_t2_t2_a_a, 2, 3, [T2 T2 A A]);
// NOT REGISTERED (measured: ~7.3 M variables each; 16 of 33 ran out of memory when the thorough tier ran 13 at a time): lru_seq!(c17_hist4_c2_t2_r0_a_a, 2, 3, [T2 R0 A A]);
// NOT REGISTERED (measured: ~7.3 M variables each; 16 of 33 ran out of memory when the thorough tier ran 13 at a time): lru_seq!(c17_hist4_c2_t2_r1_a_a, 2, 3, [T2 R1 A A]);
// NOT REGISTERED (measured: ~7.3 M variables each; 16 of 33 ran out of memory when the thorough tier ran 13 at a time): lru_seq!(c17_hist4_c2_t2_r2_a_a, 2, 3, [T2 R2 A A]);
// NOT REGISTERED (measured: ~7.3 M variables each; 16 of 33 ran out of memory when the thorough tier ran 13 at a time): lru_seq!(c17_hist4_c2_t2_e_a_a, 2, 3, [T2 E A A]);
// NOT REGISTERED (measured: ~7.3 M variables each; 16 of 33 ran out of memory when the thorough tier ran 13 at a time): lru_seq!(c17_hist4_c2_t2_g1_a_a, 2, 3, [T2 G1 A A]);
// NOT REGISTERED (measured: ~7.3 M variables each; 16 of 33 ran out of memory when the thorough tier ran 13 at a time): lru_seq!(c17_hist4_c2_t2_g2_a_a, 2, 3, [T2 G2 A A]);
// NOT REGISTERED (measured: ~7.3 M variables each; 16 of 33 ran out of memory when the thorough tier ran 13 at a time): lru_seq!(c17_hist4_c2_t2_g3_a_a, 2, 3, [T2 G3 A A]);
// NOT REGISTERED (measured: ~7.3 M variables each; 16 of 33 ran out of memory when the thorough tier ran 13 at a time): lru_seq!(c17_hist4_c2_t2_z_a_a, 2, 3, [T2 Z A A]);
lru_seq!(c17_hist4_c1_t0_t0_a_a, 1, 2, [T0 T0 A A]);
lru_seq!(c17_hist4_c1_t0_t1_a_a, 1, 2, [T0 T1 A A]);
lru_seq!(c17_hist4_c1_t0_r0_a_a, 1, 2, [T0 R0 A A]);
lru_seq!(c17_hist4_c1_t0_r1_a_a, 1, 2, [T0 R1 A A]);
lru_seq!(c17_hist4_c1_t0_e_a_a, 1, 2, [T0 E A A]);
lru_seq!(c17_hist4_c1_t0_g1_a_a, 1, 2, [T0 G1 A A]);
lru_seq!(c17_hist4_c1_t0_g2_a_a, 1, 2, [T0 G2 A A]);
lru_seq!(c17_hist4_c1_t0_g3_a_a, 1, 2, [T0 G3 A A]);
lru_seq!(c17_hist4_c1_t0_z_a_a, 1, 2, [T0 Z A A]);
lru_seq!(c17_hist4_c1_t1_t0_a_a, 1, 2, [T1 T0 A A]);
lru_seq!(c17_hist4_c1_t1_t1_a_a, 1, 2, [T1 T1 A A]);
lru_seq!(c17_hist4_c1_t1_r0_a_a, 1, 2, [T1 R0 A A]);
lru_seq!(c17_hist4_c1_t1_r1_a_a, 1, 2, [T1 R1 A A]);
lru_seq!(c17_hist4_c1_t1_e_a_a, 1, 2, [T1 E A A]);
lru_seq!(c17_hist4_c1_t1_g1_a_a, 1, 2, [T1 G1 A A]);
lru_seq!(c17_hist4_c1_t1_g2_a_a, 1, 2, [T1 G2 A A]);
lru_seq!(c17_hist4_c1_t1_g3_a_a, 1, 2, [T1 G3 A A]);
lru_seq!(c17_hist4_c1_t1_z_a_a, 1, 2, [T1 Z A A]);
// @end

// ---- evict_to_target with fully symbolic arguments (last step) -----------------------------------------
macro_rules! evict_sym {
    ($name:ident, $p:expr) => {
        #[kani::proof]
        #[kani::unwind(10)]
        #[kani::stub(tracing_core::callsite::DefaultCallsite::interest, crate::tracing_stubs::interest_never)]
        #[kani::stub(tracing::__macro_support::__is_enabled, crate::tracing_stubs::is_enabled_false)]
        #[kani::stub(tracing_core::event::Event::dispatch, crate::tracing_stubs::dispatch_nop)]
        fn $name() {
            const P: usize = $p;
            let target: u64 = kani::any();
            let avg: u64 = kani::any();
            // the running total `freed += avg` must not overflow (3 entries at most)
            kani::assume(avg <= u64::MAX / 4);
            let mut m = LruManager::new(3, PathBuf::new());
            let mut md = Model::new(3, 4);
            let fill = [1usize, 0, 2];
            let mut i = 0;
            while i < P {
                let r = m.touch(&ALPHA[fill[i]]);
                md.touch(fill[i]);
                assert!(r, "touch with capacity >= 1 must return true");
                i += 1;
            }
            let (cnt, freed) = m.evict_to_target(target, avg);
            let (wc, wf) = model_evict_to_target(&mut md, target, avg);
            assert!(cnt == wc, "evict_to_target evicted a wrong number of entries");
            assert!(freed == wf, "evict_to_target reports wrong freed bytes");
            assert!(m.len() == md.n, "len differs from the textbook LRU");
            // survivors are the most recent ones
            let q = any_below(P.max(1));
            if P > 0 {
                // fill[q] was touched q-th; it survives iff fewer than P - q entries were evicted... i.e. q >= wc
                assert!(m.contains(&ALPHA[fill[q]]) == (q >= wc), "evict_to_target must remove the least recent entries first");
            }
            kani::cover!(wc == P && target > 0, "everything evicted");
            kani::cover!(P == 0 || (wc < P && (wc > 0 || P == 1)), "stops early");
            std::mem::forget(m);
        }
    };
}
// @family prop=C17 tier=quick timeout=900 role=evict-to-target-symbolic-args
// @bounds capacity 3 holding P entries (P in the name, keys first-byte key / all-zero key / last-byte key), target_bytes and avg_entry_size fully symbolic u64 (avg <= u64::MAX/4); result pair, len and the surviving set compared with "evict least recent while freed < target"
// @encodes cascette_client_storage::lru::LruManager::evict_to_target, cascette_client_storage::lru::LruManager::evict_tail, cascette_client_storage::lru::LruManager::touch, cascette_client_storage::lru::LruManager::contains, cascette_client_storage::lru::LruManager::len
// @assumes hook H6 (BTreeMap key_map under cfg(kani)); tracing neutralised; avg_entry_size <= u64::MAX/4 so that `freed += avg_entry_size` cannot overflow (with larger values the unchecked addition panics in debug builds / wraps in release builds: reported, outside this property)
// @catches loop condition <= instead of <, freed accumulated with the wrong operand, eviction from the head instead of the tail, count/bytes swapped, loop not stopping on an empty LRU
evict_sym!(c17_evict_to_target_sym_p0, 0);
evict_sym!(c17_evict_to_target_sym_p1, 1);
evict_sym!(c17_evict_to_target_sym_p2, 2);
evict_sym!(c17_evict_to_target_sym_p3, 3);
// @end

// ---- regression: explicit eviction must not cost capacity (former finding KF-1, fixed in /repo 59baa81) --
// evict_tail (and evict_to_target through it) must give the freed slot back to free_list; before the
// fix the slot was lost until reset(): the LRU silently shrank and, with every slot lost, touch() returned false.
macro_rules! kf1 {
    ($name:ident, $cap:expr, $use_target:expr) => {
        #[kani::proof]
        #[kani::unwind(10)]
        #[kani::stub(tracing_core::callsite::DefaultCallsite::interest, crate::tracing_stubs::interest_never)]
        #[kani::stub(tracing::__macro_support::__is_enabled, crate::tracing_stubs::is_enabled_false)]
        #[kani::stub(tracing_core::event::Event::dispatch, crate::tracing_stubs::dispatch_nop)]
        fn $name() {
            const C: usize = $cap;
            let mut m = LruManager::new(C as u32, PathBuf::new());
            let mut md = Model::new(C, 4);
            // fill to capacity with keys 1,2,3 (non-zero), evict explicitly, touch a new key
            let mut i = 0;
            while i < C {
                let r = m.touch(&ALPHA[i + 1]);
                md.touch(i + 1);
                assert!(r, "touch with capacity >= 1 must return true");
                i += 1;
            }
            if $use_target {
                let (cnt, _) = m.evict_to_target(1, 1);
                assert!(cnt == 1, "evict_to_target(1,1) evicts one entry");
            } else {
                assert!(m.evict_tail().is_some(), "evict_tail on a non-empty LRU");
            }
            md.evict();
            assert!(m.len() == C - 1, "one entry evicted");
            let r = m.touch(&ALPHA[0 + (C < 3) as usize * 3]); // a key not touched so far (K3 for C<3, K0 for C=3)
            md.touch(0 + (C < 3) as usize * 3);
            assert!(r, "touch after an explicit eviction must return true (slot freed by evict_tail must return to the free list)");
            assert!(m.len() == md.n, "capacity lost after an explicit eviction (textbook LRU holds `capacity` keys again)");
            assert!(m.contains(&ALPHA[0 + (C < 3) as usize * 3]), "touched key must be present");
            assert!(m.verif_invariants_ok(), "representation invariant broken (prev/next links, head/tail, key_map slots or free list)");
            kani::cover!(m.len() == C, "LRU full again after the explicit eviction");
            std::mem::forget(m);
        }
    };
}
// @family prop=C17 tier=quick timeout=600 role=regression-capacity-after-explicit-eviction
// @bounds capacity 1 / 2 (in the name): fill with distinct non-zero keys, one explicit eviction (evict_tail or evict_to_target(1,1)), touch of a new key; concrete history (regression for the former finding KF-1)
// @encodes cascette_client_storage::lru::LruManager::touch, cascette_client_storage::lru::LruManager::evict_tail, cascette_client_storage::lru::LruManager::evict_to_target, cascette_client_storage::lru::LruManager::len
// @assumes hook H6; tracing neutralised
// @catches evict_tail / evict_to_target not returning the freed slot to the free list (capacity 1: touch(a), evict_tail(), touch(b) -> false, len 0; capacity 2: touch(a), touch(b), evict_tail(), touch(c) evicts b, len stays 1), slot pushed twice
kf1!(c17_kf1_capacity_lost_evict_tail_c1, 1, false);
kf1!(c17_kf1_capacity_lost_evict_to_target_c1, 1, true);
kf1!(c17_kf1_capacity_lost_evict_tail_c2, 2, false);
// @end

// ---- known findings ----------------------------------------------------------------------------------
// KF-2: a live all-zero key is skipped by for_each_entry (`is_active()` is `ekey != [0; 9]`).
// @harness prop=C17 tier=quick timeout=600 role=kf2-zero-key-for-each
// @bounds capacity 2: touch([0;9]) and one other alphabet key in either order (order symbolic), then for_each_entry
// @encodes cascette_client_storage::lru::LruManager::touch, cascette_client_storage::lru::LruManager::for_each_entry, cascette_client_storage::lru::LruManager::contains, cascette_client_storage::lru::LruManager::len
// @assumes hook H6. EXPECTED TO FAIL on the unchanged tree (known finding KF-2): after touch(&[0;9]) len()==1 and contains()==true but for_each_entry visits nothing (run_cycle's active_entries undercounts)
// @catches (documents the defect)
#[kani::proof]
#[kani::unwind(10)]
fn c17_kf2_zero_key_for_each() {
    let zero_first: bool = kani::any();
    let mut m = LruManager::new(2, PathBuf::new());
    // two arms, each on concrete container state
    if zero_first {
        kf2_run(&mut m, 0, 2);
    } else {
        kf2_run(&mut m, 3, 0);
    }
    std::mem::forget(m);
}
fn kf2_run(m: &mut LruManager, a: usize, b: usize) {
    assert!(m.touch(&ALPHA[a]) && m.touch(&ALPHA[b]), "touch with capacity >= 1 must return true");
    assert!(m.len() == 2 && m.contains(&ALPHA[0]), "all-zero key is live");
    let mut cnt = 0usize;
    m.for_each_entry(|_| cnt += 1);
    assert!(cnt == 2, "KF: for_each_entry skips a live all-zero key");
}
