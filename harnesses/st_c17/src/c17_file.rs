// C17 — `.lru` checkpoint format: serialize/deserialize round trip and the `is_active` partition that
// `LruManager::load_from_disk` uses to rebuild key_map / free_list from a loaded table.
// (checkpoint_to_disk / load_from_disk / run_cycle themselves are async over tokio::fs: out of reach.)
use crate::uf::Uf;
use md5::compute as md5_compute_real;
use cascette_client_storage::lru::lru_file::{
    deserialize, entry_count_from_file_size, serialize, validate_file_size, LruFileEntry, LruFileHeader, LRU_ENTRY_SIZE, LRU_HEADER_SIZE,
    LRU_SENTINEL,
};

// MD5 as an uninterpreted function of (length, bytes) for inputs of at most 72 bytes.
static mut MD5_UF: Uf<10, 2, 4> = Uf::new();
pub fn md5_compute_uf<T: AsRef<[u8]>>(data: T) -> md5::Digest {
    let d = data.as_ref();
    assert!(d.len() <= 72, "md5 UF stub: input longer than modelled");
    let mut w = [0u64; 10];
    w[0] = d.len() as u64;
    let mut i = 0;
    while i < d.len() {
        w[1 + i / 8] |= (d[i] as u64) << (8 * (i % 8));
        i += 1;
    }
    let o = unsafe { MD5_UF.apply(w, [u64::MAX; 2]) };
    let mut out = [0u8; 16];
    let a = o[0].to_le_bytes();
    let b = o[1].to_le_bytes();
    let mut j = 0;
    while j < 8 {
        out[j] = a[j];
        out[8 + j] = b[j];
        j += 1;
    }
    md5::Digest(out)
}

fn any_entry() -> LruFileEntry {
    LruFileEntry { prev: kani::any(), next: kani::any(), ekey: kani::any(), flags: kani::any() }
}
fn same_entry(a: &LruFileEntry, b: &LruFileEntry) -> bool {
    let i: usize = kani::any();
    kani::assume(i < 9);
    a.prev == b.prev && a.next == b.next && a.flags == b.flags && a.ekey[i] == b.ekey[i]
}

macro_rules! file_roundtrip {
    ($name:ident, $n:expr) => {
        #[kani::proof]
        #[kani::unwind(74)]
        #[kani::stub(md5_compute_real, md5_compute_uf)]
        fn $name() {
            const N: usize = $n;
            let version: u16 = kani::any();
            let header = LruFileHeader { version, hash: kani::any(), mru_head: kani::any(), lru_tail: kani::any() };
            let mut tab = [LruFileEntry::empty(); N];
            let mut i = 0;
            while i < N {
                tab[i] = any_entry();
                i += 1;
            }
            let pick: usize = kani::any();
            let hpos: usize = kani::any();
            kani::assume(hpos < 16);

            let data = serialize(&header, &tab);
            assert!(data.len() == LRU_HEADER_SIZE + N * LRU_ENTRY_SIZE, "file size must be 28 + 20 * entries");
            assert!(validate_file_size(data.len()) && entry_count_from_file_size(data.len()) == N, "size helpers disagree with serialize");
            let back = deserialize(&data);
            match &back {
                None => assert!(version > 1, "deserialize rejected a file written by serialize"),
                Some((h2, e2)) => {
                    assert!(version <= 1, "version above LRU_MAX_VERSION accepted");
                    assert!(h2.version == version && h2.mru_head == header.mru_head && h2.lru_tail == header.lru_tail, "header fields not preserved");
                    assert!(h2.hash[hpos] == data[4 + hpos], "returned hash is not the stored checksum");
                    assert!(e2.len() == N, "entry count not preserved");
                    if pick < N {
                        assert!(same_entry(&e2[pick], &tab[pick]), "entry not preserved by the round trip");
                    }
                }
            }
            // a file cut inside an entry (or inside the header) is refused by the size check
            // (lengths concrete: a symbolic slice length would make deserialize's copy symbolic-sized)
            if N > 0 {
                let r1 = deserialize(&data[..data.len() - 1]);
                let r2 = deserialize(&data[..data.len() - (LRU_ENTRY_SIZE - 1)]);
                assert!(r1.is_none() && r2.is_none(), "truncated file accepted");
                std::mem::forget((r1, r2));
            }
            kani::cover!(version <= 1, "accepted version");
            kani::cover!(version > 1, "rejected version");
            std::mem::forget(back);
            std::mem::forget(data);
        }
    };
}
// @family prop=C17 tier=quick timeout=600 role=lru-file-roundtrip
// @bounds table of N entries (N in the name: 1,2; N = 0 does not finish: CBMC cannot decide the exit of the loop over an empty slice), header version/hash/mru_head/lru_tail and every entry field (prev,next,9-byte key,flags) fully symbolic; files cut by 1 and by 19 bytes
// @encodes cascette_client_storage::lru::lru_file::serialize, cascette_client_storage::lru::lru_file::deserialize, cascette_client_storage::lru::lru_file::LruFileHeader::to_bytes, cascette_client_storage::lru::lru_file::LruFileHeader::from_bytes, cascette_client_storage::lru::lru_file::LruFileEntry::to_bytes, cascette_client_storage::lru::lru_file::LruFileEntry::from_bytes, cascette_client_storage::lru::lru_file::validate_file_size, cascette_client_storage::lru::lru_file::entry_count_from_file_size
// @assumes md5::compute stubbed by an uninterpreted function (Ackermann table over length + bytes, inputs <= 72 bytes)
// @catches field written/read at a wrong offset or width, key truncated to 8 bytes, swapped prev/next or head/tail, hash computed over a non-zeroed field, wrong size arithmetic, version check off by one
file_roundtrip!(c17_file_roundtrip_n1, 1);
file_roundtrip!(c17_file_roundtrip_n2, 2);
// @end

/// Table as an LruManager writes it: a live slot holds its key, a free slot is `LruFileEntry::empty()`.
/// After the round trip the rebuild loop of load_from_disk (`is_active` -> key_map, else free_list)
/// must recover exactly the live slots with their keys.
fn partition_check(zero_allowed: bool) {
    const N: usize = 2;
    let live: [bool; N] = kani::any();
    let keys: [[u8; 9]; N] = kani::any();
    let links: [(u32, u32, u8); N] = kani::any();
    let header = LruFileHeader { version: 1, hash: [0; 16], mru_head: kani::any(), lru_tail: kani::any() };
    let slot: usize = kani::any();
    kani::assume(slot < N);
    let b: usize = kani::any();
    kani::assume(b < 9);
    let zero0 = keys[0] == [0u8; 9];
    let zero1 = keys[1] == [0u8; 9];
    if !zero_allowed {
        // known finding KF-3 (own harness): a live all-zero key
        kani::assume(!(live[0] && zero0) && !(live[1] && zero1));
    }
    let mut tab = [LruFileEntry::empty(); N];
    let mut i = 0;
    while i < N {
        if live[i] {
            tab[i] = LruFileEntry { prev: links[i].0, next: links[i].1, ekey: keys[i], flags: links[i].2 };
        }
        i += 1;
    }
    let data = serialize(&header, &tab);
    let back = deserialize(&data);
    match &back {
        None => assert!(false, "deserialize rejected a file written by serialize"),
        Some((_, e2)) => {
            assert!(e2.len() == N, "entry count not preserved");
            // the rebuild loop of load_from_disk, for the observed slot
            let to_key_map = e2[slot].is_active();
            if zero_allowed {
                assert!(to_key_map == live[slot], "KF: a live all-zero key is reloaded as a free slot (is_active is `ekey != 0`)");
            } else {
                assert!(to_key_map == live[slot], "is_active partition does not recover the live slots");
            }
            if live[slot] {
                assert!(e2[slot].ekey[b] == keys[slot][b], "key of a live slot changed");
                assert!(e2[slot].prev == links[slot].0 && e2[slot].next == links[slot].1, "links of a live slot changed");
            } else {
                assert!(e2[slot].prev == LRU_SENTINEL && e2[slot].next == LRU_SENTINEL, "free slot must stay unlinked");
            }
        }
    }
    // (covers last: the driver replays the first playback test Kani prints)
    kani::cover!(live[slot], "observed slot is live");
    kani::cover!(!live[slot], "observed slot is free");
    std::mem::forget(back);
    std::mem::forget(data);
}

// @harness prop=C17 tier=quick timeout=600 role=lru-file-active-partition
// @bounds table of 2 slots, each live (symbolic non-zero 9-byte key, symbolic prev/next/flags) or free (LruFileEntry::empty()); header head/tail symbolic; observed slot and key byte symbolic
// @encodes cascette_client_storage::lru::lru_file::serialize, cascette_client_storage::lru::lru_file::deserialize, cascette_client_storage::lru::lru_file::LruFileEntry::is_active, cascette_client_storage::lru::lru_file::LruFileEntry::empty
// @assumes md5::compute stubbed by an uninterpreted function; live keys are not all-zero (that case is known finding KF-3, harness c17_kf3_file_zero_key_partition); the rebuild loop of the async load_from_disk is represented by its per-slot decision `is_active()`
// @catches is_active testing the wrong field / only part of the key / inverted, empty() not recognised as free, key bytes shifted by the entry layout
#[kani::proof]
#[kani::unwind(74)]
#[kani::stub(md5_compute_real, md5_compute_uf)]
fn c17_file_active_partition_n2() {
    partition_check(false);
}

// @harness prop=C17 tier=quick timeout=600 role=kf3-zero-key-checkpoint
// @bounds as c17_file_active_partition_n2 but live keys may be all-zero
// @encodes cascette_client_storage::lru::lru_file::serialize, cascette_client_storage::lru::lru_file::deserialize, cascette_client_storage::lru::lru_file::LruFileEntry::is_active
// @assumes md5::compute stubbed by an uninterpreted function. EXPECTED TO FAIL on the unchanged tree (known finding KF-3): touch(&[0;9]) stores a live entry whose checkpoint image equals LruFileEntry::empty() up to links, so load_from_disk puts its slot on the free list and drops the key
// @catches (documents the defect; turns green when live entries become distinguishable from free slots)
#[kani::proof]
#[kani::unwind(74)]
#[kani::stub(md5_compute_real, md5_compute_uf)]
fn c17_kf3_file_zero_key_partition() {
    partition_check(true);
}
