use cascette_client_storage::lru::LruManager;
use std::path::PathBuf;

// @harness prop=C17 tier=thorough timeout=600 role=probe
#[kani::proof]
#[kani::unwind(4)]
#[kani::stub(tracing_core::callsite::DefaultCallsite::interest, crate::tracing_stubs::interest_never)]
#[kani::stub(tracing::__macro_support::__is_enabled, crate::tracing_stubs::is_enabled_false)]
#[kani::stub(tracing_core::event::Event::dispatch, crate::tracing_stubs::dispatch_nop)]
#[kani::stub(std::hash::RandomState::new, crate::stubs::fixed_random_state)]
fn c17_probe_tracing() {
    let mut m = LruManager::new(2, PathBuf::new());
    let (n, b) = m.evict_to_target(0, 1);
    assert!(n == 0 && b == 0);
    assert!(m.len() == 0);
    std::mem::forget(m);
}
