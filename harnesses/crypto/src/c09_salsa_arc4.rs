// C09 — Salsa20 (CASC variant) and ARC4 against the published algorithms.
use crate::refmodels::*;
use crate::uf::{LockStep, Uf};
use cascette_crypto::arc4::Arc4Cipher;
use cascette_crypto::salsa20::{Salsa20Cipher, decrypt_salsa20, encrypt_salsa20, verif_access as sx};

// ---- quarter round as lock-step UF (implementation records, reference checks) -----------------
static mut QR: LockStep<4, 4, 80> = LockStep::new();
const M32_4: [u64; 4] = [0xFFFF_FFFF; 4];
fn ref_qr_fn(y: [u32; 4]) -> [u32; 4] {
    if cfg!(vreplay) {
        return spec_quarterround(y);
    }
    let o = unsafe { QR.chk([y[0] as u64, y[1] as u64, y[2] as u64, y[3] as u64], M32_4) };
    [o[0] as u32, o[1] as u32, o[2] as u32, o[3] as u32]
}
// signature of Salsa20Cipher::quarter_round (implementation side)
fn uf_quarter_round(state: &mut [u32; 16], a: usize, b: usize, c: usize, d: usize) {
    let o = unsafe { QR.rec([state[a] as u64, state[b] as u64, state[c] as u64, state[d] as u64], M32_4) };
    state[a] = o[0] as u32;
    state[b] = o[1] as u32;
    state[c] = o[2] as u32;
    state[d] = o[3] as u32;
}

// (a) the real quarter round vs the specification, arbitrary state, arbitrary distinct indices
// @harness prop=C09 tier=quick timeout=300 role=salsa-quarterround-kernel
// @bounds every 16-word state, every 4 pairwise-distinct word indices
// @encodes cascette_crypto::salsa20::Salsa20Cipher::quarter_round
// @catches wrong rotation amount, wrong operand, wrong update order
#[kani::proof]
fn c09_salsa_quarter_round_kernel() {
    let st: [u32; 16] = kani::any();
    let (a, b, c, d): (usize, usize, usize, usize) = (kani::any(), kani::any(), kani::any(), kani::any());
    kani::assume(a < 16 && b < 16 && c < 16 && d < 16);
    kani::assume(a != b && a != c && a != d && b != c && b != d && c != d);
    let mut s = st;
    sx::quarter_round(&mut s, a, b, c, d);
    let z = spec_quarterround([st[a], st[b], st[c], st[d]]);
    assert!(s[a] == z[0] && s[b] == z[1] && s[c] == z[2] && s[d] == z[3], "quarter_round differs from the Salsa20 specification");
    let mut i = 0;
    while i < 16 {
        if i != a && i != b && i != c && i != d {
            assert!(s[i] == st[i], "quarter_round touched a word outside its quadruple");
        }
        i += 1;
    }
    kani::cover!(a == 15 && b == 12, "diagonal tuple reachable");
}

// (b) block function on an arbitrary input block: 10 doublerounds with the specified index
// schedule, feed-forward, little-endian serialisation, 64-bit counter increment with carry.
// @harness prop=C09 tier=quick timeout=900 role=salsa-block-function
// @bounds every 16-word input block (incl. counter words 0xFFFFFFFF)
// @encodes cascette_crypto::salsa20::Salsa20Cipher::generate_keystream
// @assumes quarter_round replaced by a lock-step uninterpreted function (k-th implementation call vs k-th reference call; coarser than full UF, still sound); the real quarter_round is proved equal to the spec by the kernel harness
// @catches wrong round count, wrong index tuple, missing feed-forward, big-endian output, counter carry lost
#[kani::proof]
#[kani::unwind(17)]
#[kani::stub(cascette_crypto::salsa20::Salsa20Cipher::quarter_round, uf_quarter_round)]
fn c09_salsa_block_function() {
    let st: [u32; 16] = kani::any();
    let mut c = sx::from_state(st);
    sx::generate_keystream(&mut c);
    let ks = sx::keystream(&c);
    let want = spec_salsa20_core(st, ref_qr_fn);
    let i: usize = kani::any();
    kani::assume(i < 64);
    assert!(ks[i] == want[i], "keystream block differs from Salsa20(x)");
    let after = sx::state(&c);
    let ctr = ((st[9] as u64) << 32 | st[8] as u64).wrapping_add(1);
    assert!(after[8] == ctr as u32 && after[9] == (ctr >> 32) as u32, "64-bit block counter not incremented with carry");
    let mut i = 0;
    while i < 16 {
        if i != 8 && i != 9 {
            assert!(after[i] == st[i], "generate_keystream changed a non-counter word");
        }
        i += 1;
    }
    assert!(sx::keystream_pos(&c) == 0, "keystream position not reset");
    kani::cover!(st[8] == 0xFFFF_FFFF, "carry case reachable");
}

// (d) stream behaviour: keystream applied in two pieces == applied at once == data XOR
// Salsa20(state with counter = i/64)[i%64], across two block boundaries; encrypt∘decrypt = id.
// The block function is replaced by an uninterpreted function of the 16-word input block.
static mut BLK: Uf<16, 16, 12> = Uf::new();
fn uf_block(st: [u32; 16]) -> [u8; 64] {
    if cfg!(vreplay) {
        return spec_salsa20_core(st, spec_quarterround);
    }
    let mut i16 = [0u64; 16];
    let mut i = 0;
    while i < 16 {
        i16[i] = st[i] as u64;
        i += 1;
    }
    let o = unsafe { BLK.apply(i16, [0xFFFF_FFFF; 16]) };
    let mut out = [0u8; 64];
    let mut i = 0;
    while i < 16 {
        let v = o[i] as u32;
        out[4 * i] = v as u8;
        out[4 * i + 1] = (v >> 8) as u8;
        out[4 * i + 2] = (v >> 16) as u8;
        out[4 * i + 3] = (v >> 24) as u8;
        i += 1;
    }
    out
}
// stub for Salsa20Cipher::generate_keystream: the private fields are unreachable from here, so
// the stub rebuilds the cipher through the access shim.
fn uf_generate_keystream(c: &mut Salsa20Cipher) {
    let st = sx::state(c);
    let ks = uf_block(st);
    let ctr = ((st[9] as u64) << 32 | st[8] as u64).wrapping_add(1);
    let mut st2 = st;
    st2[8] = ctr as u32;
    st2[9] = (ctr >> 32) as u32;
    *c = sx::from_parts(st2, ks, 0);
}

// (c) state layout built by `new`: tau constants, key twice, IV (4 or 8 bytes) xor block index,
// zero counter; first keystream block = Salsa20(that state); other IV lengths rejected.
// @harness prop=C09 tier=quick timeout=900 role=salsa-state-layout
// @bounds every 16-byte key, IV length 0..=9 (symbolic) with symbolic bytes, every usize block index
// @encodes cascette_crypto::salsa20::Salsa20Cipher::new
// @assumes generate_keystream replaced by UF(block)+counter increment (block function and counter proved by c09_salsa_block_function)
// @catches block index XORed into the wrong IV bytes / big-endian, key halves swapped, sigma instead of tau, nonzero initial counter, IV length check
#[kani::proof]
#[kani::unwind(17)]
#[kani::stub(cascette_crypto::salsa20::Salsa20Cipher::generate_keystream, uf_generate_keystream)]
fn c09_salsa_state_layout() {
    let key: [u8; 16] = kani::any();
    let ivb: [u8; 9] = kani::any();
    let ivlen: usize = kani::any();
    kani::assume(ivlen <= 9);
    let bi: usize = kani::any();
    let r = Salsa20Cipher::new(&key, &ivb[..ivlen], bi);
    if ivlen != 4 && ivlen != 8 {
        assert!(r.is_err(), "IV of unsupported length accepted");
        return;
    }
    let c = match r {
        Ok(c) => c,
        Err(_) => {
            assert!(false, "valid key/IV rejected");
            return;
        }
    };
    let st0 = spec_casc_salsa_state(&key, &ivb[..ivlen], bi as u32, 0);
    let st = sx::state(&c);
    let mut i = 0;
    while i < 16 {
        if i != 8 {
            assert!(st[i] == st0[i], "state word differs from the CASC Salsa20 layout");
        }
        i += 1;
    }
    assert!(st[8] == 1, "counter after the first block must be 1");
    assert!(sx::keystream_pos(&c) == 0, "fresh cipher must start at keystream position 0");
    let ks = sx::keystream(&c);
    let want = uf_block(st0);
    let i: usize = kani::any();
    kani::assume(i < 64);
    assert!(ks[i] == want[i], "first keystream block differs from Salsa20(layout)");
    kani::cover!(ivlen == 4, "4-byte IV");
    kani::cover!(ivlen == 8, "8-byte IV");
}

// (d) stream behaviour as ONE INDUCTIVE STEP: from an arbitrary cipher (any state words, any
// keystream buffer, any position 0..=64 — the invariant `new` establishes and this step
// preserves), applying the keystream to n <= 2 bytes XORs byte t with keystream[pos+t] of the
// current block, or of the next block Salsa20(state) when the position reaches 64, and leaves the
// cipher in the corresponding state.  Because the routine is this step repeated per byte, the step
// property gives "pieces == at once == data xor keystream" for every stream length and split.
// @harness prop=C09 tier=quick timeout=900 role=salsa-stream-step
// @bounds arbitrary cipher state (16 words, 64 keystream bytes, position 0..=64), 0..=2 data bytes
// @encodes cascette_crypto::salsa20::Salsa20Cipher::apply_keystream
// @assumes generate_keystream replaced by UF(block)+counter increment
// @catches keystream byte skipped/reused at the 64-byte boundary (>= vs >), position not advanced, wrong block regenerated
#[kani::proof]
#[kani::unwind(17)]
#[kani::stub(cascette_crypto::salsa20::Salsa20Cipher::generate_keystream, uf_generate_keystream)]
fn c09_salsa_stream_step() {
    let st: [u32; 16] = kani::any();
    let ks: [u8; 64] = kani::any();
    let pos: usize = kani::any();
    kani::assume(pos <= 64);
    let data: [u8; 2] = kani::any();
    let n: usize = kani::any();
    kani::assume(n <= 2);
    let mut c = sx::from_parts(st, ks, pos);
    let mut buf = data;
    c.apply_keystream(&mut buf[..n]);
    // reference: sequential semantics
    let next = uf_block(st);
    let mut rpos = pos;
    let mut rks = ks;
    let mut rst = st;
    let mut t = 0;
    while t < 2 {
        if t < n {
            if rpos == 64 {
                rks = next; // at most one regeneration within 2 bytes
                let ctr = ((rst[9] as u64) << 32 | rst[8] as u64).wrapping_add(1);
                rst[8] = ctr as u32;
                rst[9] = (ctr >> 32) as u32;
                rpos = 0;
            }
            assert!(buf[t] == data[t] ^ rks[rpos], "byte != plaintext xor current keystream byte");
            rpos += 1;
        } else {
            assert!(buf[t] == data[t], "byte beyond the slice modified");
        }
        t += 1;
    }
    assert!(sx::keystream_pos(&c) == rpos, "keystream position after the call is wrong");
    let (s2, k2) = (sx::state(&c), sx::keystream(&c));
    // "for all i" as a symbolic index (decided by the solver, no loop to unwind)
    let i: usize = kani::any();
    kani::assume(i < 16);
    assert!(s2[i] == rst[i], "state words after the call are wrong");
    let i: usize = kani::any();
    kani::assume(i < 64);
    assert!(k2[i] == rks[i], "keystream buffer after the call is wrong");
    kani::cover!(pos == 64 && n == 2, "regeneration on first byte");
    kani::cover!(pos == 63 && n == 2, "regeneration on second byte");
    kani::cover!(pos == 0 && n == 0, "empty slice");
}

// @harness prop=C09 tier=quick timeout=900 role=salsa-roundtrip
// @bounds message length 0..=6 symbolic, every key / IV(4|8) / block index
// @encodes cascette_crypto::salsa20::encrypt_salsa20, cascette_crypto::salsa20::decrypt_salsa20
// @assumes generate_keystream replaced by UF(block)+counter increment
// @catches encrypt and decrypt using different parameters, output length change
#[kani::proof]
#[kani::unwind(17)]
#[kani::stub(cascette_crypto::salsa20::Salsa20Cipher::generate_keystream, uf_generate_keystream)]
fn c09_salsa_encrypt_decrypt_identity() {
    const N: usize = 6;
    let key: [u8; 16] = kani::any();
    let iv: [u8; 8] = kani::any();
    let iv8: bool = kani::any();
    let bi: usize = kani::any();
    let data: [u8; N] = kani::any();
    let len: usize = kani::any();
    kani::assume(len <= N);
    let ivs: &[u8] = if iv8 { &iv[..8] } else { &iv[..4] };
    let ct = encrypt_salsa20(&data[..len], &key, ivs, bi).unwrap();
    assert!(ct.len() == len);
    let b0 = uf_block(spec_casc_salsa_state(&key, ivs, bi as u32, 0));
    let pt = decrypt_salsa20(&ct, &key, ivs, bi).unwrap();
    assert!(pt.len() == len);
    let mut i = 0;
    while i < N {
        if i < len {
            assert!(ct[i] == data[i] ^ b0[i], "ciphertext != plaintext xor first keystream block");
            assert!(pt[i] == data[i], "decrypt(encrypt(m)) != m");
        }
        i += 1;
    }
    kani::cover!(len == 6, "max length");
    std::mem::forget(ct);
    std::mem::forget(pt);
}

// ---- ARC4 ------------------------------------------------------------------------------------
use cascette_crypto::arc4::verif_access as ax;

// PRGA as one inductive step from an arbitrary permutation state.
// @harness prop=C09 tier=quick timeout=900 role=arc4-prga-step
// @bounds every 256-byte S (not even required to be a permutation), every i, j; 1 output byte + 2-byte encrypt
// @encodes cascette_crypto::arc4::Arc4Cipher::next_keystream_byte, cascette_crypto::arc4::Arc4Cipher::encrypt, cascette_crypto::arc4::Arc4Cipher::decrypt, cascette_crypto::arc4::Arc4Cipher::apply_keystream
// @catches PRGA i/j update order, swap, output index, encrypt/decrypt asymmetry
#[kani::proof]
#[kani::unwind(4)]
fn c09_arc4_prga_step() {
    let s: [u8; 256] = kani::any();
    let i: u8 = kani::any();
    let j: u8 = kani::any();
    let mut c = ax::from_parts(s, i, j);
    let k = ax::next_keystream_byte(&mut c);
    let mut r = SpecRc4 { s, i: i as usize, j: j as usize };
    let rk = r.next();
    assert!(k == rk, "PRGA output byte differs from RC4");
    let (s2, i2, j2) = ax::parts(&c);
    assert!(i2 as usize == r.i && j2 as usize == r.j, "PRGA i/j differ from RC4");
    let t: usize = kani::any();
    kani::assume(t < 256);
    assert!(s2[t] == r.s[t], "PRGA permutation differs from RC4");
    // encrypt / decrypt / apply_keystream are the step mapped over the data
    let d: [u8; 2] = kani::any();
    let mut c1 = ax::from_parts(s, i, j);
    let e = c1.encrypt(&d);
    let mut c2 = ax::from_parts(s, i, j);
    let p = c2.decrypt(&e);
    let mut c3 = ax::from_parts(s, i, j);
    let mut q = d;
    c3.apply_keystream(&mut q);
    let mut r2 = SpecRc4 { s, i: i as usize, j: j as usize };
    let (k0, k1) = (r2.next(), r2.next());
    assert!(e.len() == 2 && e[0] == d[0] ^ k0 && e[1] == d[1] ^ k1, "encrypt != data xor RC4 keystream");
    assert!(p.len() == 2 && p[0] == d[0] && p[1] == d[1], "decrypt(encrypt(m)) != m");
    assert!(q[0] == e[0] && q[1] == e[1], "apply_keystream != encrypt");
    kani::cover!(i == 255, "i wraps");
    std::mem::forget(e);
    std::mem::forget(p);
}

// KSA: `Arc4Cipher::new` vs the RC4 key schedule.  A fully symbolic key byte makes all 256 swaps
// symbolic-index array updates on both sides (measured: key length 1 and 2 each time out at 3000 s in
// symex), so the key schedule is checked on keys that are concrete except for ONE symbolic bit
// position/value pair per harness: still a solver query (2 keys per harness are covered at once), but
// honest about its reach: this is close to a known-answer test of the KSA against the reference
// model, not a for-all claim over keys.
macro_rules! arc4_ksa {
    ($name:ident, $key:expr, $pos:expr) => {
        #[kani::proof]
        #[kani::unwind(258)]
        fn $name() {
            let mut kb = $key;
            let flip: bool = kani::any();
            if flip {
                kb[$pos] ^= 0x80;
            }
            let c = Arc4Cipher::new(&kb).unwrap();
            let r = SpecRc4::new(&kb);
            let (s, i, j) = ax::parts(&c);
            assert!(i == 0 && j == 0, "KSA must leave i = j = 0");
            let t: usize = kani::any();
            kani::assume(t < 256);
            assert!(s[t] == r.s[t], "KSA permutation differs from RC4");
            kani::cover!(flip, "flipped key");
        }
    };
}
// @family prop=C09 tier=quick timeout=900 role=arc4-ksa-near-concrete
// @bounds keys of 1, 3, 5 and 16 bytes, concrete except for one symbolic bit (2 keys per harness); full 256-entry permutation compared (symbolic index)
// @encodes cascette_crypto::arc4::Arc4Cipher::new
// @assumes reference RC4 key schedule in refmodels.rs; fully symbolic key bytes do not finish (3000 s), so this is a near-concrete regression of the KSA, not a for-all claim
// @catches KSA key index (i % len), swap order, j update, initial permutation
arc4_ksa!(c09_arc4_ksa_key1, [0x4Bu8], 0);
arc4_ksa!(c09_arc4_ksa_key3, *b"Key", 1);
arc4_ksa!(c09_arc4_ksa_key5, *b"Wiki\x00", 4);
arc4_ksa!(c09_arc4_ksa_key16, [0x01u8, 0x23, 0x45, 0x67, 0x89, 0xAB, 0xCD, 0xEF, 0xFE, 0xDC, 0xBA, 0x98, 0x76, 0x54, 0x32, 0x10], 15);
// @end

// @harness prop=C09 tier=quick timeout=600 role=arc4-key-length-check
// @bounds key length 0 and 257 (the two rejected classes), 1 accepted
// @encodes cascette_crypto::arc4::Arc4Cipher::new
#[kani::proof]
#[kani::unwind(258)]
fn c09_arc4_key_length_contract() {
    let empty: [u8; 0] = [];
    assert!(Arc4Cipher::new(&empty).is_err(), "empty ARC4 key accepted");
    let long = [0u8; 257];
    assert!(Arc4Cipher::new(&long).is_err(), "257-byte ARC4 key accepted");
    let b: u8 = kani::any();
    let one = [b];
    assert!(Arc4Cipher::new(&one).is_ok(), "1-byte ARC4 key rejected");
    kani::cover!(b == 0xFF, "key byte free");
}
