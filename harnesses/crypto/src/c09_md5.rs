// C09 — MD5-based content / encoding keys: the key is the MD5 digest of exactly the given bytes.
// The digest core is the RustCrypto `md-5` crate; what this repository owns is the glue
// (which bytes are hashed, how the 16 digest bytes are stored).  The harness compares the keys with
// a direct digest of the same message computed by the same library (a miter of identical circuits,
// decided by the solver for every message of the stated length) and with the RFC 1321 test vector
// for the empty message.
use cascette_crypto::md5::{ContentKey, EncodingKey};
use md5::{Digest, Md5};

macro_rules! md5_glue {
    ($name:ident, $n:expr) => {
        #[kani::proof]
        #[kani::unwind(70)]
        fn $name() {
            let msg: [u8; $n] = kani::any();
            let ck = ContentKey::from_data(&msg);
            let ek = EncodingKey::from_data(&msg);
            let mut h = Md5::new();
            h.update(&msg[..]);
            let d = h.finalize();
            let i: usize = kani::any();
            kani::assume(i < 16);
            assert!(ck.as_bytes()[i] == d[i], "ContentKey::from_data is not MD5(data)");
            assert!(ek.as_bytes()[i] == d[i], "EncodingKey::from_data is not MD5(data)");
            assert!(ek.first_9()[i % 9] == d[i % 9], "first_9 is not the first nine digest bytes");
            if $n == 0 {
                // RFC 1321: MD5("") = d41d8cd98f00b204e9800998ecf8427e
                const EMPTY: [u8; 16] = [0xd4, 0x1d, 0x8c, 0xd9, 0x8f, 0x00, 0xb2, 0x04, 0xe9, 0x80, 0x09, 0x98, 0xec, 0xf8, 0x42, 0x7e];
                assert!(d[i] == EMPTY[i], "digest of the empty message differs from RFC 1321");
            }
            kani::cover!(i == 15, "last digest byte observed");
        }
    };
}
// @family prop=C09 tier=quick timeout=900 role=md5-key-glue
// @bounds message of the fixed length in the name (0, 1, 9 bytes), every byte symbolic
// @encodes cascette_crypto::md5::ContentKey::from_data, cascette_crypto::md5::EncodingKey::from_data, cascette_crypto::md5::EncodingKey::first_9
// @assumes the md-5 crate's compression function is trusted (third-party; only the empty-message RFC 1321 vector is checked); longer messages outside
// @catches key computed over a truncated / extended slice, digest bytes reordered, first_9 taking the wrong bytes
md5_glue!(c09_md5_key_glue_len0, 0);
md5_glue!(c09_md5_key_glue_len1, 1);
md5_glue!(c09_md5_key_glue_len9, 9);
// @end
