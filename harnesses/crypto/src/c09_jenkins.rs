// C09 — lookup3 (Jenkins) hashes: hashlittle, hashlittle2, Jenkins96::hash vs lookup3.c.
//
// Decomposition: (a) the two ARX kernels `mix` / `final_mix` are compared with the published
// ones on arbitrary words (access shim under cfg(kani)); (b) the skeleton — block loading, loop,
// the 12 tail cases, seeds, return convention — is compared with the reference walk with both
// kernels *uninterpreted* (UF), per block-count group with the tail length symbolic; (a)+(b)
// compose to "impl == lookup3.c" for every message in the covered length range; (c) monolithic
// differentials without any stub for a few fixed lengths cross-check the composition (thorough).
use crate::refmodels::*;
use crate::uf::Uf;
use cascette_crypto::jenkins::{Jenkins96, hashlittle, hashlittle2};

// ---- UF stand-ins for the two ARX kernels (shared by implementation and reference) ----------
static mut MIX: Uf<3, 3, 24> = Uf::new();
static mut FIN: Uf<3, 3, 4> = Uf::new();
const M32: [u64; 3] = [0xFFFF_FFFF; 3];

// Reference side: under the model checker the kernels are the UF tables; in native replay
// (cfg(vreplay): stubs are inactive, the implementation runs its real kernels) the reference uses
// the published kernels, so a replayed mismatch is a real difference from lookup3.c.
fn uf_mix_fn(s: [u32; 3]) -> [u32; 3] {
    if cfg!(vreplay) {
        return spec_mix(s);
    }
    let o = unsafe { MIX.apply([s[0] as u64, s[1] as u64, s[2] as u64], M32) };
    [o[0] as u32, o[1] as u32, o[2] as u32]
}
fn uf_fin_fn(s: [u32; 3]) -> [u32; 3] {
    if cfg!(vreplay) {
        return spec_final(s);
    }
    let o = unsafe { FIN.apply([s[0] as u64, s[1] as u64, s[2] as u64], M32) };
    [o[0] as u32, o[1] as u32, o[2] as u32]
}
// signatures of cascette_crypto::jenkins::{mix, final_mix}
fn uf_mix(a: &mut u32, b: &mut u32, c: &mut u32) {
    let o = uf_mix_fn([*a, *b, *c]);
    *a = o[0];
    *b = o[1];
    *c = o[2];
}
fn uf_final(a: &mut u32, b: &mut u32, c: &mut u32) {
    let o = uf_fin_fn([*a, *b, *c]);
    *a = o[0];
    *b = o[1];
    *c = o[2];
}

// ---- (a) kernels ----------------------------------------------------------------------------
// @harness prop=C09 tier=quick timeout=120 role=jenkins-mix-kernel
// @bounds all (a,b,c) in u32^3 (no bound)
// @encodes cascette_crypto::jenkins::mix
// @catches wrong rotation constant / operand order in mix
#[kani::proof]
fn c09_jenkins_mix_kernel() {
    let s: [u32; 3] = kani::any();
    let (mut a, mut b, mut c) = (s[0], s[1], s[2]);
    cascette_crypto::jenkins::verif_access::mix(&mut a, &mut b, &mut c);
    let r = spec_mix(s);
    assert!(a == r[0] && b == r[1] && c == r[2], "mix differs from lookup3 mix()");
    kani::cover!(a != s[0], "mix changes a");
}

// @harness prop=C09 tier=quick timeout=120 role=jenkins-final-kernel
// @bounds all (a,b,c) in u32^3 (no bound)
// @encodes cascette_crypto::jenkins::final_mix
#[kani::proof]
fn c09_jenkins_final_kernel() {
    let s: [u32; 3] = kani::any();
    let (mut a, mut b, mut c) = (s[0], s[1], s[2]);
    cascette_crypto::jenkins::verif_access::final_mix(&mut a, &mut b, &mut c);
    let r = spec_final(s);
    assert!(a == r[0] && b == r[1] && c == r[2], "final_mix differs from lookup3 final()");
    kani::cover!(c != s[2], "final changes c");
}

// ---- (b) skeleton, per block-count group ------------------------------------------------------
macro_rules! jl2_group {
    ($name:ident, $lo:expr, $hi:expr) => {
        #[kani::proof]
        #[kani::unwind(136)]
        #[kani::stub(cascette_crypto::jenkins::mix, uf_mix)]
        #[kani::stub(cascette_crypto::jenkins::final_mix, uf_final)]
        fn $name() {
            let buf: [u8; $hi] = kani::any();
            let len: usize = kani::any();
            kani::assume(len >= $lo && len <= $hi);
            let pc0: u32 = kani::any();
            let pb0: u32 = kani::any();
            let (mut pc, mut pb) = (pc0, pb0);
            hashlittle2(&buf[..len], &mut pc, &mut pb);
            let (rc, rb) = spec_hashlittle2(&buf[..len], pc0, pb0, uf_mix_fn, uf_fin_fn);
            assert!(pc == rc, "hashlittle2 primary (pc) differs from lookup3");
            assert!(pb == rb, "hashlittle2 secondary (pb) differs from lookup3");
            kani::cover!(len == $lo, "shortest of group");
            kani::cover!(len == $hi, "longest of group");
        }
    };
}
macro_rules! jl1_group {
    ($name:ident, $lo:expr, $hi:expr) => {
        #[kani::proof]
        #[kani::unwind(136)]
        #[kani::stub(cascette_crypto::jenkins::mix, uf_mix)]
        #[kani::stub(cascette_crypto::jenkins::final_mix, uf_final)]
        fn $name() {
            let buf: [u8; $hi] = kani::any();
            let len: usize = kani::any();
            kani::assume(len >= $lo && len <= $hi);
            let init: u32 = kani::any();
            let h = hashlittle(&buf[..len], init);
            let r = spec_hashlittle(&buf[..len], init, uf_mix_fn, uf_fin_fn);
            assert!(h == r, "hashlittle differs from lookup3");
            kani::cover!(len == $lo, "shortest of group");
            kani::cover!(len == $hi, "longest of group");
        }
    };
}

// @family prop=C09 tier=quick timeout=600 role=jenkins-skeleton
// @bounds message length in the group's range (tail length symbolic), every byte and both seeds symbolic; groups cover 0..=60
// @encodes cascette_crypto::jenkins::hashlittle2, cascette_crypto::jenkins::hashlittle2_impl, cascette_crypto::jenkins::hashlittle
// @assumes mix/final_mix replaced by uninterpreted functions (Ackermann table); sound because the kernel harnesses prove them equal to the published kernels
// @catches tail case missing/misplacing a byte, `> 12` vs `>= 12`, seeds swapped or dropped, wrong return word, length not added
jl2_group!(c09_jl2_len_000_012, 0, 12);
jl2_group!(c09_jl2_len_013_024, 13, 24);
jl2_group!(c09_jl2_len_025_036, 25, 36);
jl2_group!(c09_jl2_len_037_048, 37, 48);
jl2_group!(c09_jl2_len_049_060, 49, 60);
jl1_group!(c09_jl1_len_000_012, 0, 12);
jl1_group!(c09_jl1_len_013_024, 13, 24);
jl1_group!(c09_jl1_len_025_036, 25, 36);
jl1_group!(c09_jl1_len_037_048, 37, 48);
jl1_group!(c09_jl1_len_049_060, 49, 60);
// @end

// @family prop=C09 tier=thorough timeout=1800 role=jenkins-skeleton-long
// @bounds message length in the group's range (tail length symbolic), bytes and seeds symbolic; groups cover 61..=132
// @encodes cascette_crypto::jenkins::hashlittle2, cascette_crypto::jenkins::hashlittle
// @assumes mix/final_mix replaced by uninterpreted functions (Ackermann table)
jl2_group!(c09_jl2_len_061_072, 61, 72);
jl2_group!(c09_jl2_len_073_084, 73, 84);
jl2_group!(c09_jl2_len_085_096, 85, 96);
jl2_group!(c09_jl2_len_097_108, 97, 108);
jl2_group!(c09_jl2_len_109_120, 109, 120);
jl2_group!(c09_jl2_len_121_132, 121, 132);
jl1_group!(c09_jl1_len_061_072, 61, 72);
jl1_group!(c09_jl1_len_073_084, 73, 84);
jl1_group!(c09_jl1_len_085_096, 85, 96);
jl1_group!(c09_jl1_len_097_108, 97, 108);
jl1_group!(c09_jl1_len_109_120, 109, 120);
jl1_group!(c09_jl1_len_121_132, 121, 132);
// @end

// Jenkins96::hash = hashlittle2 with both seeds 0; hash64 = pc<<32 | pb, hash32 = pc.
// @harness prop=C09 tier=quick timeout=600 role=jenkins96-glue
// @bounds message length 0..=25 symbolic, bytes symbolic
// @encodes cascette_crypto::jenkins::Jenkins96::hash
// @assumes mix/final_mix uninterpreted
// @catches pc/pb swapped in hash64, non-zero seeds, hash32 taken from pb
#[kani::proof]
#[kani::unwind(30)]
#[kani::stub(cascette_crypto::jenkins::mix, uf_mix)]
#[kani::stub(cascette_crypto::jenkins::final_mix, uf_final)]
fn c09_jenkins96_glue_le25() {
    let buf: [u8; 25] = kani::any();
    let len: usize = kani::any();
    kani::assume(len <= 25);
    let j = Jenkins96::hash(&buf[..len]);
    let (rc, rb) = spec_hashlittle2(&buf[..len], 0, 0, uf_mix_fn, uf_fin_fn);
    assert!(j.hash32 == rc, "Jenkins96.hash32 != pc");
    assert!(j.hash64 == ((rc as u64) << 32 | rb as u64), "Jenkins96.hash64 != pc<<32|pb");
    kani::cover!(len == 25, "max length");
    kani::cover!(len == 0, "empty");
}

// ---- (c) monolithic differentials, no stubs (thorough) ----------------------------------------
macro_rules! jl_mono {
    ($name:ident, $len:expr) => {
        #[kani::proof]
        #[kani::unwind(40)]
        fn $name() {
            let buf: [u8; $len] = kani::any();
            let pc0: u32 = kani::any();
            let pb0: u32 = kani::any();
            let (mut pc, mut pb) = (pc0, pb0);
            hashlittle2(&buf[..], &mut pc, &mut pb);
            let (rc, rb) = spec_hashlittle2(&buf[..], pc0, pb0, spec_mix, spec_final);
            assert!(pc == rc && pb == rb, "hashlittle2 differs from lookup3 (monolithic)");
            let h = hashlittle(&buf[..], pc0);
            assert!(h == spec_hashlittle(&buf[..], pc0, spec_mix, spec_final), "hashlittle differs (monolithic)");
        }
    };
}
// @family prop=C09 tier=thorough timeout=1800 role=jenkins-monolithic
// @bounds fixed message length (see name), every byte and seed symbolic, real kernels on both sides
// @encodes cascette_crypto::jenkins::hashlittle2, cascette_crypto::jenkins::hashlittle, cascette_crypto::jenkins::mix, cascette_crypto::jenkins::final_mix
jl_mono!(c09_jl_mono_len_01, 1);
jl_mono!(c09_jl_mono_len_05, 5);
jl_mono!(c09_jl_mono_len_12, 12);
jl_mono!(c09_jl_mono_len_13, 13);
jl_mono!(c09_jl_mono_len_22, 22);
jl_mono!(c09_jl_mono_len_25, 25);
// @end
