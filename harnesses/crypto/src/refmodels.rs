// Reference models, written from the published algorithms, structurally independent of the
// implementation (loops instead of unrolled match arms, arrays instead of named words).

/// lookup3.c `mix(a,b,c)` (Bob Jenkins, May 2006, public domain).
pub fn spec_mix(s: [u32; 3]) -> [u32; 3] {
    let [mut a, mut b, mut c] = s;
    a = a.wrapping_sub(c); a ^= c.rotate_left(4);  c = c.wrapping_add(b);
    b = b.wrapping_sub(a); b ^= a.rotate_left(6);  a = a.wrapping_add(c);
    c = c.wrapping_sub(b); c ^= b.rotate_left(8);  b = b.wrapping_add(a);
    a = a.wrapping_sub(c); a ^= c.rotate_left(16); c = c.wrapping_add(b);
    b = b.wrapping_sub(a); b ^= a.rotate_left(19); a = a.wrapping_add(c);
    c = c.wrapping_sub(b); c ^= b.rotate_left(4);  b = b.wrapping_add(a);
    [a, b, c]
}

/// lookup3.c `final(a,b,c)`.
pub fn spec_final(s: [u32; 3]) -> [u32; 3] {
    let [mut a, mut b, mut c] = s;
    c ^= b; c = c.wrapping_sub(b.rotate_left(14));
    a ^= c; a = a.wrapping_sub(c.rotate_left(11));
    b ^= a; b = b.wrapping_sub(a.rotate_left(25));
    c ^= b; c = c.wrapping_sub(b.rotate_left(16));
    a ^= c; a = a.wrapping_sub(c.rotate_left(4));
    b ^= a; b = b.wrapping_sub(a.rotate_left(14));
    c ^= b; c = c.wrapping_sub(b.rotate_left(24));
    [a, b, c]
}

/// lookup3.c `hashlittle2` (byte-at-a-time variant, valid on every platform), parameterised by
/// the two mixing functions so that the same skeleton can be run over UF tables.
/// Returns (pc, pb).
pub fn spec_hashlittle2(
    key: &[u8],
    pc: u32,
    pb: u32,
    mix: fn([u32; 3]) -> [u32; 3],
    fin: fn([u32; 3]) -> [u32; 3],
) -> (u32, u32) {
    let init = 0xdead_beef_u32.wrapping_add(key.len() as u32).wrapping_add(pc);
    let mut w = [init, init, init.wrapping_add(pb)];
    let mut off = 0usize;
    let mut rem = key.len();
    while rem > 12 {
        w = add_words(w, &key[off..], 12);
        w = mix(w);
        off += 12;
        rem -= 12;
    }
    if rem == 0 {
        // only reachable for the empty key: "case 0: return" (no final)
        return (w[2], w[1]);
    }
    w = add_words(w, &key[off..], rem);
    w = fin(w);
    (w[2], w[1])
}

/// `a += k[0]; a += k[1]<<8; ... c += k[11]<<24` restricted to the first `n` (<= 12) bytes.  The
/// byte contributions to one word occupy disjoint bit ranges, so their sum is their OR and the
/// word is added once (this keeps the SAT problem free of adder re-association).
fn add_words(w: [u32; 3], k: &[u8], n: usize) -> [u32; 3] {
    let mut t = [0u32; 3];
    let mut j = 0;
    while j < 12 {
        if j < n {
            t[j / 4] |= (k[j] as u32) << (8 * (j % 4));
        }
        j += 1;
    }
    [
        w[0].wrapping_add(t[0]),
        w[1].wrapping_add(t[1]),
        w[2].wrapping_add(t[2]),
    ]
}

/// lookup3.c `hashlittle`: same walk, single seed, returns c.
pub fn spec_hashlittle(
    key: &[u8],
    initval: u32,
    mix: fn([u32; 3]) -> [u32; 3],
    fin: fn([u32; 3]) -> [u32; 3],
) -> u32 {
    spec_hashlittle2(key, initval, 0, mix, fin).0
}
