// Reference models, written from the published algorithms, structurally independent of the
// implementation (loops instead of unrolled match arms, arrays instead of named words).

/// lookup3.c `mix(a,b,c)` (Bob Jenkins, May 2006, public domain).
pub fn spec_mix(s: [u32; 3]) -> [u32; 3] {
    let [mut a, mut b, mut c] = s;
    a = a.wrapping_sub(c); a ^= c.rotate_left(4);  c = c.wrapping_add(b);
    b = b.wrapping_sub(a); b ^= a.rotate_left(6);  a = a.wrapping_add(c);
    c = c.wrapping_sub(b); c ^= b.rotate_left(8);  b = b.wrapping_add(a);
    a = a.wrapping_sub(c); a ^= c.rotate_left(16); c = c.wrapping_add(b);
    b = b.wrapping_sub(a); b ^= a.rotate_left(19); a = a.wrapping_add(c);
    c = c.wrapping_sub(b); c ^= b.rotate_left(4);  b = b.wrapping_add(a);
    [a, b, c]
}

/// lookup3.c `final(a,b,c)`.
pub fn spec_final(s: [u32; 3]) -> [u32; 3] {
    let [mut a, mut b, mut c] = s;
    c ^= b; c = c.wrapping_sub(b.rotate_left(14));
    a ^= c; a = a.wrapping_sub(c.rotate_left(11));
    b ^= a; b = b.wrapping_sub(a.rotate_left(25));
    c ^= b; c = c.wrapping_sub(b.rotate_left(16));
    a ^= c; a = a.wrapping_sub(c.rotate_left(4));
    b ^= a; b = b.wrapping_sub(a.rotate_left(14));
    c ^= b; c = c.wrapping_sub(b.rotate_left(24));
    [a, b, c]
}

/// lookup3.c `hashlittle2` (byte-at-a-time variant, valid on every platform), parameterised by
/// the two mixing functions so that the same skeleton can be run over UF tables.
/// Returns (pc, pb).
pub fn spec_hashlittle2(
    key: &[u8],
    pc: u32,
    pb: u32,
    mix: fn([u32; 3]) -> [u32; 3],
    fin: fn([u32; 3]) -> [u32; 3],
) -> (u32, u32) {
    let init = 0xdead_beef_u32.wrapping_add(key.len() as u32).wrapping_add(pc);
    let mut w = [init, init, init.wrapping_add(pb)];
    let mut off = 0usize;
    let mut rem = key.len();
    while rem > 12 {
        w = add_words(w, &key[off..], 12);
        w = mix(w);
        off += 12;
        rem -= 12;
    }
    if rem == 0 {
        // only reachable for the empty key: "case 0: return" (no final)
        return (w[2], w[1]);
    }
    w = add_words(w, &key[off..], rem);
    w = fin(w);
    (w[2], w[1])
}

/// `a += k[0]; a += k[1]<<8; ... c += k[11]<<24` restricted to the first `n` (<= 12) bytes.  The
/// byte contributions to one word occupy disjoint bit ranges, so their sum is their OR and the
/// word is added once (this keeps the SAT problem free of adder re-association).
fn add_words(w: [u32; 3], k: &[u8], n: usize) -> [u32; 3] {
    let mut t = [0u32; 3];
    let mut j = 0;
    while j < 12 {
        if j < n {
            t[j / 4] |= (k[j] as u32) << (8 * (j % 4));
        }
        j += 1;
    }
    [
        w[0].wrapping_add(t[0]),
        w[1].wrapping_add(t[1]),
        w[2].wrapping_add(t[2]),
    ]
}

/// lookup3.c `hashlittle`: same walk, single seed, returns c.
pub fn spec_hashlittle(
    key: &[u8],
    initval: u32,
    mix: fn([u32; 3]) -> [u32; 3],
    fin: fn([u32; 3]) -> [u32; 3],
) -> u32 {
    spec_hashlittle2(key, initval, 0, mix, fin).0
}

// ---------------------------------------------------------------------------------------------
// Salsa20/20 (D. J. Bernstein, "Salsa20 specification"), 16-byte key ("tau") variant.
// ---------------------------------------------------------------------------------------------

/// quarterround(y0,y1,y2,y3) of the specification.
pub fn spec_quarterround(y: [u32; 4]) -> [u32; 4] {
    let z1 = y[1] ^ y[0].wrapping_add(y[3]).rotate_left(7);
    let z2 = y[2] ^ z1.wrapping_add(y[0]).rotate_left(9);
    let z3 = y[3] ^ z2.wrapping_add(z1).rotate_left(13);
    let z0 = y[0] ^ z3.wrapping_add(z2).rotate_left(18);
    [z0, z1, z2, z3]
}

/// rowround / columnround index quadruples of the specification, in the order
/// columnround then rowround (= one doubleround).
pub const SPEC_DOUBLEROUND: [[usize; 4]; 8] = [
    [0, 4, 8, 12],
    [5, 9, 13, 1],
    [10, 14, 2, 6],
    [15, 3, 7, 11],
    [0, 1, 2, 3],
    [5, 6, 7, 4],
    [10, 11, 8, 9],
    [15, 12, 13, 14],
];

/// Salsa20(x) = x + doubleround^10(x), serialised little-endian.
pub fn spec_salsa20_core(x: [u32; 16], qr: fn([u32; 4]) -> [u32; 4]) -> [u8; 64] {
    let mut w = x;
    let mut r = 0;
    while r < 10 {
        let mut q = 0;
        while q < 8 {
            let ix = SPEC_DOUBLEROUND[q];
            let z = qr([w[ix[0]], w[ix[1]], w[ix[2]], w[ix[3]]]);
            w[ix[0]] = z[0];
            w[ix[1]] = z[1];
            w[ix[2]] = z[2];
            w[ix[3]] = z[3];
            q += 1;
        }
        r += 1;
    }
    let mut out = [0u8; 64];
    let mut i = 0;
    while i < 16 {
        let v = w[i].wrapping_add(x[i]);
        out[4 * i] = v as u8;
        out[4 * i + 1] = (v >> 8) as u8;
        out[4 * i + 2] = (v >> 16) as u8;
        out[4 * i + 3] = (v >> 24) as u8;
        i += 1;
    }
    out
}

/// Input block of the CASC variant: tau constants, 16-byte key twice, 8-byte nonce = IV
/// (zero-extended from 4 bytes) with the 32-bit block index XORed little-endian into its first
/// four bytes, 64-bit block counter.
pub fn spec_casc_salsa_state(key: &[u8; 16], iv: &[u8], block_index: u32, counter: u64) -> [u32; 16] {
    let le = |b: &[u8], o: usize| -> u32 {
        (b[o] as u32) | (b[o + 1] as u32) << 8 | (b[o + 2] as u32) << 16 | (b[o + 3] as u32) << 24
    };
    let mut nonce = [0u8; 8];
    let mut i = 0;
    while i < 8 {
        if i < iv.len() {
            nonce[i] = iv[i];
        }
        i += 1;
    }
    let n0 = le(&nonce, 0) ^ block_index;
    let n1 = le(&nonce, 4);
    let k = [le(key, 0), le(key, 4), le(key, 8), le(key, 12)];
    // sigma/tau for 16-byte keys: "expand 16-byte k"
    [
        0x6170_7865, k[0], k[1], k[2], k[3], 0x3120_646e, n0, n1, counter as u32, (counter >> 32) as u32,
        0x7962_2d36, k[0], k[1], k[2], k[3], 0x6b20_6574,
    ]
}

// ---------------------------------------------------------------------------------------------
// RC4 (as published 1994): KSA + PRGA.
// ---------------------------------------------------------------------------------------------
pub struct SpecRc4 {
    pub s: [u8; 256],
    pub i: usize,
    pub j: usize,
}
impl SpecRc4 {
    pub fn new(key: &[u8]) -> Self {
        let mut s = [0u8; 256];
        let mut i = 0;
        while i < 256 {
            s[i] = i as u8;
            i += 1;
        }
        let mut j = 0usize;
        let mut i = 0;
        while i < 256 {
            j = (j + s[i] as usize + key[i % key.len()] as usize) % 256;
            let t = s[i];
            s[i] = s[j];
            s[j] = t;
            i += 1;
        }
        SpecRc4 { s, i: 0, j: 0 }
    }
    pub fn next(&mut self) -> u8 {
        self.i = (self.i + 1) % 256;
        self.j = (self.j + self.s[self.i] as usize) % 256;
        let t = self.s[self.i];
        self.s[self.i] = self.s[self.j];
        self.s[self.j] = t;
        self.s[(self.s[self.i] as usize + self.s[self.j] as usize) % 256]
    }
}
