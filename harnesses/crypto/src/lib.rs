// Kani harnesses for cascette-crypto (property C09 and the pieces C01/C07 lean on).
#![allow(dead_code, unused_imports, static_mut_refs)]

#[cfg(kani)]
#[path = "../../common/uf.rs"]
pub mod uf;

#[cfg(kani)]
pub mod refmodels;
#[cfg(kani)]
mod c09_jenkins;
#[cfg(kani)]
mod c09_salsa_arc4;
#[cfg(kani)]
mod c09_md5;
