// Reachability witnesses (kani::cover!) for all C18 harnesses.  They live in a crate-root module
// whose name sorts after every other function path on purpose: Kani prints its concrete-playback
// tests sorted by property id and the driver replays the first one, which has to belong to a failed
// assertion, not to a satisfied witness.  One monomorphic copy per witness number K, so every
// witness of a harness is its own cover property.  The description of each witness is the third
// argument of the `witness!` call in the harness.
#[inline(never)]
pub fn w<const K: u32>(cond: bool) {
    kani::cover!(cond, "reachability witness (described at the witness! call of the harness)");
}

#[macro_export]
macro_rules! witness {
    ($k:literal, $cond:expr, $msg:literal) => {
        $crate::zz_witness::w::<$k>($cond)
    };
}
