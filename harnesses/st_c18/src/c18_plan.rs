// C18 part 2 — `plan_archive_merge`: the merge plan never targets bytes a destination already uses,
// never lets two moves overlap, never fills a segment beyond its size.
use crate::stubs::*;
use cascette_client_storage::storage::compaction::{CompactionPlan, MoveItem, plan_archive_merge};
use cascette_client_storage::storage::{SEGMENT_HEADER_SIZE, SegmentHeader, SegmentInfo, SegmentState};

/// Segment population: state and write position symbolic.  The header is the all-zero bit pattern of
/// `SegmentHeader` (plain integers/byte arrays, so a valid value); the planner never reads it.
/// `SegmentHeader::zeroed()` itself runs 16- and 26-trip checksum loops which would force the global
/// unwind bound to 27 and with it 27x27 unrollings of the planner's insertion sort (measured: > 10 min).
fn population<const N: usize>(frozen: &[bool; N], wp: &[u64; N]) -> [SegmentInfo; N] {
    std::array::from_fn(|i| {
        let hdr: SegmentHeader = unsafe { std::mem::zeroed() };
        let mut s = SegmentInfo::new(i as u16, hdr);
        s.state = if frozen[i] { SegmentState::Frozen } else { SegmentState::Thawed };
        s.write_position = wp[i];
        s
    })
}

/// Replacement for the private `alloc::slice::stable_sort` (what `sort_by_key` calls): plain stable
/// insertion sort.  A stable sort's result is uniquely determined by the input and the ordering, so
/// this is an exact model, not an abstraction.  Needed because the planner sorts a Vec whose length is
/// data dependent: CBMC cannot fold `len <= 20` and symbolically executes std's driftsort/quicksort
/// recursion (measured: symex not finished after 10 min for 3 segments).
pub fn stable_sort_model<T, F>(v: &mut [T], mut is_less: F)
where
    F: FnMut(&T, &T) -> bool,
{
    let n = v.len();
    let mut i = 1;
    while i < n {
        let mut j = i;
        while j > 0 && is_less(&v[j], &v[j - 1]) {
            v.swap(j, j - 1);
            j -= 1;
        }
        i += 1;
    }
}

// ---- exact models of four std routines --------------------------------------------------------
// The planner fills Vecs created inside the function by *conditional* pushes, so their len is a
// symbolic term.  Measured on 2-3 segments with the real std code: (a) `sort_by_key` enters driftsort /
// quicksort recursion (symex > 10 min), (b) `push` drags in grow_amortized -> realloc/memcpy of
// symbolic size (unbounded arrays, solver > 30 GB), (c) `<[u16]>::contains` unrolls a 32-lane chunked
// fold (same effect).  The four replacements below are behaviourally identical to the std routines
// (stable sort and `contains` are functions of their input; a Vec cannot observe its capacity) and
// are inactive in the native replay, which runs the real std code.
/// `Vec::push` without the growth path (capacity comes from `vec_new_cap8`; exhaustion is an
/// assertion).  With a symbolic `len` CBMC cannot decide `len == cap`, so every real `push` drags in
/// `grow_amortized` -> `realloc`/`memcpy` of symbolic size (unbounded arrays in the array theory).
pub fn push_no_grow<T, A: std::alloc::Allocator>(v: &mut Vec<T, A>, value: T) {
    let len = v.len();
    assert!(len < v.capacity(), "harness Vec capacity (8) exhausted");
    unsafe {
        std::ptr::write(v.as_mut_ptr().add(len), value);
        v.set_len(len + 1);
    }
}

/// `<[u16]>::contains` as a plain loop (std's version is a 32-lane chunked fold whose dead chunk loop
/// still gets unrolled on a symbolic-length slice).
pub fn contains_model<T: PartialEq>(s: &[T], x: &T) -> bool {
    let mut k = 0;
    while k < s.len() {
        if s[k] == *x {
            return true;
        }
        k += 1;
    }
    false
}

/// `Vec::new()` -> `Vec::with_capacity(8)`: same contents and behaviour, but capacity and buffer
/// pointer are concrete from the start instead of depending on which conditional pushes happened.
pub fn vec_new_cap8<T>() -> Vec<T> {
    Vec::with_capacity(8)
}

/// Integer statement of "frozen, non-empty, utilisation below the threshold": `t` = threshold *
/// segment_size, exact because both are powers of two / dyadic and < 2^53.
fn eligible(frozen: bool, wp: u64, t: u64) -> bool {
    frozen && wp > 0 && wp < t
}

/// Checks that hold for every plan (everything except "the destination's own bytes are respected",
/// which has its own harnesses below).  `a`, `b` are symbolic move indices ("for all moves").
fn check_plan<const N: usize>(plan: &CompactionPlan, frozen: &[bool; N], wp: &[u64; N], size: u64, t: Option<u64>, a: usize, b: usize) {
    let n = plan.moves.len();
    assert!(n < N, "more moves than segments - 1");
    let mut sum = 0u64;
    let mut k = 0;
    while k < N {
        if k < n {
            sum = sum.wrapping_add(plan.moves[k].length);
        }
        k += 1;
    }
    assert!(plan.total_bytes == sum, "total_bytes is not the sum of the move lengths");
    assert!(plan.source_segments.len() <= n && plan.target_segments.len() <= n, "bookkeeping lists longer than the move list");
    if a < n {
        let m = &plan.moves[a];
        let (s, d) = (m.source_segment as usize, m.dest_segment as usize);
        assert!(s < N && d < N, "move names a segment outside the population");
        assert!(frozen[s] && wp[s] > 0, "source is not a frozen non-empty segment");
        assert!(frozen[d] && wp[d] > 0, "destination is not a frozen non-empty segment");
        if let Some(t) = t {
            assert!(wp[s] < t, "source is not below the utilisation threshold");
            assert!(wp[d] < t, "destination is not below the utilisation threshold");
        }
        assert!(s != d, "segment moved into itself");
        assert!(m.source_offset == 0 && m.length == wp[s], "move does not carry exactly the source's used bytes");
        assert!(m.dest_offset as u128 + m.length as u128 <= size as u128, "move runs beyond segment_size");
        // bookkeeping lists name the segments of every move
        let (mut in_src, mut in_dst) = (false, false);
        let mut k = 0;
        while k < N {
            if k < plan.source_segments.len() && plan.source_segments[k] == m.source_segment {
                in_src = true;
            }
            if k < plan.target_segments.len() && plan.target_segments[k] == m.dest_segment {
                in_dst = true;
            }
            k += 1;
        }
        assert!(in_src, "source_segments misses the source of a move");
        assert!(in_dst, "target_segments misses the destination of a move");
        if b < n && b != a {
            let o = &plan.moves[b];
            assert!(o.source_segment != m.source_segment, "segment is the source of two moves");
            if o.dest_segment == m.dest_segment {
                assert!(
                    m.dest_offset as u128 + m.length as u128 <= o.dest_offset as u128
                        || o.dest_offset as u128 + o.length as u128 <= m.dest_offset as u128,
                    "two moves into one destination overlap"
                );
            }
        }
    }
}

/// Observation only (NOT part of the property statement, asserted by no registered harness): "a
/// segment that was emptied as a source is not used as a destination".
fn check_no_reuse(plan: &CompactionPlan, a: usize, b: usize) -> bool {
    let n = plan.moves.len();
    !(a < n && b < n) || plan.moves[b].dest_segment != plan.moves[a].source_segment
}

/// "Data is never directed onto bytes the destination segment still uses", for EVERY destination:
/// move `a` (symbolic) must start at or after the destination's own write_position, unless an
/// earlier move of the plan has already moved that segment's data out entirely (then its old bytes
/// are no longer live at that point of the plan).  Bytes placed by earlier moves into the same
/// destination are covered by the pairwise-disjointness check in `check_plan`.
fn check_live_bytes<const N: usize>(plan: &CompactionPlan, wp: &[u64; N], a: usize) {
    let n = plan.moves.len();
    if a < n {
        let m = &plan.moves[a];
        let d = m.dest_segment as usize;
        assert!(d < N, "move names a segment outside the population");
        let mut emptied = false;
        let mut k = 0;
        while k < N {
            if k < a && k < n && plan.moves[k].source_segment == m.dest_segment {
                emptied = true;
            }
            k += 1;
        }
        if !emptied {
            assert!(m.dest_offset >= wp[d], "move targets bytes the destination segment still uses (dest_offset < destination's write_position)");
        }
    }
}

/// "A segment is never filled beyond its size", for EVERY segment `d` (symbolic): the bytes it still
/// holds when the first move into it happens (its write_position, or 0 if the plan emptied it
/// before) plus everything the plan moves into it fit into segment_size.
fn check_no_overfill<const N: usize>(plan: &CompactionPlan, wp: &[u64; N], size: u64, d: usize) {
    let n = plan.moves.len();
    if d < N {
        let mut emptied = false;
        let mut own: Option<u128> = None;
        let mut incoming = 0u128;
        let mut k = 0;
        while k < N {
            if k < n {
                if plan.moves[k].dest_segment as usize == d {
                    if own.is_none() {
                        own = Some(if emptied { 0 } else { wp[d] as u128 });
                    }
                    incoming += plan.moves[k].length as u128;
                }
                if plan.moves[k].source_segment as usize == d {
                    emptied = true;
                }
            }
            k += 1;
        }
        if let Some(own) = own {
            assert!(own + incoming <= size as u128, "destination's own live bytes plus the bytes moved into it exceed segment_size");
        }
    }
}

fn count_eligible<const N: usize>(frozen: &[bool; N], wp: &[u64; N], t: u64) -> usize {
    let mut elig = 0;
    let mut k = 0;
    while k < N {
        if eligible(frozen[k], wp[k], t) {
            elig += 1;
        }
        k += 1;
    }
    elig
}

macro_rules! plan_harness {
    ($name:ident, $uw:literal, $body:block) => {
        #[kani::proof]
        #[kani::unwind($uw)]
        #[kani::stub(alloc::slice::stable_sort, crate::c18_plan::stable_sort_model)]
        #[kani::stub(std::vec::Vec::new, crate::c18_plan::vec_new_cap8)]
        #[kani::stub(std::vec::Vec::push, crate::c18_plan::push_no_grow)]
        #[kani::stub(<[u16]>::contains, crate::c18_plan::contains_model)]
        #[kani::stub(tracing_core::callsite::DefaultCallsite::interest, crate::tracing_stubs::interest_never)]
        #[kani::stub(tracing::__macro_support::__is_enabled, crate::tracing_stubs::is_enabled_false)]
        #[kani::stub(tracing_core::event::Event::dispatch, crate::tracing_stubs::dispatch_nop)]
        fn $name() $body
    };
}

// ---- all clauses of the statement, arbitrary write positions ---------------------------------------
macro_rules! plan_general {
    ($name:ident, $n:expr, $uw:literal, $size:expr, $thr:expr, $t:expr) => {
        plan_harness!($name, $uw, {
            const N: usize = $n;
            const SIZE: u64 = $size;
            const T: u64 = $t;
            let frozen: [bool; N] = kani::any();
            let wp: [u64; N] = kani::any();
            let a: usize = kani::any();
            let b: usize = kani::any();
            let segs = population::<N>(&frozen, &wp);
            let plan = plan_archive_merge(&segs, $thr, SIZE);
            check_plan::<N>(&plan, &frozen, &wp, SIZE, Some(T), a, b);
            check_live_bytes::<N>(&plan, &wp, a);
            check_no_overfill::<N>(&plan, &wp, SIZE, b);
            let elig = count_eligible::<N>(&frozen, &wp, T);
            if elig < 2 {
                assert!(plan.moves.is_empty(), "fewer than two mergeable segments must give an empty plan");
            }
            kani::cover!(plan.moves.len() == N - 1, "every other segment merged");
            kani::cover!($thr <= 0.5 || (plan.moves.len() == 1 && elig == N), "a source did not fit (reachable only above threshold 0.5)");
            kani::cover!(N < 5 || plan.target_segments.len() == 2, "a second destination receives a move (needs 5 segments)");
            std::mem::forget(plan);
            std::mem::forget(segs);
        });
    };
}

// @family prop=C18 tier=quick timeout=600 mem=16 role=merge-plan-general
// @bounds N segments (n<N> in the name), state symbolic, write_position symbolic over all u64, segment_size and utilization_threshold concrete per harness (s10/s30/s40 = 2^10/2^30/2^40, t25/t50/t100 = 0.25/0.5/1.0); move indices a,b symbolic (= for all moves / all pairs of moves)
// @encodes cascette_client_storage::storage::compaction::plan_archive_merge
// @assumes tracing neutralised (3 stubs); exact std models: alloc::slice::stable_sort -> insertion sort, Vec::new -> with_capacity(8), Vec::push -> push without growth (capacity asserted), <[u16]>::contains -> loop; segment headers = all-zero SegmentHeader (the planner never reads the header); oracle threshold T = threshold*segment_size as an integer (exact: dyadic values below 2^53)
// @catches move beyond segment_size, overlapping moves into one destination, thawed/empty/high-utilisation segment used as source or destination, source moved twice, data directed onto bytes a destination still uses (any destination, first included), destination overfilled counting its own bytes, wrong total_bytes, wrong length/offset of a move, stale destination cursor after switching destination, bookkeeping lists out of step with the moves
plan_general!(c18_plan_general_n3_s10_t25, 3, 5, 1u64 << 10, 0.25, 1u64 << 8);
plan_general!(c18_plan_general_n3_s10_t100, 3, 5, 1u64 << 10, 1.0, 1u64 << 10);
plan_general!(c18_plan_general_n3_s30_t50, 3, 5, 1u64 << 30, 0.5, 1u64 << 29);
plan_general!(c18_plan_general_n3_s30_t100, 3, 5, 1u64 << 30, 1.0, 1u64 << 30);
plan_general!(c18_plan_general_n3_s40_t25, 3, 5, 1u64 << 40, 0.25, 1u64 << 38);
plan_general!(c18_plan_general_n3_s40_t50, 3, 5, 1u64 << 40, 0.5, 1u64 << 39);
// @end

// ---- the destination's own bytes (regression harnesses for the fixed defect) ----------------------
// Before /repo commit bcf3404 the first destination's cursor started at 0: the plan overwrote the
// destination's live bytes and could overfill it.  Populations satisfy the representation invariant
// of real segments (SegmentInfo::new starts the write position behind the 480-byte header, the
// allocator never moves it beyond the segment), so a counterexample is a population the allocator
// can produce.
macro_rules! plan_live_bytes {
    ($name:ident, $n:expr, $uw:literal, $size:expr, $thr:expr) => {
        plan_harness!($name, $uw, {
            const N: usize = $n;
            const SIZE: u64 = $size;
            let frozen: [bool; N] = kani::any();
            let wp: [u64; N] = kani::any();
            let a: usize = kani::any();
            let mut k = 0;
            while k < N {
                kani::assume(wp[k] >= SEGMENT_HEADER_SIZE as u64 && wp[k] <= SIZE);
                k += 1;
            }
            let segs = population::<N>(&frozen, &wp);
            let plan = plan_archive_merge(&segs, $thr, SIZE);
            check_live_bytes::<N>(&plan, &wp, a);
            kani::cover!(a < plan.moves.len(), "plan has a move");
            std::mem::forget(plan);
            std::mem::forget(segs);
        });
    };
}
macro_rules! plan_overfill {
    ($name:ident, $n:expr, $uw:literal, $size:expr, $thr:expr) => {
        plan_harness!($name, $uw, {
            const N: usize = $n;
            const SIZE: u64 = $size;
            let frozen: [bool; N] = kani::any();
            let wp: [u64; N] = kani::any();
            let d: usize = kani::any();
            kani::assume(d < N);
            let mut k = 0;
            while k < N {
                kani::assume(wp[k] >= SEGMENT_HEADER_SIZE as u64 && wp[k] <= SIZE);
                k += 1;
            }
            let segs = population::<N>(&frozen, &wp);
            let plan = plan_archive_merge(&segs, $thr, SIZE);
            let n = plan.moves.len();
            assert!(n < N, "more moves than segments - 1");
            check_no_overfill::<N>(&plan, &wp, SIZE, d);
            let mut incoming = 0u128;
            let mut k = 0;
            while k < N {
                if k < n && plan.moves[k].dest_segment as usize == d {
                    incoming += plan.moves[k].length as u128;
                }
                k += 1;
            }
            kani::cover!(incoming > 0, "segment receives data");
            std::mem::forget(plan);
            std::mem::forget(segs);
        });
    };
}

// @family prop=C18 tier=quick timeout=600 mem=16 role=merge-plan-live-bytes
// @bounds N segments (n<N>), state symbolic, write_position symbolic in [480 (segment header), segment_size]; segment_size / threshold concrete per harness (s30 = 2^30 = the real SEGMENT_SIZE, t50 = 0.5, t100 = 1.0); move index symbolic
// @encodes cascette_client_storage::storage::compaction::plan_archive_merge
// @assumes same stubs/models as merge-plan-general; write positions restricted to what SegmentInfo::new / SegmentAllocator::allocate can produce (>= SEGMENT_HEADER_SIZE, <= segment_size)
// @catches destination cursor not starting at the destination's write position (first destination starting at 0: data directed onto live bytes), cursor reset to 0 when switching destination
plan_live_bytes!(c18_plan_live_bytes_n2_s30_t50, 2, 4, 1u64 << 30, 0.5);
plan_live_bytes!(c18_plan_live_bytes_n3_s30_t100, 3, 5, 1u64 << 30, 1.0);
// @end
// @family prop=C18 tier=quick timeout=600 mem=16 role=merge-plan-overfill
// @bounds N segments (n<N>), state symbolic, write_position symbolic in [480, segment_size]; segment_size 2^30, threshold 0.5 / 1.0; destination index symbolic
// @encodes cascette_client_storage::storage::compaction::plan_archive_merge
// @assumes same stubs/models as merge-plan-general; write positions >= SEGMENT_HEADER_SIZE and <= segment_size
// @catches capacity check that ignores what the destination already holds (segment filled beyond its size)
plan_overfill!(c18_plan_overfill_n2_s30_t100, 2, 4, 1u64 << 30, 1.0);
plan_overfill!(c18_plan_overfill_n3_s30_t50, 3, 5, 1u64 << 30, 0.5);
// @end

// @family prop=C18 tier=quick timeout=600 mem=16 role=merge-plan-general-n4
// @bounds 4 segments, state symbolic, write_position symbolic over all u64, segment_size / threshold concrete per harness as in the quick family; move indices symbolic
// @encodes cascette_client_storage::storage::compaction::plan_archive_merge
// @assumes same stubs/models as the quick merge-plan-general family
// @catches as the quick family, plus errors that need three moves or a destination switch followed by another move
plan_general!(c18_plan_general_n4_s10_t50, 4, 6, 1u64 << 10, 0.5, 1u64 << 9);
plan_general!(c18_plan_general_n4_s30_t100, 4, 6, 1u64 << 30, 1.0, 1u64 << 30);
plan_general!(c18_plan_general_n4_s40_t25, 4, 6, 1u64 << 40, 0.25, 1u64 << 38);
// @end

// @family prop=C18 tier=quick timeout=900 mem=16 role=merge-plan-general-n5
// @bounds 5 segments (smallest population in which a second destination receives a move), state symbolic, write_position symbolic over all u64, segment_size / threshold concrete per harness; move indices symbolic
// @encodes cascette_client_storage::storage::compaction::plan_archive_merge
// @assumes same stubs/models as merge-plan-general; a segment the plan has already emptied counts as having no live bytes when it is reused as a destination
// @catches as merge-plan-general, plus: cursor of a later destination not starting at that destination's write_position (reset to 0 / stale value of the previous destination), later destination overfilled
plan_general!(c18_plan_general_n5_s30_t100, 5, 7, 1u64 << 30, 1.0, 1u64 << 30);
plan_general!(c18_plan_general_n5_s10_t50, 5, 7, 1u64 << 10, 0.5, 1u64 << 9);
// @end

// ---- observation, outside the property statement (NOT registered) ------------------------------------
// A segment emptied as a source can later become a destination: when a source does not fit, the
// destination advances to sources[dest_idx + 1], which an earlier move may already have moved away
// (5 segments before the cursor fix, 4 after it).  The property statement does not forbid this (the
// reused segment's old bytes are no longer live), so no registered check asserts it; the harness is
// kept without its registration annotation for reference.  Fails by design: cargo kani --harness
// c18_plan::c18_plan_source_reuse_n5_s30_t100.
plan_harness!(c18_plan_source_reuse_n5_s30_t100, 7, {
    const N: usize = 5;
    const SIZE: u64 = 1 << 30;
    let frozen: [bool; N] = kani::any();
    let wp: [u64; N] = kani::any();
    let a: usize = kani::any();
    let b: usize = kani::any();
    let mut k = 0;
    while k < N {
        kani::assume(wp[k] >= SEGMENT_HEADER_SIZE as u64 && wp[k] <= SIZE);
        k += 1;
    }
    let segs = population::<N>(&frozen, &wp);
    let plan = plan_archive_merge(&segs, 1.0, SIZE);
    assert!(check_no_reuse(&plan, a, b), "observation: segment emptied as the source of one move is the destination of another move");
    kani::cover!(plan.moves.len() >= 3, "plan with three moves");
    std::mem::forget(plan);
    std::mem::forget(segs);
});

// ---- symbolic segment_size and threshold ---------------------------------------------------------
// @harness prop=C18 tier=quick timeout=900 mem=16 role=merge-plan-symbolic-config
// @bounds 3 segments, state and write_position symbolic, segment_size symbolic in [1, 2^40], utilization_threshold symbolic finite f64 in (0, 1]; move indices symbolic
// @encodes cascette_client_storage::storage::compaction::plan_archive_merge
// @assumes same stubs/models as merge-plan-general; the "below threshold" part of source eligibility is not re-checked here (the only oracle would be the implementation's own f64 expression); threshold <= 1 (documented meaning: a utilisation)
// @catches as merge-plan-general for arbitrary (non power-of-two) sizes and thresholds: f64 rounding letting a move run beyond segment_size or overlap another
plan_harness!(c18_plan_symbolic_config_n3, 5, {
    const N: usize = 3;
    let frozen: [bool; N] = kani::any();
    let wp: [u64; N] = kani::any();
    let a: usize = kani::any();
    let b: usize = kani::any();
    let size: u64 = kani::any();
    let thr: f64 = kani::any();
    kani::assume(size >= 1 && size <= 1 << 40);
    kani::assume(thr > 0.0 && thr <= 1.0);
    let segs = population::<N>(&frozen, &wp);
    let plan = plan_archive_merge(&segs, thr, size);
    check_plan::<N>(&plan, &frozen, &wp, size, None, a, b);
    check_live_bytes::<N>(&plan, &wp, a);
    check_no_overfill::<N>(&plan, &wp, size, b);
    kani::cover!(plan.moves.len() == N - 1 && size % 1000 == 7, "two moves with a non power-of-two size");
    std::mem::forget(plan);
    std::mem::forget(segs);
});

// @harness prop=C18 tier=thorough timeout=3000 mem=24 role=merge-plan-symbolic-config-n5
// @bounds 5 segments, state and write_position symbolic, segment_size symbolic in [1, 2^40], utilization_threshold symbolic finite f64 in (0, 1]; move and segment indices symbolic
// @encodes cascette_client_storage::storage::compaction::plan_archive_merge
// @assumes as merge-plan-symbolic-config
// @catches as merge-plan-general-n5 for arbitrary sizes and thresholds
plan_harness!(c18_plan_symbolic_config_n5, 7, {
    const N: usize = 5;
    let frozen: [bool; N] = kani::any();
    let wp: [u64; N] = kani::any();
    let a: usize = kani::any();
    let b: usize = kani::any();
    let size: u64 = kani::any();
    let thr: f64 = kani::any();
    kani::assume(size >= 1 && size <= 1 << 40);
    kani::assume(thr > 0.0 && thr <= 1.0);
    let segs = population::<N>(&frozen, &wp);
    let plan = plan_archive_merge(&segs, thr, size);
    check_plan::<N>(&plan, &frozen, &wp, size, None, a, b);
    check_live_bytes::<N>(&plan, &wp, a);
    check_no_overfill::<N>(&plan, &wp, size, b);
    kani::cover!(plan.moves.len() == 3 && plan.target_segments.len() == 2, "two destinations in one plan");
    std::mem::forget(plan);
    std::mem::forget(segs);
});
