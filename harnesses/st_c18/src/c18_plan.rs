// C18 part 2 — `plan_archive_merge`: the merge plan never targets bytes a destination already uses,
// never lets two moves overlap, never fills a segment beyond its size.
use crate::stubs::*;
use cascette_client_storage::storage::compaction::{CompactionPlan, MoveItem, plan_archive_merge};
use cascette_client_storage::storage::{SEGMENT_HEADER_SIZE, SegmentHeader, SegmentInfo, SegmentState};

/// Segment population: state and write position symbolic.  The header is the all-zero bit pattern of
/// `SegmentHeader` (plain integers/byte arrays, so a valid value); the planner never reads it.
/// `SegmentHeader::zeroed()` itself runs 16- and 26-trip checksum loops which would force the global
/// unwind bound to 27 and with it 27x27 unrollings of the planner's insertion sort (measured: > 10 min).
fn population<const N: usize>(frozen: &[bool; N], wp: &[u64; N]) -> [SegmentInfo; N] {
    std::array::from_fn(|i| {
        let hdr: SegmentHeader = unsafe { std::mem::zeroed() };
        let mut s = SegmentInfo::new(i as u16, hdr);
        s.state = if frozen[i] { SegmentState::Frozen } else { SegmentState::Thawed };
        s.write_position = wp[i];
        s
    })
}

/// Replacement for the private `alloc::slice::stable_sort` (what `sort_by_key` calls): plain stable
/// insertion sort.  A stable sort's result is uniquely determined by the input and the ordering, so
/// this is an exact model, not an abstraction.  Needed because the planner sorts a Vec whose length is
/// data dependent: CBMC cannot fold `len <= 20` and symbolically executes std's driftsort/quicksort
/// recursion (measured: symex not finished after 10 min for 3 segments).
pub fn stable_sort_model<T, F>(v: &mut [T], mut is_less: F)
where
    F: FnMut(&T, &T) -> bool,
{
    let n = v.len();
    let mut i = 1;
    while i < n {
        let mut j = i;
        while j > 0 && is_less(&v[j], &v[j - 1]) {
            v.swap(j, j - 1);
            j -= 1;
        }
        i += 1;
    }
}

/// Integer statement of "frozen, non-empty, utilisation below the threshold": `t` = threshold *
/// segment_size, exact because both are powers of two / dyadic and < 2^53.
fn eligible(frozen: bool, wp: u64, t: u64) -> bool {
    frozen && wp > 0 && wp < t
}

/// Checks that hold for every plan (everything except "destination's own bytes are respected").
fn check_plan<const N: usize>(plan: &CompactionPlan, frozen: &[bool; N], wp: &[u64; N], size: u64, t: u64, a: usize, b: usize) {
    let n = plan.moves.len();
    assert!(n < N || N == 0, "more moves than segments - 1");
    // total_bytes = sum of lengths (lengths are < size <= 2^40, no overflow)
    let mut sum = 0u64;
    let mut k = 0;
    while k < N {
        if k < n {
            sum += plan.moves[k].length;
        }
        k += 1;
    }
    assert!(plan.total_bytes == sum, "total_bytes is not the sum of the move lengths");
    if a < n {
        let m = &plan.moves[a];
        let (s, d) = (m.source_segment as usize, m.dest_segment as usize);
        assert!(s < N && d < N, "move names a segment outside the population");
        assert!(eligible(frozen[s], wp[s], t), "source is not a frozen non-empty segment below the threshold");
        assert!(eligible(frozen[d], wp[d], t), "destination is not a frozen segment below the threshold");
        assert!(s != d, "segment moved into itself");
        assert!(m.source_offset == 0 && m.length == wp[s], "move does not carry exactly the source's used bytes");
        assert!(m.dest_offset <= size && m.length <= size - m.dest_offset, "move runs beyond segment_size");
        // bookkeeping lists name the segments of every move
        let (mut in_src, mut in_dst) = (false, false);
        let mut k = 0;
        while k < N {
            if k < plan.source_segments.len() && plan.source_segments[k] == m.source_segment {
                in_src = true;
            }
            if k < plan.target_segments.len() && plan.target_segments[k] == m.dest_segment {
                in_dst = true;
            }
            k += 1;
        }
        assert!(in_src, "source_segments misses the source of a move");
        assert!(in_dst, "target_segments misses the destination of a move");
        if b < n && b != a {
            let o = &plan.moves[b];
            assert!(o.source_segment != m.source_segment, "segment is the source of two moves");
            assert!(o.dest_segment != m.source_segment, "segment is both a source and a destination");
            if o.dest_segment == m.dest_segment {
                // both ends were shown <= size above for an arbitrary move, so no overflow here
                assert!(
                    m.dest_offset + m.length <= o.dest_offset || o.dest_offset + o.length <= m.dest_offset,
                    "two moves into one destination overlap"
                );
            }
        }
    }
    assert!(plan.source_segments.len() <= n && plan.target_segments.len() <= n, "bookkeeping lists longer than the move list");
}

macro_rules! plan_general {
    ($name:ident, $n:expr, $uw:literal, $size:expr, $thr:expr, $t:expr) => {
        #[kani::proof]
        #[kani::unwind($uw)]
        #[kani::stub(alloc::slice::stable_sort, crate::c18_plan::stable_sort_model)]
        #[kani::stub(tracing_core::callsite::DefaultCallsite::interest, crate::tracing_stubs::interest_never)]
        #[kani::stub(tracing::__macro_support::__is_enabled, crate::tracing_stubs::is_enabled_false)]
        #[kani::stub(tracing_core::event::Event::dispatch, crate::tracing_stubs::dispatch_nop)]
        fn $name() {
            const N: usize = $n;
            const SIZE: u64 = $size;
            const T: u64 = $t;
            let frozen: [bool; N] = kani::any();
            let wp: [u64; N] = kani::any();
            let a: usize = kani::any();
            let b: usize = kani::any();
            let segs = population::<N>(&frozen, &wp);
            let plan = plan_archive_merge(&segs, $thr, SIZE);
            check_plan::<N>(&plan, &frozen, &wp, SIZE, T, a, b);
            let mut elig = 0;
            let mut k = 0;
            while k < N {
                if eligible(frozen[k], wp[k], T) {
                    elig += 1;
                }
                k += 1;
            }
            if elig < 2 {
                assert!(plan.moves.is_empty(), "fewer than two mergeable segments must give an empty plan");
            }
            kani::cover!(plan.moves.len() == N - 1, "every other segment merged");
            kani::cover!($thr <= 0.5 || (plan.moves.len() == 1 && elig == N), "a source did not fit (reachable only above threshold 0.5)");
            std::mem::forget(plan);
            std::mem::forget(segs);
        }
    };
}

// @family prop=C18 tier=quick timeout=600 mem=16 role=merge-plan-general
// @bounds N segments (n<N> in the name), state symbolic, write_position symbolic over all u64, segment_size and utilization_threshold concrete per harness (s10/s30/s40 = 2^10/2^30/2^40, t25/t50/t100 = 0.25/0.5/1.0); move indices a,b symbolic
// @encodes cascette_client_storage::storage::compaction::plan_archive_merge
// @assumes tracing neutralised (3 stubs); segment headers = all-zero SegmentHeader (the planner never reads the header); oracle threshold T = threshold*segment_size as an integer (exact: dyadic values below 2^53)
// @catches move beyond segment_size, overlapping moves into one destination, thawed/empty/high-utilisation segment used as source or destination, source moved twice, source reused as destination, wrong total_bytes, wrong length/offset of a move, stale destination cursor after switching destination
plan_general!(c18_plan_general_n3_s10_t25, 3, 5, 1u64 << 10, 0.25, 1u64 << 8);
// @end

#[kani::proof]
#[kani::unwind(5)]
#[kani::stub(alloc::slice::stable_sort, crate::c18_plan::stable_sort_model)]
#[kani::stub(tracing_core::callsite::DefaultCallsite::interest, crate::tracing_stubs::interest_never)]
#[kani::stub(tracing::__macro_support::__is_enabled, crate::tracing_stubs::is_enabled_false)]
#[kani::stub(tracing_core::event::Event::dispatch, crate::tracing_stubs::dispatch_nop)]
fn scratch_v1() {
    const N: usize = 3;
    let frozen: [bool; N] = kani::any();
    let wp: [u64; N] = kani::any();
    let segs = population::<N>(&frozen, &wp);
    let plan = plan_archive_merge(&segs, 0.25, 1024);
    assert!(plan.moves.len() < 3);
    std::mem::forget(plan);
    std::mem::forget(segs);
}
