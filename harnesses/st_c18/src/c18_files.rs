// C18 part 3 — extract-compact on an in-memory file model: the compacted file is exactly the live
// spans' original bytes in offset order, the reported saving is truthful, overlapping span sets are
// refused with the file untouched.  `CompactionFileMover::{compact_in_place, move_data}` chunking.
//
// File model: two "inodes" of CAP bytes each (content, length, cursor), selected by the raw fd of the
// `File` (3 -> inode 0, 4 -> inode 1).  The required methods of Read/Write/Seek for `File` are
// stubbed; the provided methods (`read_exact`, `write_all`) run for real on top of them.  With
// `SHORT` set every read/write transfers at most one byte (short transfers are legal for a file).
use crate::stubs::*;
use cascette_client_storage::storage::compaction::{CompactionFileMover, DataSpan, extract_compact_segment};
use std::fs::{File, Metadata};
use std::io::{self, SeekFrom};
use std::os::fd::{AsRawFd, FromRawFd};

pub const CAP: usize = 8;
static mut DISK: [[u8; CAP]; 2] = [[0; CAP]; 2];
static mut LEN: [usize; 2] = [0; 2];
static mut POS: [u64; 2] = [0; 2];
static mut SHORT: bool = false;
static mut META_INODE: usize = 0;
static mut SET_LEN_CALLS: u32 = 0;
static mut WRITES: u32 = 0;

fn inode(f: &File) -> usize {
    let fd = f.as_raw_fd();
    assert!(fd == 3 || fd == 4, "file model: unknown descriptor");
    (fd - 3) as usize
}
pub fn file_read(f: &mut File, buf: &mut [u8]) -> io::Result<usize> {
    unsafe {
        let i = inode(f);
        let pos = POS[i];
        let avail = if pos >= LEN[i] as u64 { 0 } else { LEN[i] - pos as usize };
        let mut n = if buf.len() < avail { buf.len() } else { avail };
        if SHORT && n > 1 {
            n = 1;
        }
        let mut k = 0;
        while k < n {
            buf[k] = DISK[i][pos as usize + k];
            k += 1;
        }
        POS[i] = pos + n as u64;
        Ok(n)
    }
}
pub fn file_write(f: &mut File, buf: &[u8]) -> io::Result<usize> {
    unsafe {
        let i = inode(f);
        let pos = POS[i];
        let mut n = buf.len();
        if SHORT && n > 1 {
            n = 1;
        }
        assert!(pos <= CAP as u64 && n <= CAP - pos as usize, "file model: write beyond the modelled capacity");
        let mut k = 0;
        while k < n {
            DISK[i][pos as usize + k] = buf[k];
            k += 1;
        }
        if pos as usize + n > LEN[i] {
            LEN[i] = pos as usize + n;
        }
        POS[i] = pos + n as u64;
        WRITES += 1;
        Ok(n)
    }
}
pub fn file_seek(f: &mut File, to: SeekFrom) -> io::Result<u64> {
    unsafe {
        let i = inode(f);
        match to {
            SeekFrom::Start(o) => POS[i] = o,
            _ => assert!(false, "file model: only SeekFrom::Start is modelled"),
        }
        Ok(POS[i])
    }
}
pub fn file_set_len(f: &File, size: u64) -> io::Result<()> {
    unsafe {
        let i = inode(f);
        assert!(size <= CAP as u64, "file model: set_len beyond the modelled capacity");
        LEN[i] = size as usize;
        SET_LEN_CALLS += 1;
        Ok(())
    }
}
pub fn file_metadata(f: &File) -> io::Result<Metadata> {
    unsafe {
        META_INODE = inode(f);
        // opaque plain-data struct (struct stat64 + optional statx fields); only `len()` is used, and
        // that is answered by the model
        Ok(std::mem::zeroed())
    }
}
pub fn metadata_len(_m: &Metadata) -> u64 {
    unsafe { LEN[META_INODE] as u64 }
}

fn fabricate(fd: i32) -> File {
    unsafe { File::from_raw_fd(fd) }
}

macro_rules! file_harness {
    ($name:ident, $uw:literal, $body:block) => {
        #[kani::proof]
        #[kani::unwind($uw)]
        #[kani::stub(<std::fs::File as std::io::Read>::read, crate::c18_files::file_read)]
        #[kani::stub(<std::fs::File as std::io::Write>::write, crate::c18_files::file_write)]
        #[kani::stub(<std::fs::File as std::io::Seek>::seek, crate::c18_files::file_seek)]
        #[kani::stub(std::fs::File::set_len, crate::c18_files::file_set_len)]
        #[kani::stub(std::fs::File::metadata, crate::c18_files::file_metadata)]
        #[kani::stub(std::fs::Metadata::len, crate::c18_files::metadata_len)]
        #[kani::stub(std::fmt::format, crate::stubs::fmt_format_empty)]
        #[kani::stub(tracing_core::callsite::DefaultCallsite::interest, crate::tracing_stubs::interest_never)]
        #[kani::stub(tracing::__macro_support::__is_enabled, crate::tracing_stubs::is_enabled_false)]
        #[kani::stub(tracing_core::event::Event::dispatch, crate::tracing_stubs::dispatch_nop)]
        fn $name() $body
    };
}

fn share_byte(a: &(usize, usize), b: &(usize, usize)) -> bool {
    a.1 > 0 && b.1 > 0 && a.0 < b.0 + b.1 && b.0 < a.0 + a.1
}

// ---- extract_compact_segment ------------------------------------------------------------------------
macro_rules! extract_compact {
    ($name:ident, $s:expr, $maxlen:expr, $uw:literal) => {
        file_harness!($name, $uw, {
            const S: usize = $s;
            let content: [u8; CAP] = kani::any();
            let len0: usize = kani::any();
            let short: bool = kani::any();
            let inp: [(usize, usize); S] = kani::any();
            let q: usize = kani::any(); // "for all bytes"
            let si: usize = kani::any(); // "for all spans"
            kani::assume(len0 <= $maxlen);
            let mut k = 0;
            while k < S {
                // spans lie inside the file
                kani::assume(inp[k].0 <= len0 && inp[k].1 <= len0 - inp[k].0);
                k += 1;
            }
            unsafe {
                DISK[0] = content;
                LEN[0] = len0;
                POS[0] = 0;
                SHORT = short;
            }
            // oracle on the input order
            let mut any_shared = false;
            let mut clean = true;
            let mut total = 0usize;
            let mut i = 0;
            while i < S {
                total += inp[i].1;
                let mut j = i + 1;
                while j < S {
                    if share_byte(&inp[i], &inp[j]) {
                        any_shared = true;
                    }
                    if !(inp[i].0 + inp[i].1 <= inp[j].0 || inp[j].0 + inp[j].1 <= inp[i].0) {
                        clean = false;
                    }
                    if inp[i].0 == inp[j].0 && (inp[i].1 != 0 || inp[j].1 != 0) {
                        clean = false;
                    }
                    j += 1;
                }
                i += 1;
            }
            let mut spans: [DataSpan; S] = std::array::from_fn(|i| DataSpan { offset: inp[i].0 as u64, length: inp[i].1 as u64 });
            let mut mover = CompactionFileMover::new(0); // scale model: one 2-byte buffer
            let mut file = fabricate(3);
            let r = extract_compact_segment(&mut file, &mut spans, &mut mover);
            let (new_len, sets, writes) = unsafe { (LEN[0], SET_LEN_CALLS, WRITES) };
            if any_shared {
                assert!(r.is_err(), "overlapping span set must be refused");
            }
            if r.is_err() {
                // nothing but overlap can fail here (spans are inside the file, the model has no I/O faults)
                assert!(!clean, "disjoint span set inside the file was refused");
                assert!(new_len == len0 && sets == 0 && writes == 0, "refused compaction touched the file");
                if q < CAP {
                    assert!(unsafe { DISK[0][q] } == content[q], "refused compaction changed file content");
                }
            }
            if clean {
                assert!(r.is_ok(), "disjoint span set inside the file was refused");
            }
            if let Ok(saved) = &r {
                if clean {
                    assert!(new_len == total, "compacted file length is not the sum of the span lengths");
                    assert!(*saved == (len0 - total) as u64, "bytes_saved is not old length - new length");
                    // span si (input order) lands behind all spans with a smaller offset
                    if si < S {
                        let mut dest = 0usize;
                        let mut j = 0;
                        while j < S {
                            if inp[j].0 < inp[si].0 {
                                dest += inp[j].1;
                            }
                            j += 1;
                        }
                        if q < inp[si].1 {
                            assert!(
                                unsafe { DISK[0][dest + q] } == content[inp[si].0 + q],
                                "compacted file is not the concatenation of the spans' original bytes in offset order"
                            );
                        }
                    }
                }
            }
            kani::cover!(r.is_ok() && clean && (S < 2 || inp[0].0 > inp[S - 1].0) && inp[S - 1].0 > 0 && inp[0].1 > 2, "unsorted input, first span after offset 0, span larger than the buffer");
            kani::cover!(r.is_ok() && clean && total > 0 && total < len0 && short, "gaps removed with short transfers");
            kani::cover!(S < 2 || (r.is_err() && any_shared), "overlap refused");
            std::mem::forget(r);
            std::mem::forget(file);
            std::mem::forget(mover);
        });
    };
}

// @family prop=C18 tier=quick timeout=900 mem=16 replay=none role=extract-compact
// @bounds file of 0..=L bytes (l<L> in the name) with symbolic content and length; S spans (s<S> in the name) with symbolic offset/length inside the file, any input order (adjacent, gapped, zero-length, first span after offset 0, overlapping); I/O buffer 2 bytes (scale model) so spans of 3..L bytes are copied in several chunks; short transfers (1 byte per read/write call) on or off symbolically; observed byte / span index symbolic
// @encodes cascette_client_storage::storage::compaction::extract_compact_segment, cascette_client_storage::storage::compaction::validate_spans, cascette_client_storage::storage::compaction::CompactionFileMover::compact_in_place, cascette_client_storage::storage::compaction::CompactionFileMover::new
// @assumes in-memory file model behind stubs of <File as Read>::read, <File as Write>::write, <File as Seek>::seek, File::set_len, File::metadata, Metadata::len (no I/O faults; short transfers modelled); File fabricated from raw fd 3 and forgotten; hook: MIN_BUFFER_SIZE = 2 under cfg(kani) (code assumed uniform in the buffer size); std::fmt::format -> empty String; tracing neutralised; spans lie inside the file; verdict unspecified where a zero-length span sits at the offset of / inside a non-empty one
// @catches span copied to the wrong place (write cursor not advanced, advanced by the wrong amount, gap test wrong), chunk loop losing or duplicating bytes (remaining/position bookkeeping, chunk larger than buffer), truncation to the wrong length or skipped, wrong bytes_saved, overlap not refused or file modified before the refusal, sort missing so that an earlier span overwrites a later one
extract_compact!(c18_extract_compact_s1_l8, 1, 8, 6);
extract_compact!(c18_extract_compact_s2_l5, 2, 5, 5);
// @end
// @family prop=C18 tier=thorough timeout=3300 mem=24 replay=none role=extract-compact
// @bounds as the quick extract-compact family with larger files / more spans: s2_l8 = 2 spans in a file of 0..=8 bytes, s3_l6 = 3 spans in a file of 0..=6 bytes
// @encodes cascette_client_storage::storage::compaction::extract_compact_segment, cascette_client_storage::storage::compaction::validate_spans, cascette_client_storage::storage::compaction::CompactionFileMover::compact_in_place
// @assumes as the quick extract-compact family
// @catches as the quick family, plus errors that need a third span (second gap) or a 4-chunk copy next to another span
extract_compact!(c18_extract_compact_s2_l8, 2, 8, 6);
extract_compact!(c18_extract_compact_s3_l6, 3, 6, 5);
// @end

// ---- CompactionFileMover::compact_in_place / move_data on their own ---------------------------------
// @harness prop=C18 tier=quick timeout=900 mem=16 replay=none role=compact-in-place
// @bounds one file of 0..=8 bytes, symbolic content; src_offset, dest_offset, length symbolic with dest_offset <= src_offset (the direction extract-compact uses) and the source range inside the file; 2-byte buffer (1..4 chunks); short transfers symbolic; observed byte symbolic
// @encodes cascette_client_storage::storage::compaction::CompactionFileMover::compact_in_place
// @assumes file model and hook as in extract-compact
// @catches chunked forward copy reading bytes it has already overwritten, off-by-one in chunk/remaining/position bookkeeping, bytes outside the destination range modified, bytes_moved wrong
file_harness!(c18_compact_in_place, 6, {
    let content: [u8; CAP] = kani::any();
    let len0: usize = kani::any();
    let short: bool = kani::any();
    let (src, dst, n): (usize, usize, usize) = kani::any();
    let q: usize = kani::any();
    kani::assume(len0 <= CAP && src <= len0 && n <= len0 - src && dst <= src);
    unsafe {
        DISK[0] = content;
        LEN[0] = len0;
        POS[0] = 0;
        SHORT = short;
    }
    let mut mover = CompactionFileMover::new(0);
    let mut file = fabricate(3);
    let r = mover.compact_in_place(&mut file, src as u64, dst as u64, n as u64);
    assert!(r.is_ok(), "in-place copy inside the file failed");
    assert!(unsafe { LEN[0] } == len0, "in-place copy changed the file length");
    if q < CAP {
        let now = unsafe { DISK[0][q] };
        if q >= dst && q - dst < n {
            assert!(now == content[src + (q - dst)], "destination byte is not the original source byte");
        } else {
            assert!(now == content[q], "byte outside the destination range was modified");
        }
    }
    assert!(mover.bytes_moved() == if src == dst { 0 } else { n as u64 }, "bytes_moved does not match the copied length");
    kani::cover!(n > 4 && dst + 1 == src && short, "overlapping ranges one byte apart, three chunks, short transfers");
    kani::cover!(n == 3 && dst + n < src, "disjoint ranges, chunk of 2 then 1");
    std::mem::forget(r);
    std::mem::forget(file);
    std::mem::forget(mover);
});

// @harness prop=C18 tier=quick timeout=900 mem=16 replay=none role=move-data
// @bounds two files of 0..=8 bytes, symbolic content and lengths; src_offset, dest_offset, length symbolic with the source range inside the source file and the destination range inside the modelled capacity (may extend the destination file); 2-byte buffer; short transfers symbolic; observed byte symbolic
// @encodes cascette_client_storage::storage::compaction::CompactionFileMover::move_data
// @assumes file model (two inodes: fd 3 = source, fd 4 = destination) and hook as in extract-compact
// @catches source/destination offsets swapped or ignored, chunk bookkeeping off by one, bytes outside the destination range modified, source file modified, destination length wrong, bytes_moved wrong
file_harness!(c18_move_data, 6, {
    let c0: [u8; CAP] = kani::any();
    let c1: [u8; CAP] = kani::any();
    let (l0, l1): (usize, usize) = kani::any();
    let short: bool = kani::any();
    let (so, d_o, n): (usize, usize, usize) = kani::any();
    let q: usize = kani::any();
    kani::assume(l0 <= CAP && l1 <= CAP && so <= l0 && n <= l0 - so && d_o <= l1 && n <= CAP - d_o);
    unsafe {
        DISK[0] = c0;
        DISK[1] = c1;
        LEN[0] = l0;
        LEN[1] = l1;
        POS = [0, 0];
        SHORT = short;
    }
    let mut mover = CompactionFileMover::new(0);
    let mut sf = fabricate(3);
    let mut df = fabricate(4);
    let r = mover.move_data(&mut sf, so as u64, &mut df, d_o as u64, n as u64);
    assert!(r.is_ok(), "move inside the files failed");
    assert!(unsafe { LEN[0] } == l0, "source file length changed");
    let want_len = if d_o + n > l1 { d_o + n } else { l1 };
    assert!(unsafe { LEN[1] } == want_len, "destination file length wrong");
    if q < CAP {
        assert!(unsafe { DISK[0][q] } == c0[q], "source file modified");
        let now = unsafe { DISK[1][q] };
        if q >= d_o && q - d_o < n {
            assert!(now == c0[so + (q - d_o)], "destination byte is not the source byte");
        } else {
            assert!(now == c1[q], "destination byte outside the moved range was modified");
        }
    }
    assert!(mover.bytes_moved() == n as u64, "bytes_moved does not match the moved length");
    kani::cover!(n == 5 && so != d_o && short, "three chunks with short transfers");
    kani::cover!(d_o + n > l1 && n > 0, "move extends the destination file");
    std::mem::forget(r);
    std::mem::forget(sf);
    std::mem::forget(df);
    std::mem::forget(mover);
});
