// C18 part 3 — extract-compact on an in-memory file model: the compacted file is exactly the live
// spans' original bytes in offset order, the reported saving is truthful, overlapping span sets are
// refused with the file untouched.  `CompactionFileMover::{compact_in_place, move_data}` chunking.
//
// File model: two "inodes" of CAP bytes each (content, length, cursor), selected by the raw fd of the
// `File` (3 -> inode 0, 4 -> inode 1).  The required methods of Read/Write/Seek for `File` are
// stubbed; the provided methods (`read_exact`, `write_all`) run for real on top of them.  With
// `SHORT` set every read/write transfers at most one byte (short transfers are legal for a file).
use crate::stubs::*;
use cascette_client_storage::storage::compaction::{CompactionFileMover, DataSpan, extract_compact_segment};
use std::fs::{File, Metadata};
use std::io::{self, SeekFrom};
use std::os::fd::{AsRawFd, FromRawFd};

pub const CAP: usize = 8;
static mut DISK: [[u8; CAP]; 2] = [[0; CAP]; 2];
static mut LEN: [usize; 2] = [0; 2];
static mut POS: [u64; 2] = [0; 2];
static mut SHORT: bool = false;
static mut META_INODE: usize = 0;
static mut SET_LEN_CALLS: u32 = 0;
static mut WRITES: u32 = 0;

fn inode(f: &File) -> usize {
    let fd = f.as_raw_fd();
    assert!(fd == 3 || fd == 4, "file model: unknown descriptor");
    (fd - 3) as usize
}
pub fn file_read(f: &mut File, buf: &mut [u8]) -> io::Result<usize> {
    unsafe {
        let i = inode(f);
        let pos = POS[i];
        let avail = if pos >= LEN[i] as u64 { 0 } else { LEN[i] - pos as usize };
        let mut n = if buf.len() < avail { buf.len() } else { avail };
        if SHORT && n > 1 {
            n = 1;
        }
        let mut k = 0;
        while k < n {
            buf[k] = DISK[i][pos as usize + k];
            k += 1;
        }
        POS[i] = pos + n as u64;
        Ok(n)
    }
}
pub fn file_write(f: &mut File, buf: &[u8]) -> io::Result<usize> {
    unsafe {
        let i = inode(f);
        let pos = POS[i];
        let mut n = buf.len();
        if SHORT && n > 1 {
            n = 1;
        }
        assert!(pos <= CAP as u64 && n <= CAP - pos as usize, "file model: write beyond the modelled capacity");
        let mut k = 0;
        while k < n {
            DISK[i][pos as usize + k] = buf[k];
            k += 1;
        }
        if pos as usize + n > LEN[i] {
            LEN[i] = pos as usize + n;
        }
        POS[i] = pos + n as u64;
        WRITES += 1;
        Ok(n)
    }
}
pub fn file_seek(f: &mut File, to: SeekFrom) -> io::Result<u64> {
    unsafe {
        let i = inode(f);
        match to {
            SeekFrom::Start(o) => POS[i] = o,
            _ => assert!(false, "file model: only SeekFrom::Start is modelled"),
        }
        Ok(POS[i])
    }
}
pub fn file_set_len(f: &File, size: u64) -> io::Result<()> {
    unsafe {
        let i = inode(f);
        assert!(size <= CAP as u64, "file model: set_len beyond the modelled capacity");
        LEN[i] = size as usize;
        SET_LEN_CALLS += 1;
        Ok(())
    }
}
pub fn file_metadata(f: &File) -> io::Result<Metadata> {
    unsafe {
        META_INODE = inode(f);
        // opaque plain-data struct (struct stat64 + optional statx fields); only `len()` is used, and
        // that is answered by the model
        Ok(std::mem::zeroed())
    }
}
pub fn metadata_len(_m: &Metadata) -> u64 {
    unsafe { LEN[META_INODE] as u64 }
}

fn fabricate(fd: i32) -> File {
    unsafe { File::from_raw_fd(fd) }
}

macro_rules! file_harness {
    ($name:ident, $uw:literal, $body:block) => {
        #[kani::proof]
        #[kani::unwind($uw)]
        #[kani::stub(<std::fs::File as std::io::Read>::read, crate::c18_files::file_read)]
        #[kani::stub(<std::fs::File as std::io::Write>::write, crate::c18_files::file_write)]
        #[kani::stub(<std::fs::File as std::io::Seek>::seek, crate::c18_files::file_seek)]
        #[kani::stub(std::fs::File::set_len, crate::c18_files::file_set_len)]
        #[kani::stub(std::fs::File::metadata, crate::c18_files::file_metadata)]
        #[kani::stub(std::fs::Metadata::len, crate::c18_files::metadata_len)]
        #[kani::stub(std::fmt::format, crate::stubs::fmt_format_empty)]
        #[kani::stub(tracing_core::callsite::DefaultCallsite::interest, crate::tracing_stubs::interest_never)]
        #[kani::stub(tracing::__macro_support::__is_enabled, crate::tracing_stubs::is_enabled_false)]
        #[kani::stub(tracing_core::event::Event::dispatch, crate::tracing_stubs::dispatch_nop)]
        fn $name() $body
    };
}

fn share_byte(a: &(usize, usize), b: &(usize, usize)) -> bool {
    a.1 > 0 && b.1 > 0 && a.0 < b.0 + b.1 && b.0 < a.0 + a.1
}

// ---- extract_compact_segment ------------------------------------------------------------------------
macro_rules! extract_compact {
    ($name:ident, $s:expr, $uw:literal) => {
        file_harness!($name, $uw, {
            const S: usize = $s;
            let content: [u8; CAP] = kani::any();
            let len0: usize = kani::any();
            let short: bool = kani::any();
            let inp: [(usize, usize); S] = kani::any();
            let q: usize = kani::any(); // "for all bytes"
            let si: usize = kani::any(); // "for all spans"
            kani::assume(len0 <= CAP);
            let mut k = 0;
            while k < S {
                // spans lie inside the file
                kani::assume(inp[k].0 <= len0 && inp[k].1 <= len0 - inp[k].0);
                k += 1;
            }
            unsafe {
                DISK[0] = content;
                LEN[0] = len0;
                POS[0] = 0;
                SHORT = short;
            }
            // oracle on the input order
            let mut any_shared = false;
            let mut clean = true;
            let mut total = 0usize;
            let mut i = 0;
            while i < S {
                total += inp[i].1;
                let mut j = i + 1;
                while j < S {
                    if share_byte(&inp[i], &inp[j]) {
                        any_shared = true;
                    }
                    if !(inp[i].0 + inp[i].1 <= inp[j].0 || inp[j].0 + inp[j].1 <= inp[i].0) {
                        clean = false;
                    }
                    if inp[i].0 == inp[j].0 && (inp[i].1 != 0 || inp[j].1 != 0) {
                        clean = false;
                    }
                    j += 1;
                }
                i += 1;
            }
            let mut spans: [DataSpan; S] = std::array::from_fn(|i| DataSpan { offset: inp[i].0 as u64, length: inp[i].1 as u64 });
            let mut mover = CompactionFileMover::new(0); // scale model: one 2-byte buffer
            let mut file = fabricate(3);
            let r = extract_compact_segment(&mut file, &mut spans, &mut mover);
            let (new_len, sets, writes) = unsafe { (LEN[0], SET_LEN_CALLS, WRITES) };
            if any_shared {
                assert!(r.is_err(), "overlapping span set must be refused");
            }
            if r.is_err() {
                // nothing but overlap can fail here (spans are inside the file, the model has no I/O faults)
                assert!(!clean, "disjoint span set inside the file was refused");
                assert!(new_len == len0 && sets == 0 && writes == 0, "refused compaction touched the file");
                if q < CAP {
                    assert!(unsafe { DISK[0][q] } == content[q], "refused compaction changed file content");
                }
            }
            if clean {
                assert!(r.is_ok(), "disjoint span set inside the file was refused");
            }
            if let Ok(saved) = &r {
                if clean {
                    assert!(new_len == total, "compacted file length is not the sum of the span lengths");
                    assert!(*saved == (len0 - total) as u64, "bytes_saved is not old length - new length");
                    // span si (input order) lands behind all spans with a smaller offset
                    if si < S {
                        let mut dest = 0usize;
                        let mut j = 0;
                        while j < S {
                            if inp[j].0 < inp[si].0 {
                                dest += inp[j].1;
                            }
                            j += 1;
                        }
                        if q < inp[si].1 {
                            assert!(
                                unsafe { DISK[0][dest + q] } == content[inp[si].0 + q],
                                "compacted file is not the concatenation of the spans' original bytes in offset order"
                            );
                        }
                    }
                }
            }
            crate::witness!(1, r.is_ok() && clean && (S < 2 || inp[0].0 > inp[S - 1].0) && inp[S - 1].0 > 0 && inp[0].1 > 2, "unsorted input, first span after offset 0, span larger than the buffer");
            crate::witness!(2, r.is_ok() && clean && total > 0 && total < len0 && short, "gaps removed with short transfers");
            crate::witness!(3, S < 2 || (r.is_err() && any_shared), "overlap refused");
            std::mem::forget(r);
            std::mem::forget(file);
            std::mem::forget(mover);
        });
    };
}

// @family prop=C18 tier=quick timeout=900 mem=16 replay=none role=extract-compact
// @bounds file of 0..=8 bytes with symbolic content and length; S spans (s<S> in the name) with symbolic offset/length inside the file, any input order (adjacent, gapped, zero-length, first span after offset 0, overlapping); I/O buffer 2 bytes (scale model) so spans of 3..8 bytes are copied in several chunks; short transfers (1 byte per read/write call) on or off symbolically; observed byte / span index symbolic
// @encodes cascette_client_storage::storage::compaction::extract_compact_segment, cascette_client_storage::storage::compaction::validate_spans, cascette_client_storage::storage::compaction::CompactionFileMover::compact_in_place, cascette_client_storage::storage::compaction::CompactionFileMover::new
// @assumes in-memory file model behind stubs of <File as Read>::read, <File as Write>::write, <File as Seek>::seek, File::set_len, File::metadata, Metadata::len (no I/O faults; short transfers modelled); File fabricated from raw fd 3 and forgotten; hook: MIN_BUFFER_SIZE = 2 under cfg(kani) (code assumed uniform in the buffer size); std::fmt::format -> empty String; tracing neutralised; spans lie inside the file; verdict unspecified where a zero-length span sits at the offset of / inside a non-empty one
// @catches span copied to the wrong place (write cursor not advanced, advanced by the wrong amount, gap test wrong), chunk loop losing or duplicating bytes (remaining/position bookkeeping, chunk larger than buffer), truncation to the wrong length or skipped, wrong bytes_saved, overlap not refused or file modified before the refusal, sort missing so that an earlier span overwrites a later one
extract_compact!(c18_extract_compact_s1, 1, 6);
extract_compact!(c18_extract_compact_s2, 2, 6);
// @end
