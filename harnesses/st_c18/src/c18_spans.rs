// C18 part 1 — `validate_spans`: overlapping span sets are refused, disjoint ones are accepted and
// sorted; the span multiset is never changed.
use crate::stubs::*;
use cascette_client_storage::storage::compaction::{DataSpan, validate_spans};

const H: u64 = 1 << 62;

/// two spans have at least one byte in common (textbook definition, independent of `DataSpan::overlaps`)
fn share_byte(a: &(u64, u64), b: &(u64, u64)) -> bool {
    a.1 > 0 && b.1 > 0 && a.0 < b.0 + b.1 && b.0 < a.0 + a.1
}
/// as half-open intervals one lies entirely before the other
fn interval_disjoint(a: &(u64, u64), b: &(u64, u64)) -> bool {
    a.0 + a.1 <= b.0 || b.0 + b.1 <= a.0
}

macro_rules! validate_spans_n {
    ($name:ident, $n:expr) => {
        #[kani::proof]
        #[kani::unwind(6)]
        #[kani::stub(std::fmt::format, crate::stubs::fmt_format_empty)]
        fn $name() {
            const N: usize = $n;
            // (offset, length) pairs, every end <= 2^62 (no u64 overflow in end())
            let inp: [(u64, u64); N] = kani::any();
            let mut k = 0;
            while k < N {
                kani::assume(inp[k].0 <= H && inp[k].1 <= H && inp[k].0 + inp[k].1 <= H);
                k += 1;
            }
            let mut spans: [DataSpan; N] = std::array::from_fn(|i| DataSpan { offset: inp[i].0, length: inp[i].1 });

            // oracle (quadratic, on the input order)
            let mut any_shared = false; // some pair shares a byte            => must be refused
            let mut clean = true; // all pairs interval-disjoint, equal offsets only among empty spans => must be accepted
            let mut i = 0;
            while i < N {
                let mut j = i + 1;
                while j < N {
                    if share_byte(&inp[i], &inp[j]) {
                        any_shared = true;
                    }
                    if !interval_disjoint(&inp[i], &inp[j]) {
                        clean = false;
                    }
                    if inp[i].0 == inp[j].0 && (inp[i].1 != 0 || inp[j].1 != 0) {
                        clean = false;
                    }
                    j += 1;
                }
                i += 1;
            }

            let r = validate_spans(&mut spans);
            let ok = r.is_ok();
            std::mem::forget(r);

            if any_shared {
                assert!(!ok, "span set with two spans sharing a byte must be refused");
            }
            if clean {
                assert!(ok, "pairwise disjoint span set must be accepted");
            }
            // the span multiset is unchanged whatever the verdict (the slice is sorted in place)
            let mut i = 0;
            while i < N {
                let (mut cin, mut cout) = (0u32, 0u32);
                let mut j = 0;
                while j < N {
                    if inp[j] == inp[i] {
                        cin += 1;
                    }
                    if (spans[j].offset, spans[j].length) == inp[i] {
                        cout += 1;
                    }
                    j += 1;
                }
                assert!(cin == cout, "validate_spans changed the multiset of spans");
                i += 1;
            }
            if ok {
                let mut i = 0;
                while i + 1 < N {
                    assert!(spans[i].offset <= spans[i + 1].offset, "accepted span set must be left sorted by offset");
                    // accepted => consecutive spans do not run into each other
                    assert!(spans[i].offset + spans[i].length <= spans[i + 1].offset, "accepted span set has a span running into its successor");
                    i += 1;
                }
            }
            kani::cover!(ok && inp[0].0 > inp[N - 1].0 && inp[0].1 > 0 && inp[N - 1].1 > 0, "accepted, input not in offset order");
            kani::cover!(!ok && any_shared && inp[0].0 < inp[N - 1].0, "refused overlapping set");
            kani::cover!(ok && clean && inp[0].1 == 0 && inp[0].0 > 0, "accepted set with a zero-length span");
        }
    };
}

// @family prop=C18 tier=quick timeout=600 mem=16 role=validate-spans
// @bounds N spans (N in the name: 2,3,4), offset and length symbolic u64 with offset+length <= 2^62, any input order, zero-length spans included
// @encodes cascette_client_storage::storage::compaction::validate_spans, cascette_client_storage::storage::compaction::DataSpan::end
// @assumes std::fmt::format stubbed to an empty String (text is only the error message); every span end <= 2^62 (documented precondition: spans lie inside a file); verdict left unspecified only where a zero-length span sits at the offset of / inside a non-empty one (stable-sort order dependent)
// @catches overlap accepted (wrong comparison, last/first pair skipped, sort dropped or by the wrong key), adjacent spans refused (> vs >=), spans dropped/duplicated/modified by the sort, result not sorted
validate_spans_n!(c18_validate_spans_n2, 2);
validate_spans_n!(c18_validate_spans_n3, 3);
validate_spans_n!(c18_validate_spans_n4, 4);
// @end
