// C14 — RetryPolicy::from_env: CASCETTE_MAX_RETRIES parsing ("0" must mean 0 retries, not the default).
use cascette_protocol::retry::RetryPolicy;
use std::ffi::OsStr;
use std::time::Duration;

pub static mut ENV_LEN: usize = 0; // 0 = unset marker handled by ENV_SET
pub static mut ENV_SET: bool = false;
pub static mut ENV_BYTES: [u8; 3] = [0; 3];

/// `std::env::var` twin: CASCETTE_MAX_RETRIES comes from the harness, every other variable is unset.
pub fn env_var_stub<K: AsRef<OsStr>>(key: K) -> Result<String, std::env::VarError> {
    let k = key.as_ref().as_encoded_bytes();
    // "CASCETTE_MAX_RETRIES": 20 bytes, byte 13 = 'R' (CASCETTE_MAX_BACKOFF has 'B' there)
    if k.len() == 20 && k[13] == b'R' && unsafe { ENV_SET } {
        let n = unsafe { ENV_LEN };
        let mut v: Vec<u8> = Vec::with_capacity(3);
        let mut i = 0;
        while i < n {
            v.push(unsafe { ENV_BYTES[i] });
            i += 1;
        }
        Ok(unsafe { String::from_utf8_unchecked(v) })
    } else {
        Err(std::env::VarError::NotPresent)
    }
}

macro_rules! from_env_retries {
    ($name:ident, $len:expr) => {
        #[kani::proof]
        #[kani::unwind(6)]
        #[kani::stub(std::env::var, env_var_stub)]
        fn $name() {
            const L: usize = $len;
            let raw: [u8; 3] = kani::any();
            let set: bool = kani::any();
            let mut b = [0u8; 3];
            let mut i = 0;
            while i < L {
                b[i] = raw[i] & 0x7f; // ASCII
                i += 1;
            }
            unsafe {
                ENV_SET = set;
                ENV_LEN = L;
                ENV_BYTES = b;
            }
            let p = match RetryPolicy::from_env() {
                Ok(p) => p,
                Err(e) => {
                    std::mem::forget(e);
                    assert!(false, "from_env must not fail");
                    return;
                }
            };
            // reference: ^\+?[0-9]+$ -> that number, anything else (or unset) -> default 3
            let mut digits = 0usize;
            let mut val: u32 = 0;
            let mut ok = L > 0;
            let mut i = 0;
            while i < L {
                if i == 0 && b[0] == b'+' && L > 1 {
                } else if b[i].is_ascii_digit() {
                    val = val * 10 + (b[i] - b'0') as u32;
                    digits += 1;
                } else {
                    ok = false;
                }
                i += 1;
            }
            let want = if set && ok && digits > 0 { val } else { 3 };
            assert!(p.max_attempts == want, "CASCETTE_MAX_RETRIES: a number (incl. 0) is taken as is, everything else falls back to 3");
            assert!(p.initial_backoff == Duration::from_millis(100) && p.max_backoff == Duration::from_secs(10), "unset back-off variables give the documented defaults");
            assert!(p.multiplier == 2.0 && p.jitter, "unset multiplier / jitter give the documented defaults");
            kani::cover!(set && (L == 0 || p.max_attempts == 0), "zero retries configured (or empty string)");
            kani::cover!(set && p.max_attempts == 3, "default or explicit 3");
            std::mem::forget(p);
        }
    };
}
// @family prop=C14 tier=quick timeout=900 role=from-env-max-retries
// @bounds CASCETTE_MAX_RETRIES unset or set to a string of the fixed length in the name (0, 1, 2, 3 bytes), every byte symbolic ASCII; the other four variables unset
// @encodes cascette_protocol::retry::RetryPolicy::from_env
// @assumes std::env::var replaced by a twin that serves the harness-chosen string; str::parse::<u32> runs for real; the f64 / u64 / bool variables are only exercised unset (defaults)
// @catches "0" treated as unset (filter(|n| n > 0), unwrap_or_default mix-ups), wrong default, variable names swapped (MAX_RETRIES read for a back-off field), parse error turned into 0
from_env_retries!(c14_from_env_retries_len0, 0);
from_env_retries!(c14_from_env_retries_len1, 1);
from_env_retries!(c14_from_env_retries_len2, 2);
from_env_retries!(c14_from_env_retries_len3, 3);
// @end
