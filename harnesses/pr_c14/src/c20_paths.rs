// C20 — no key or endpoint escapes the configured directory; URL construction never panics.
//
// (a) CdnClient::build_url (the slicing hex_key[..2], hex_key[2..4]) per key length;
// (b) DiskCache::get_file_path: the returned path, lexically normalised, stays under cache_dir and
//     is injective on keys;  (c) validate_endpoint: every accepted endpoint, turned into the cache
//     key "api/ribbit/<endpoint>" and mapped by get_file_path, stays under cache_dir.
use cascette_cache::config::DiskCacheConfig;
use cascette_cache::disk_cache::DiskCache;
use cascette_cache::key::CacheKey;
use cascette_protocol::cdn::{CdnEndpoint, ContentType, verif_access as cdn};
use std::path::PathBuf;

// ---- (a) build_url ----------------------------------------------------------------------------
fn endpoint() -> CdnEndpoint {
    CdnEndpoint {
        host: String::new(),
        path: String::new(),
        product_path: None,
        scheme: None,
        is_fallback: false,
        strict: false,
        max_hosts: None,
    }
}

macro_rules! build_url_len {
    ($name:ident, $len:expr, $unwind:expr) => {
        #[kani::proof]
        #[kani::unwind($unwind)]
        #[kani::stub(std::fmt::format, crate::stubs::fmt_format_empty)]
        fn $name() {
            // Key CONTENT is concrete: hex::encode pushes `char`s into a String, and a symbolic char has
            // a symbolic UTF-8 width -> symbolic-size reallocations (solver out of memory at 2 bytes).
            // Whether the slicing panics depends only on the key length.
            let mut key = [0u8; $len];
            let mut i = 0;
            while i < $len {
                key[i] = (i as u8).wrapping_mul(37).wrapping_add(0xAB);
                i += 1;
            }
            let ct = match kani::any::<u8>() % 3 {
                0 => ContentType::Config,
                1 => ContentType::Data,
                _ => ContentType::Patch,
            };
            let ep = endpoint();
            let url = cdn::build_url(&ep, ct, &key);
            // reaching this point = no panic in hex encoding / slicing
            std::mem::forget(url);
            std::mem::forget(ep);
        }
    };
}

// @family prop=C20 tier=quick timeout=600 role=build-url-no-panic
// @bounds content key of the fixed length in the name (2, 3, 9, 16 bytes), key content concrete (a fixed byte pattern: a symbolic char makes String::push reallocate with symbolic sizes, solver OOM), content type symbolic, endpoint strings empty
// @encodes cascette_protocol::cdn::CdnClient::build_url, cascette_protocol::cdn::normalize_cdn_path
// @assumes std::fmt::format stubbed to an empty string (its arguments, i.e. the slices hex_key[..2] and hex_key[2..4], are evaluated before the call); URL text itself is not checked
// @catches slice bounds moved past the hex length (e.g. [..4]/[4..8] on 2..3-byte keys), slicing the raw key instead of the hex string
build_url_len!(c20_build_url_len02, 2, 8);
build_url_len!(c20_build_url_len03, 3, 10);
build_url_len!(c20_build_url_len09, 9, 22);
build_url_len!(c20_build_url_len16, 16, 36);
// @end
// @family prop=C20 tier=thorough timeout=1800 role=build-url-no-panic-32
// @bounds content key of 32 bytes (concrete pattern), content type symbolic
// @encodes cascette_protocol::cdn::CdnClient::build_url
// @assumes as c20_build_url_len02
build_url_len!(c20_build_url_len32, 32, 68);
// @end

// @family prop=C20 tier=quick timeout=600 role=build-url-short-key
// @bounds content key of 0 and of 1 byte (concrete content), content type symbolic (regression harnesses for the fixed slicing panic)
// @encodes cascette_protocol::cdn::CdnClient::build_url
// @assumes as c20_build_url_len02
// @catches reintroduced hex_key[..2] / hex_key[2..4] slicing (panics for keys shorter than 2 bytes)
build_url_len!(c20_kf_build_url_len00, 0, 4);
build_url_len!(c20_kf_build_url_len01, 1, 6);
// @end

// ---- (b), (c): paths ----------------------------------------------------------------------------
#[derive(Debug, Clone, PartialEq, Eq, Hash)]
pub struct RawKey(pub String);
impl CacheKey for RawKey {
    fn as_cache_key(&self) -> &str {
        &self.0
    }
}

pub fn create_dir_all_ok<P: AsRef<std::path::Path>>(_p: P) -> std::io::Result<()> {
    Ok(())
}

/// DiskCache::new reads the clock for its metrics (clock_gettime has no model); any instant will do.
pub fn instant_zero() -> std::time::Instant {
    unsafe { std::mem::zeroed() }
}
pub fn systemtime_zero() -> std::time::SystemTime {
    unsafe { std::mem::zeroed() }
}

pub const ROOT: &str = "/c";

/// The configuration cascette-protocol's ProtocolCache uses: flat directory, no hashed levels.
pub fn flat_cache() -> DiskCache<RawKey> {
    let cfg = DiskCacheConfig::new(ROOT).with_subdirectories(false, 0);
    match DiskCache::new(cfg) {
        Ok(c) => c,
        Err(_) => {
            assert!(false, "DiskCache::new failed");
            loop {}
        }
    }
}

/// Lexical confinement: `p` must be `root` (+ "/" + components whose running depth never drops
/// below zero: "." and empty components keep the depth, ".." lowers it, anything else raises it).
pub fn confined_under(p: &[u8], root: &[u8]) -> bool {
    if p.len() < root.len() {
        return false;
    }
    // prefix compare without a loop (the unwind bound is global: a 13-iteration compare would force
    // every loop of std::path::Components to be unrolled 14 times); roots used: "/c", "/c/api/ribbit"
    let i = root.len();
    let same = if i == 2 {
        p[0] == root[0] && p[1] == root[1]
    } else if i == 13 {
        p[0] == root[0] && p[1] == root[1] && p[2] == root[2] && p[3] == root[3] && p[4] == root[4] && p[5] == root[5] && p[6] == root[6]
            && p[7] == root[7] && p[8] == root[8] && p[9] == root[9] && p[10] == root[10] && p[11] == root[11] && p[12] == root[12]
    } else {
        false
    };
    if !same {
        return false;
    }
    if p.len() == root.len() {
        return true;
    }
    if p[i] != b'/' {
        return false;
    }
    let mut depth: i32 = 0;
    let mut start = i + 1;
    let mut k = i + 1;
    while k <= p.len() {
        if k == p.len() || p[k] == b'/' {
            let n = k - start;
            if n == 2 && p[start] == b'.' && p[start + 1] == b'.' {
                depth -= 1;
                if depth < 0 {
                    return false;
                }
            } else if n == 0 || (n == 1 && p[start] == b'.') {
            } else {
                depth += 1;
            }
            start = k + 1;
        }
        k += 1;
    }
    true
}

/// Well-formed relative key: every '/'-separated component is a normal name (non-empty, not "." and
/// not ".."), hence not absolute and without a trailing separator.
pub fn well_formed(k: &[u8]) -> bool {
    let mut start = 0;
    let mut i = 0;
    while i <= k.len() {
        if i == k.len() || k[i] == b'/' {
            let n = i - start;
            if n == 0 || (n == 1 && k[start] == b'.') || (n == 2 && k[start] == b'.' && k[start + 1] == b'.') {
                return false;
            }
            start = i + 1;
        }
        i += 1;
    }
    true
}

fn alphabet(sel: u8) -> u8 {
    match sel % 4 {
        0 => b'.',
        1 => b'/',
        2 => b'a',
        _ => b'\\',
    }
}

// Built from bytes, not `String::push(char)`: a symbolic char has a symbolic UTF-8 width, which makes
// the String's heap size symbolic (solver out of memory).  Callers pass ASCII only.
fn mk_string<const L: usize>(prefix: &str, bytes: [u8; L]) -> String {
    let mut v: Vec<u8> = Vec::with_capacity(prefix.len() + L);
    v.extend_from_slice(prefix.as_bytes()); // concrete-length memcpy, no loop
    let mut i = 0;
    while i < L {
        v.push(bytes[i]);
        i += 1;
    }
    unsafe { String::from_utf8_unchecked(v) }
}

// The fixed get_file_path rebuilds the relative path component by component
// (`Path::components().filter_map(Normal).collect::<PathBuf>()`).  With ANY symbolic key byte the
// three nested std::path::Components loops are unrolled to the global bound and every PathBuf::push
// has a symbolic length (symbolic-size heap objects).  Measured: 2-byte key over {'.','/','a','\\'}:
// 15 min timeout / solver out of memory; separator positions concrete ("/c", one symbolic character):
// symex 226 s, then solver out of memory.  The keys are therefore enumerated concretely (the checker
// executes the real code on each): this is a regression list, not a proof over all keys.
const ADVERSARIAL_KEYS: [&str; 16] = [
    "/", "/a", "//a", "..", "../a", "a/..", "a/../..", "../..", "../../a", "./a", "a//b", "a/", "/../a", "\\..", "api/ribbit/..",
    "api/ribbit/../../..",
];
const PLAIN_KEYS: [&str; 7] = ["a", "ab", "a/b", "a.b/c", "..a", "a\\b", "api/ribbit/v1/x"];

macro_rules! disk_path_keys {
    ($name:ident, $keys:expr, $verbatim:expr) => {
        #[kani::proof]
        #[kani::unwind(24)]
        #[kani::stub(std::fs::create_dir_all, create_dir_all_ok)]
        #[kani::stub(std::time::Instant::now, instant_zero)]
        #[kani::stub(std::time::SystemTime::now, systemtime_zero)]
        #[kani::stub(std::hash::RandomState::new, crate::stubs::fixed_random_state)]
        fn $name() {
            let cache = flat_cache();
            let mut n = 0;
            while n < $keys.len() {
                let k: &str = $keys[n];
                let key = RawKey(String::from(k));
                let path = cache.verif_get_file_path(&key);
                let bytes = path.as_os_str().as_encoded_bytes();
                assert!(confined_under(bytes, ROOT.as_bytes()), "cache key escapes cache_dir (absolute key or '..' component)");
                if $verbatim {
                    // a key made of normal components maps to cache_dir/<key> verbatim (hence injectively)
                    assert!(bytes.len() == ROOT.len() + 1 + k.len(), "path must be cache_dir/<key>");
                    let kb = k.as_bytes();
                    let mut t = 0;
                    while t < kb.len() {
                        assert!(bytes[ROOT.len() + 1 + t] == kb[t], "path must end with the key bytes");
                        t += 1;
                    }
                }
                std::mem::forget(path);
                std::mem::forget(key);
                n += 1;
            }
            kani::cover!(n == $keys.len(), "all keys processed");
            std::mem::forget(cache);
        }
    };
}

// @harness prop=C20 tier=quick timeout=900 role=disk-path-wellformed
// @bounds 7 concrete keys made of normal components ("a", "ab", "a/b", "a.b/c", "..a", "a\\b", "api/ribbit/v1/x"); cache_dir "/c"; flat layout (as ProtocolCache configures it): each maps to cache_dir/<key> verbatim (so different keys get different files)
// @encodes cascette_cache::disk_cache::DiskCache::get_file_path, cascette_cache::disk_cache::DiskCache::confined_relative_path, cascette_cache::disk_cache::DiskCache::new
// @assumes std::fs::create_dir_all stubbed to Ok; Instant::now / SystemTime::now stubbed (metrics start time); RandomState pinned; keys concrete (symbolic key bytes are not tractable through std::path::Components: see the comment above; before the fix the raw join was proved for all keys of <= 4 bytes over {'.','/','a','\\'}); hashed-subdirectory layout not covered (format!)
// @catches cache_dir dropped or replaced, key truncated / hashed / re-encoded, separator missing, normal components dropped by the filter
disk_path_keys!(c20_disk_path_wellformed_keys, PLAIN_KEYS, true);

// @harness prop=C20 tier=quick timeout=900 role=disk-path-raw-key
// @bounds 16 concrete adversarial keys: "/", "/a", "//a", "..", "../a", "a/..", "a/../..", "../..", "../../a", "./a", "a//b", "a/", "/../a", "\\..", "api/ribbit/..", "api/ribbit/../../.." : the lexically normalised path stays under cache_dir (regression harness for the fixed raw join)
// @encodes cascette_cache::disk_cache::DiskCache::get_file_path, cascette_cache::disk_cache::DiskCache::confined_relative_path
// @assumes as c20_disk_path_wellformed_keys
// @catches raw join of the key (absolute key replaces cache_dir, ".." leaves it), filter keeping ParentDir / RootDir components
disk_path_keys!(c20_kf_disk_path_raw_keys, ADVERSARIAL_KEYS, false);

// ---- (c) validate_endpoint ------------------------------------------------------------------------
macro_rules! endpoint_path {
    ($name:ident, $len:expr, $unwind:expr, $ascii:expr, $root:expr, $msg:expr) => {
        #[kani::proof]
        #[kani::unwind($unwind)]
        #[kani::stub(std::fmt::format, crate::stubs::fmt_format_empty)]
        fn $name() {
            const L: usize = $len;
            let raw: [u8; L] = kani::any();
            let mut b = [0u8; L];
            let mut i = 0;
            while i < L {
                b[i] = if $ascii {
                    raw[i] & 0x7f
                } else {
                    match raw[i] % 4 {
                        0 => b'.',
                        1 => b'/',
                        2 => b'a',
                        _ => b'-',
                    }
                };
                i += 1;
            }
            let ep = mk_string::<L>("", b);
            let verdict = cascette_protocol::client::verif_access::validate_endpoint(&ep);
            let accepted = verdict.is_ok();
            std::mem::forget(verdict);
            // whitelist: alphanumerics and / _ - . only
            let mut ok = true;
            let mut i = 0;
            while i < L {
                let c = b[i];
                ok &= c.is_ascii_alphanumeric() || c == b'/' || c == b'_' || c == b'-' || c == b'.';
                i += 1;
            }
            // no leading '/', no "." / ".." segment
            if b[0] == b'/' {
                ok = false;
            }
            let mut start = 0;
            let mut i = 0;
            while i <= L {
                if i == L || b[i] == b'/' {
                    let n = i - start;
                    if (n == 1 && b[start] == b'.') || (n == 2 && b[start] == b'.' && b[start + 1] == b'.') {
                        ok = false;
                    }
                    start = i + 1;
                }
                i += 1;
            }
            assert!(accepted == ok, "validate_endpoint must accept exactly: whitelist characters, no leading '/', no '.' / '..' segment");
            kani::cover!(accepted, "accepted endpoint");
            if accepted {
                // the cache key RibbitTactClient::query derives is "api/ribbit/<endpoint>": even a plain
                // join of it onto cache_dir must stay inside cache_dir/api/ribbit.  (DiskCache::get_file_path
                // on such keys: c20_disk_path_*_keys, concrete keys only.)
                let naive = mk_string::<L>("/c/api/ribbit/", b);
                assert!(confined_under(naive.as_bytes(), $root.as_bytes()), $msg);
                std::mem::forget(naive);
            }
            std::mem::forget(ep);
        }
    };
}

// @family prop=C20 tier=quick timeout=900 role=endpoint-confined
// @bounds endpoint string of the fixed length in the name (1, 2 bytes), every byte symbolic ASCII (0..=0x7f): validate_endpoint must equal the oracle (whitelist, no leading '/', no '.' / '..' segment) and the plain join cache_dir/api/ribbit/<accepted endpoint> must stay lexically inside /c/api/ribbit
// @encodes cascette_protocol::client::validate_endpoint
// @assumes the key prefix "api/ribbit/" is concatenated by the harness (query() builds it with format! inside an async network path); fmt::format stubbed (error text); non-ASCII endpoints not covered (Unicode tables); DiskCache::get_file_path is exercised on concrete keys only (c20_disk_path_*_keys)
// @catches a character dropped from / added to the whitelist ('\\', ':', space, NUL, '%'), validation skipped for some position, leading '/' or '.' / '..' segments accepted again, accepted endpoints leaving cache_dir/api/ribbit
endpoint_path!(c20_endpoint_confined_len1, 1, 4, true, "/c/api/ribbit", "accepted endpoint leaves cache_dir/api/ribbit");
endpoint_path!(c20_kf_endpoint_namespace_len2, 2, 5, true, "/c/api/ribbit", "accepted endpoint leaves cache_dir/api/ribbit");
// @end
// @family prop=C20 tier=thorough timeout=3300 mem=24 role=endpoint-confined-longer
// @bounds as c20_endpoint_confined_len1 for 3 symbolic ASCII bytes (len3: 389 s; len5: solver out of memory at 16 GB and at 24 GB after 2087 s: un-registered; 8 symbolic bytes: symex out of memory -- the fixed validate_endpoint splits with CharSearcher/memchr/memcmp, whose nested loops are unrolled to the bound for symbolic content)
// @encodes cascette_protocol::client::validate_endpoint
// @assumes as c20_endpoint_confined_len1
endpoint_path!(c20_endpoint_confined_len3, 3, 6, true, "/c/api/ribbit", "accepted endpoint leaves cache_dir/api/ribbit");
// (len5 un-registered: measured OOM at 24 GB after 2087 s in the thorough tier)
// endpoint_path!(c20_endpoint_confined_len5, 5, 8, true, "/c/api/ribbit", "accepted endpoint leaves cache_dir/api/ribbit");
// @end

fn endpoint_oracle(b: &[u8]) -> bool {
    let mut ok = b.len() > 0 && b[0] != b'/';
    let mut start = 0;
    let mut i = 0;
    while i <= b.len() {
        if i == b.len() || b[i] == b'/' {
            let w = i - start;
            if (w == 1 && b[start] == b'.') || (w == 2 && b[start] == b'.' && b[start + 1] == b'.') {
                ok = false;
            }
            start = i + 1;
        } else {
            let c = b[i];
            ok &= c.is_ascii_alphanumeric() || c == b'_' || c == b'-' || c == b'.';
        }
        i += 1;
    }
    ok
}

macro_rules! endpoint_concrete {
    ($name:ident, $e:expr) => {
        #[kani::proof]
        #[kani::unwind(12)]
        #[kani::stub(std::fmt::format, crate::stubs::fmt_format_empty)]
        fn $name() {
            const E: &str = $e;
            let b = E.as_bytes();
            let verdict = cascette_protocol::client::verif_access::validate_endpoint(E);
            let accepted = verdict.is_ok();
            std::mem::forget(verdict);
            assert!(accepted == endpoint_oracle(b), "validate_endpoint must accept exactly: whitelist characters, no leading '/', no '.' / '..' segment");
            if accepted {
                let mut v: Vec<u8> = Vec::with_capacity(14 + b.len());
                v.extend_from_slice(b"/c/api/ribbit/");
                v.extend_from_slice(b);
                assert!(confined_under(&v, b"/c/api/ribbit"), "accepted endpoint would leave api/ribbit under a plain join");
                std::mem::forget(v);
            }
        }
    };
}

// @family prop=C20 tier=quick timeout=900 role=endpoint-traversal-regressions
// @bounds one concrete endpoint per harness: the former escapes "../../..", "a/../.." and "/a", "./a" (must be rejected); "..a" (must be accepted and stay inside /c/api/ribbit under a plain join)
// @encodes cascette_protocol::client::validate_endpoint
// @assumes as c20_endpoint_confined_len1; concrete endpoints (8 symbolic bytes are not tractable, see c20_endpoint_confined_len5)
// @catches '..' / '.' segments or absolute endpoints passing validation again (former defects), over-rejection of dots inside names
endpoint_concrete!(c20_kf_endpoint_escapes_len8, "../../..");
endpoint_concrete!(c20_kf_endpoint_escapes_a_up_up, "a/../..");
endpoint_concrete!(c20_kf_endpoint_absolute, "/a");
endpoint_concrete!(c20_kf_endpoint_curdir, "./a");
endpoint_concrete!(c20_endpoint_dots_in_name, "..a");
// @end
