use crate::c14_retry::*;
use crate::tracing_stubs::*;
use cascette_protocol::error::ProtocolError;
use cascette_protocol::retry::{RetryPolicy, verif_access as clock};
use std::time::Duration;

macro_rules! probe {
    ($name:ident, $mk:expr) => {
        #[kani::proof]
        #[kani::unwind(4)]
        #[kani::stub(tracing_core::callsite::DefaultCallsite::interest, interest_never)]
        #[kani::stub(tracing::__macro_support::__is_enabled, is_enabled_false)]
        #[kani::stub(tracing_core::event::Event::dispatch, dispatch_nop)]
        #[kani::stub(std::fmt::format, crate::stubs::fmt_format_empty)]
        #[kani::stub(rand::rngs::thread::rng, fake_thread_rng)]
        #[kani::stub(reqwest::Error::is_timeout, reqwest_pred_false)]
        #[kani::stub(reqwest::Error::is_connect, reqwest_pred_false)]
        #[kani::stub(<rand::rngs::ThreadRng as rand::TryRng>::try_next_u64, fake_try_next_u64)]
        fn $name() {
            let max_attempts: u32 = kani::any();
            kani::assume(max_attempts <= 1);
            let initial = any_duration();
            let max = any_duration();
            let m = f64::from_bits(kani::any::<u64>());
            kani::assume(!(m < 0.0));
            kani::assume(max.as_secs() < TWO_POW_62);
            let sel: [bool; 3] = kani::any();
            let code: [u16; 3] = kani::any();
            kani::assume(code[0] >= 100 && code[0] <= 999 && code[1] >= 100 && code[1] <= 999 && code[2] >= 100 && code[2] <= 999);
            let policy = RetryPolicy { max_attempts, initial_backoff: initial, max_backoff: max, multiplier: m, jitter: false };
            clock::reset();
            let mut calls = 0usize;
            let fut = policy.execute(|| {
                let k = calls;
                calls += 1;
                assert!(k < 3);
                let f: fn(bool, u16) -> Result<u32, ProtocolError> = $mk;
                std::future::ready(f(sel[k % 3], code[k % 3]))
            });
            let res = block_on(fut, 1);
            assert!(res.is_some());
            assert!(calls <= max_attempts as usize + 1);
            std::mem::forget(res);
        }
    };
}
fn st(code: u16) -> http::StatusCode { http::StatusCode::from_u16(code).unwrap_or(http::StatusCode::OK) }
probe!(p_concrete, |_s, c| Err(ProtocolError::HttpStatus(st(c))));
probe!(p_two, |s, c| if s { Ok(c as u32) } else { Err(ProtocolError::HttpStatus(st(c))) });
probe!(p_three, |s, c| if s { Ok(c as u32) } else if c == 777 { Err(ProtocolError::Timeout) } else { Err(ProtocolError::HttpStatus(st(c))) });

#[kani::proof]
#[kani::unwind(2)]
fn p_float1() {
    let initial = any_duration();
    let max = any_duration();
    let m = f64::from_bits(kani::any::<u64>());
    kani::assume(!(m < 0.0));
    kani::assume(max.as_secs() < TWO_POW_62);
    let b = spec_next_backoff(initial, m, max);
    if max.subsec_nanos() == 0 && max.as_secs() <= (1 << 53) {
        assert!(b <= max);
    }
}

#[kani::proof]
#[kani::unwind(2)]
fn p_jit1() {
    let mut delay = any_duration();
    kani::assume(delay.as_secs() < TWO_POW_62);
    let w: u64 = kani::any();
    let v12 = f64::from_bits((w >> 12) | (1023u64 << 52));
    let jitter = (v12 - 1.0) * 0.3 + 0.0;
    let jitter_ms = (delay.as_millis() as f64 * jitter) as u64;
    delay += Duration::from_millis(jitter_ms);
    assert!(delay.as_secs() < u64::MAX);
}
