use crate::c14_retry::*;
use crate::tracing_stubs::*;
use cascette_protocol::error::ProtocolError;
use cascette_protocol::retry::{RetryPolicy, verif_access as clock};
use std::time::Duration;

macro_rules! probe {
    ($name:ident, $mk:expr) => {
        #[kani::proof]
        #[kani::unwind(4)]
        #[kani::stub(tracing_core::callsite::DefaultCallsite::interest, interest_never)]
        #[kani::stub(tracing::__macro_support::__is_enabled, is_enabled_false)]
        #[kani::stub(tracing_core::event::Event::dispatch, dispatch_nop)]
        #[kani::stub(std::fmt::format, crate::stubs::fmt_format_empty)]
        #[kani::stub(rand::rngs::thread::rng, fake_thread_rng)]
        #[kani::stub(<rand::rngs::ThreadRng as rand::TryRng>::try_next_u64, fake_try_next_u64)]
        fn $name() {
            let max_attempts: u32 = kani::any();
            kani::assume(max_attempts <= 1);
            let initial = any_duration();
            let max = any_duration();
            let m = f64::from_bits(kani::any::<u64>());
            kani::assume(!(m < 0.0));
            kani::assume(max.as_secs() < TWO_POW_62);
            let sel: [bool; 3] = kani::any();
            let code: [u16; 3] = kani::any();
            kani::assume(code[0] >= 100 && code[0] <= 999 && code[1] >= 100 && code[1] <= 999 && code[2] >= 100 && code[2] <= 999);
            let policy = RetryPolicy { max_attempts, initial_backoff: initial, max_backoff: max, multiplier: m, jitter: false };
            clock::reset();
            let mut calls = 0usize;
            let fut = policy.execute(|| {
                let k = calls;
                calls += 1;
                assert!(k < 3);
                let f: fn(bool, u16) -> Result<u32, ProtocolError> = $mk;
                std::future::ready(f(sel[k % 3], code[k % 3]))
            });
            let res = block_on(fut, 2);
            assert!(res.is_some());
            assert!(calls <= max_attempts as usize + 1);
            std::mem::forget(res);
        }
    };
}
fn st(code: u16) -> http::StatusCode { http::StatusCode::from_u16(code).unwrap_or(http::StatusCode::OK) }
probe!(p_concrete, |_s, c| Err(ProtocolError::HttpStatus(st(c))));
probe!(p_two, |s, c| if s { Ok(c as u32) } else { Err(ProtocolError::HttpStatus(st(c))) });
probe!(p_three, |s, c| if s { Ok(c as u32) } else if c == 777 { Err(ProtocolError::Timeout) } else { Err(ProtocolError::HttpStatus(st(c))) });
