// Kani harnesses for cascette-protocol.
#![allow(dead_code, unused_imports, static_mut_refs)]

#[cfg(kani)]
#[path = "../../common/uf.rs"]
pub mod uf;
#[cfg(kani)]
#[path = "../../common/stubs.rs"]
pub mod stubs;
#[cfg(kani)]
#[path = "../../common/tracing_stubs.rs"]
pub mod tracing_stubs;

#[cfg(kani)]
mod c14_retry;


#[cfg(kani)]
mod c20_paths;

#[cfg(kani)]
mod c14_from_env;


#[cfg(kani)]
mod c14_retry_after;
