// C14 — RetryPolicy::execute: attempts bounded, stops at the first Ok / first non-retryable error,
// every failed attempt consumes budget, delays follow hint / clamped exponential back-off (+<=30% jitter).
//
// The real async state machine runs under a minimal executor (poll loop, noop waker).  Hook H2
// (cfg(kani) in retry.rs) routes `sleep(d)` to a recorder, so every requested delay is observed
// exactly (virtual clock).  The operation closure returns `core::future::ready(outcome[k])`.
use crate::tracing_stubs::*;
use cascette_protocol::error::ProtocolError;
use cascette_protocol::retry::{RetryPolicy, verif_access as clock};
use http::StatusCode;
use std::future::Future;
use std::task::{Context, Poll, Waker};
use std::time::Duration;

// ---- minimal executor -------------------------------------------------------------------------
pub fn block_on<F: Future>(f: F, budget: usize) -> Option<F::Output> {
    let mut f = std::pin::pin!(f);
    let mut cx = Context::from_waker(Waker::noop());
    let mut i = 0;
    while i < budget {
        if let Poll::Ready(v) = f.as_mut().poll(&mut cx) {
            return Some(v);
        }
        i += 1;
    }
    None
}

// ---- jitter source -----------------------------------------------------------------------------
// `rand::rng()` clones a thread-local Rc (TLS destructor: kani-compiler ICE).  It is replaced by a
// handle onto a static fake Rc header (strong count reset to 2 per call, so dropping the handle never
// frees), and the generator's 64-bit output by a word the harness drew up-front.  The real
// `random_range(0.0..0.3)` float sampling runs on top of that word.
#[repr(align(64))]
struct FakeRc([usize; 128]);
static mut FAKE_RC: FakeRc = FakeRc([0; 128]);
pub static mut JITTER_WORDS: [u64; 8] = [0; 8];
pub static mut JITTER_DRAWS: usize = 0;

pub fn fake_thread_rng() -> rand::rngs::ThreadRng {
    unsafe {
        FAKE_RC.0[0] = 2; // strong
        FAKE_RC.0[1] = 1; // weak
        std::mem::transmute::<*mut usize, rand::rngs::ThreadRng>(&raw mut FAKE_RC.0 as *mut usize)
    }
}
pub fn fake_try_next_u64(_r: &mut rand::rngs::ThreadRng) -> Result<u64, std::convert::Infallible> {
    unsafe {
        let k = JITTER_DRAWS;
        JITTER_DRAWS += 1;
        assert!(k < 8, "more jitter draws than recorder slots");
        Ok(JITTER_WORDS[if k < 8 { k } else { 0 }])
    }
}

// `ProtocolError::Http(reqwest::Error)` cannot be constructed without a live connection; its two
// predicates walk `dyn Error::source()` chains (hundreds of virtual-call candidates per step).
pub fn reqwest_pred_false(_e: &reqwest::Error) -> bool {
    false
}

// The drop glue of ProtocolError decodes the bit-packed io::Error representation (Network / Cache(Io)
// variants) through a 42-way `ErrorKind::from_prim`; it accounted for 55% of all symex steps.  No
// io::Error is ever constructed by the retry-loop harnesses, so the decoded kind is irrelevant.
pub fn error_kind_from_prim_other(_p: u32) -> Option<std::io::ErrorKind> {
    Some(std::io::ErrorKind::Other)
}

// ---- outcome alphabet -------------------------------------------------------------------------
pub const K_OK: u8 = 0;
pub const K_TIMEOUT: u8 = 1;
pub const K_UNAVAIL: u8 = 2;
pub const K_RATE_NONE: u8 = 3;
pub const K_RATE_HINT: u8 = 4;
pub const K_INVALID_KEY: u8 = 5;
pub const K_PARSE: u8 = 6;
pub const K_HTTP_STATUS: u8 = 7;
pub const K_SERVER_ERROR: u8 = 8;
pub const K_ALL_HOSTS: u8 = 9;
pub const K_RANGE: u8 = 10;
pub const N_KINDS: u8 = 11;

#[derive(Clone, Copy)]
pub struct Outcome {
    pub kind: u8,
    pub val: u32,       // Ok payload
    pub code: u16,      // HTTP status for kinds 7, 8
    pub hint: Duration, // Retry-After for kind 4
}

pub fn any_duration() -> Duration {
    let s: u64 = kani::any();
    let n: u32 = kani::any();
    kani::assume(n < 1_000_000_000);
    Duration::new(s, n)
}

pub fn any_outcome() -> Outcome {
    let kind: u8 = kani::any();
    kani::assume(kind < N_KINDS);
    let val: u32 = kani::any();
    let code: u16 = kani::any();
    kani::assume(code >= 100 && code <= 999);
    let hint = any_duration();
    Outcome { kind, val, code, hint }
}

fn status(code: u16) -> StatusCode {
    match StatusCode::from_u16(code) {
        Ok(s) => s,
        Err(_) => StatusCode::OK, // unreachable for 100..=999
    }
}

pub fn realise(o: Outcome) -> Result<u32, ProtocolError> {
    match o.kind {
        K_OK => Ok(o.val),
        K_TIMEOUT => Err(ProtocolError::Timeout),
        K_UNAVAIL => Err(ProtocolError::ServiceUnavailable),
        K_RATE_NONE => Err(ProtocolError::RateLimited { retry_after: None }),
        K_RATE_HINT => Err(ProtocolError::RateLimited { retry_after: Some(o.hint) }),
        K_INVALID_KEY => Err(ProtocolError::InvalidKey),
        K_PARSE => Err(ProtocolError::Parse(String::new())),
        K_HTTP_STATUS => Err(ProtocolError::HttpStatus(status(o.code))),
        K_SERVER_ERROR => Err(ProtocolError::ServerError(status(o.code))),
        K_ALL_HOSTS => Err(ProtocolError::AllHostsFailed),
        _ => Err(ProtocolError::RangeNotSupported),
    }
}

/// Documented classification (error.rs doc comments, docs/src/protocols/ribbit.md "Retry Logic"):
/// transient = timeouts, unavailable, rate-limited, server errors (5xx), HTTP 429/500/502/503/504;
/// everything else (parse / validation / client errors) is final.  Independent of `should_retry`.
pub fn spec_retryable(o: &Outcome) -> bool {
    match o.kind {
        K_TIMEOUT | K_UNAVAIL | K_RATE_NONE | K_RATE_HINT | K_SERVER_ERROR => true,
        K_HTTP_STATUS => o.code == 429 || o.code == 500 || o.code == 502 || o.code == 503 || o.code == 504,
        _ => false,
    }
}

/// Does the returned result equal outcome `o`?
pub fn same_result(r: &Result<u32, ProtocolError>, o: &Outcome) -> bool {
    match (r, o.kind) {
        (Ok(v), K_OK) => *v == o.val,
        (Err(ProtocolError::Timeout), K_TIMEOUT) => true,
        (Err(ProtocolError::ServiceUnavailable), K_UNAVAIL) => true,
        (Err(ProtocolError::RateLimited { retry_after: None }), K_RATE_NONE) => true,
        (Err(ProtocolError::RateLimited { retry_after: Some(h) }), K_RATE_HINT) => *h == o.hint,
        (Err(ProtocolError::InvalidKey), K_INVALID_KEY) => true,
        (Err(ProtocolError::Parse(_)), K_PARSE) => true,
        (Err(ProtocolError::HttpStatus(s)), K_HTTP_STATUS) => s.as_u16() == o.code,
        (Err(ProtocolError::ServerError(s)), K_SERVER_ERROR) => s.as_u16() == o.code,
        (Err(ProtocolError::AllHostsFailed), K_ALL_HOSTS) => true,
        (Err(ProtocolError::RangeNotSupported), K_RANGE) => true,
        _ => false,
    }
}

/// Specification of one back-off growth step: multiply and clamp to [0, max_backoff]; an undefined
/// product (NaN: NaN multiplier, 0 * inf) counts as "beyond the maximum", a negative one as zero.
pub fn spec_next_backoff(b: Duration, m: f64, max: Duration) -> Duration {
    let grown = b.as_secs_f64() * m;
    if grown.is_nan() {
        return max;
    }
    if grown <= 0.0 {
        return Duration::ZERO;
    }
    match Duration::try_from_secs_f64(grown) {
        Ok(d) if d < max => d,
        _ => max,
    }
}

pub const TWO_POW_62: u64 = 1 << 62;

/// Drive the real `execute` over the outcome sequence; returns (result, number of closure calls).
pub fn run<const N: usize>(policy: &RetryPolicy, outs: &[Outcome; N]) -> (Result<u32, ProtocolError>, usize) {
    clock::reset();
    let mut calls = 0usize;
    let fut = policy.execute(|| {
        let k = calls;
        calls += 1;
        // an (N+1)-th call would already violate calls <= max_attempts + 1 (N = bound + 2)
        assert!(k < N, "operation attempted more than max_attempts + 1 times");
        std::future::ready(realise(outs[if k < N { k } else { 0 }]))
    });
    let res = block_on(fut, 1);
    match res {
        Some(r) => (r, calls),
        None => {
            assert!(false, "execute still Pending after the poll budget (hang)");
            (Ok(0), calls)
        }
    }
}

// ---- classification table ---------------------------------------------------------------------
// @harness prop=C14 tier=quick timeout=300 role=should-retry-table
// @bounds every ProtocolError variant constructible without a live reqwest::Error (Network(io::ErrorKind symbolic over 6 kinds), Parse, Cache(Backend), AllHostsFailed, RateLimited{None|Some(any Duration)}, ServiceUnavailable, HttpStatus(100..=999 symbolic), ServerError(100..=999 symbolic), InvalidKey, InvalidEndpoint, RangeNotSupported, Timeout, Other, UnsupportedOnWasm)
// @encodes cascette_protocol::error::ProtocolError::should_retry, cascette_protocol::error::ProtocolError::retry_after_hint
// @assumes ProtocolError::Http(reqwest::Error) and Utf8(FromUtf8Error) are not constructed (no public constructor / heap content); strings are empty
// @catches a status code added to / dropped from the retryable set, a variant moved between the transient and final class, hint returned for the wrong variant or dropped
#[kani::proof]
#[kani::unwind(3)]
fn c14_should_retry_table() {
    let o = any_outcome();
    let extra: u8 = kani::any();
    kani::assume(extra < 6);
    let iok: u8 = kani::any();
    // variants outside the execute alphabet
    let (e, want_retry, want_hint): (ProtocolError, bool, Option<Duration>) = if o.kind == K_OK {
        match extra {
            0 => {
                let kind = match iok % 6 {
                    0 => std::io::ErrorKind::ConnectionReset,
                    1 => std::io::ErrorKind::ConnectionRefused,
                    2 => std::io::ErrorKind::TimedOut,
                    3 => std::io::ErrorKind::UnexpectedEof,
                    4 => std::io::ErrorKind::NotFound,
                    _ => std::io::ErrorKind::Other,
                };
                (ProtocolError::Network(std::io::Error::from(kind)), true, None)
            }
            1 => (ProtocolError::Cache(cascette_protocol::cache::CacheError::Backend(String::new())), false, None),
            2 => (ProtocolError::InvalidEndpoint(String::new()), false, None),
            3 => (ProtocolError::Other(String::new()), false, None),
            4 => (ProtocolError::UnsupportedOnWasm(String::new()), false, None),
            _ => (ProtocolError::Timeout, true, None),
        }
    } else {
        let e = match realise(o) {
            Err(e) => e,
            Ok(_) => ProtocolError::Timeout, // unreachable
        };
        (e, spec_retryable(&o), if o.kind == K_RATE_HINT { Some(o.hint) } else { None })
    };
    assert!(e.should_retry() == want_retry, "should_retry differs from the documented classification");
    assert!(e.retry_after_hint() == want_hint, "retry_after_hint must be exactly the RateLimited hint");
    kani::cover!(o.kind == K_HTTP_STATUS && o.code == 504 && want_retry, "HTTP 504 retryable");
    kani::cover!(o.kind == K_HTTP_STATUS && o.code == 404 && !want_retry, "HTTP 404 final");
    kani::cover!(o.kind == K_RATE_HINT && o.hint.as_secs() == 7, "hinted rate limit");
    std::mem::forget(e);
}

// ---- the retry loop, jitter off ---------------------------------------------------------------
// $init/$max/$m: expressions producing the policy (symbolic, or one point of the property's grid);
// $exact: also compare every un-hinted wait with the reference back-off sequence.  Only done for
// concrete policies: with symbolic Durations/multiplier the comparison is a miter of two f64
// multiply/convert circuits that the SAT back end does not finish (measured: > 25 min with a symbolic
// multiplier, > 15 min with a constant multiplier and symbolic Durations).
macro_rules! retry_loop_nojitter {
    ($name:ident, $maxa:expr, $unwind:expr, $init:expr, $max:expr, $m:expr, $exact:expr) => {
        #[kani::proof]
        #[kani::unwind($unwind)]
        #[kani::stub(tracing_core::callsite::DefaultCallsite::interest, interest_never)]
        #[kani::stub(tracing::__macro_support::__is_enabled, is_enabled_false)]
        #[kani::stub(tracing_core::event::Event::dispatch, dispatch_nop)]
        #[kani::stub(std::fmt::format, crate::stubs::fmt_format_empty)]
        #[kani::stub(rand::rngs::thread::rng, fake_thread_rng)]
        #[kani::stub(<rand::rngs::ThreadRng as rand::TryRng>::try_next_u64, fake_try_next_u64)]
        #[kani::stub(reqwest::Error::is_timeout, reqwest_pred_false)]
        #[kani::stub(reqwest::Error::is_connect, reqwest_pred_false)]
        #[kani::stub(std::io::ErrorKind::from_prim, error_kind_from_prim_other)]
        fn $name() {
            const MAXA: u32 = $maxa;
            const N: usize = MAXA as usize + 2;
            const EXACT: bool = $exact;
            let max_attempts: u32 = kani::any();
            kani::assume(max_attempts <= MAXA);
            let initial: Duration = $init;
            let max: Duration = $max;
            let m: f64 = $m;
            let mut outs = [Outcome { kind: 0, val: 0, code: 100, hint: Duration::ZERO }; N];
            let mut i = 0;
            while i < N {
                outs[i] = any_outcome();
                i += 1;
            }
            // no region restriction: any multiplier bit pattern, any Durations
            let policy = RetryPolicy { max_attempts, initial_backoff: initial, max_backoff: max, multiplier: m, jitter: false };

            let (res, calls) = run::<N>(&policy, &outs);

            // reference walk: which attempt ends the run
            let mut stop = N; // index of the final attempt
            let mut k = 0;
            while k < N {
                if stop == N {
                    let final_here = outs[k].kind == K_OK || !spec_retryable(&outs[k]) || k as u32 >= max_attempts;
                    if final_here {
                        stop = k;
                    }
                }
                k += 1;
            }
            assert!(stop < N, "reference: some attempt <= max_attempts is final");
            assert!(calls <= max_attempts as usize + 1, "more than max_attempts + 1 attempts");
            assert!(calls == stop + 1, "must stop exactly at the first Ok / first non-retryable error / exhausted budget");
            assert!(same_result(&res, &outs[stop]), "must return the result of the last attempt made");
            assert!(clock::count() == stop, "exactly one wait between consecutive attempts");

            let j: usize = kani::any();
            kani::assume(j < N - 1);
            if j < stop {
                let d = clock::get(j);
                if outs[j].kind == K_RATE_HINT {
                    assert!(d == outs[j].hint, "hinted wait must equal the Retry-After hint");
                } else {
                    if j == 0 {
                        assert!(d == if initial < max { initial } else { max }, "first un-hinted wait must be min(initial_backoff, max_backoff)");
                    }
                    assert!(d <= max, "un-hinted wait exceeds max_backoff");
                    if j >= 1 && m == 0.0 {
                        // min(backoff * 0, max) = 0 exactly; for a NEGATIVE multiplier "exponential growth" has
                        // no meaning and any wait <= max_backoff honours the statement (checked above)
                        assert!(d.is_zero(), "a zero multiplier must give a zero back-off after the first wait");
                    }
                }
            }
            if EXACT {
                // reference back-off sequence: grows on every failed attempt, hinted or not
                let mut b = if initial < max { initial } else { max };
                let mut k = 0;
                while k < N - 1 {
                    if k < stop {
                        if outs[k].kind != K_RATE_HINT {
                            assert!(clock::get(k) == b, "un-hinted wait must be min(initial * multiplier^k, max_backoff)");
                        }
                        b = spec_next_backoff(b, m, max);
                    }
                    k += 1;
                }
            }
            kani::cover!(calls == MAXA as usize + 1 && stop == MAXA as usize && outs[stop].kind != K_OK, "budget exhausted");
            kani::cover!(stop >= 1 && outs[stop].kind == K_OK, "success after a retry");
            kani::cover!(stop >= 1 && outs[0].kind == K_RATE_HINT, "hinted wait");
            std::mem::forget(res);
        }
    };
}

// @family prop=C14 tier=quick timeout=900 role=retry-loop-control
// @bounds max_attempts symbolic 0..=MAXA (name: a<MAXA>), outcome sequence of length MAXA+2 symbolic over {Ok(v), Timeout, ServiceUnavailable, RateLimited{None}, RateLimited{Some(any Duration)}, InvalidKey, Parse, HttpStatus(100..=999), ServerError(100..=999), AllHostsFailed, RangeNotSupported}; initial_backoff any Duration (incl. 0 and > max_backoff); max_backoff any Duration; multiplier ANY f64 bit pattern (NaN, +-inf, negative, -0.0, subnormals); jitter off
// @encodes cascette_protocol::retry::RetryPolicy::execute, cascette_protocol::retry::sleep, cascette_protocol::error::ProtocolError::should_retry, cascette_protocol::error::ProtocolError::retry_after_hint
// @assumes hook H2: retry::sleep records the delay instead of tokio::time::sleep; minimal executor (single poll, noop waker; Pending = hang = failure); tracing neutralised (3 stubs); fmt::format stubbed to empty; rand::rng / ThreadRng::try_next_u64 stubbed (not reached: jitter off); reqwest::Error::is_timeout/is_connect stubbed to false (ProtocolError::Http is never constructed); io::ErrorKind::from_prim stubbed (only reached from the drop glue of io::Error, which is never constructed)
// @catches attempt counter off by one (`>` vs `>=`), rate-limited attempts not consuming budget, retry after a non-retryable error / after Ok, wrong result returned (first instead of last error), hint ignored or applied to un-hinted errors, back-off not clamped / clamped with max instead of min, sleep dropped or doubled, waiting after the final attempt, panic for NaN / inf / negative / subnormal multipliers or huge Durations, first wait not clamped to max_backoff, negative product not mapped to zero
retry_loop_nojitter!(c14_retry_loop_control_a1, 1, 4, any_duration(), any_duration(), f64::from_bits(kani::any::<u64>()), false);
retry_loop_nojitter!(c14_retry_loop_control_a3, 3, 6, any_duration(), any_duration(), f64::from_bits(kani::any::<u64>()), false);
// @end

// @family prop=C14 tier=thorough timeout=3300 mem=24 role=retry-loop-control-deep
// @bounds as c14_retry_loop_control_a1 with max_attempts symbolic 0..=MAXA (a2: 0..=2, 4 outcomes; a5: 0..=5, 7 outcomes)
// @encodes cascette_protocol::retry::RetryPolicy::execute, cascette_protocol::retry::sleep, cascette_protocol::error::ProtocolError::should_retry, cascette_protocol::error::ProtocolError::retry_after_hint
// @assumes as c14_retry_loop_control_a1
retry_loop_nojitter!(c14_retry_loop_control_a2, 2, 5, any_duration(), any_duration(), f64::from_bits(kani::any::<u64>()), false);
retry_loop_nojitter!(c14_retry_loop_control_a5, 5, 8, any_duration(), any_duration(), f64::from_bits(kani::any::<u64>()), false);
// @end

const fn ms(n: u64) -> Duration {
    Duration::from_millis(n)
}
// @family prop=C14 tier=quick timeout=900 role=retry-loop-growth-grid
// @bounds max_attempts symbolic 0..=3, 5 outcomes symbolic over the full alphabet (hints any Duration), jitter off; policy = one concrete grid point per harness: default (100 ms, 10 s, x2), clamp (4 s, 10 s, x2: 4, 8, 10, 10), shrink (8 s, 10 s, x0.5), zero (0, 10 s, x2)
// @encodes cascette_protocol::retry::RetryPolicy::execute, cascette_protocol::retry::sleep
// @assumes as c14_retry_loop_control_a1; the reference back-off step is `b*m < max ? b*m : max` evaluated in f64 seconds and rounded to ns (the documented formula), iterated on every failed attempt (hinted or not)
// @catches multiplier dropped / applied twice / applied before the first wait, growth skipped on hinted attempts, clamp with max() instead of min(), clamp against initial instead of max_backoff, back-off reset between attempts
retry_loop_nojitter!(c14_retry_loop_growth_default, 3, 6, ms(100), ms(10_000), 2.0, true);
retry_loop_nojitter!(c14_retry_loop_growth_clamp, 3, 6, ms(4_000), ms(10_000), 2.0, true);
retry_loop_nojitter!(c14_retry_loop_growth_shrink, 3, 6, ms(8_000), ms(10_000), 0.5, true);
// (a NaN multiplier has no "exponential growth" to compare with: it is covered by the control harnesses —
// no panic, every wait <= max_backoff — and deliberately has no exact-sequence harness)
retry_loop_nojitter!(c14_retry_loop_growth_zero, 3, 6, ms(0), ms(10_000), 2.0, true);
// @end
// @family prop=C14 tier=thorough timeout=3300 mem=24 role=retry-loop-growth-grid-rest
// @bounds as c14_retry_loop_growth_default for further grid points: x1, x0 (collapses to 0), x10, x1e300 (huge -> clamp), +inf, x1.5 with fractional ns, initial > max (every wait = max), max_attempts 0..=5 with 7 outcomes for the default policy
// @encodes cascette_protocol::retry::RetryPolicy::execute, cascette_protocol::retry::sleep
// @assumes as c14_retry_loop_growth_default
retry_loop_nojitter!(c14_retry_loop_growth_m1, 3, 6, ms(250), ms(10_000), 1.0, true);
retry_loop_nojitter!(c14_retry_loop_growth_m0, 3, 6, ms(250), ms(10_000), 0.0, true);
retry_loop_nojitter!(c14_retry_loop_growth_m10, 3, 6, ms(250), ms(10_000), 10.0, true);
retry_loop_nojitter!(c14_retry_loop_growth_mhuge, 3, 6, ms(250), ms(10_000), 1e300, true);
retry_loop_nojitter!(c14_retry_loop_growth_minf, 3, 6, ms(250), ms(10_000), f64::INFINITY, true);
retry_loop_nojitter!(c14_retry_loop_growth_m15, 3, 6, Duration::new(0, 333_333_333), ms(10_000), 1.5, true);
retry_loop_nojitter!(c14_retry_loop_growth_init_gt_max, 3, 6, ms(20_000), ms(10_000), 2.0, true);
retry_loop_nojitter!(c14_retry_loop_growth_default_a5, 5, 8, ms(100), ms(10_000), 2.0, true);
// @end

// ---- regression harnesses for the four fixed defects (one input region each) ---------------------
// Two retryable failures, then Ok; max_attempts = 2; everything symbolic inside the region.
macro_rules! fixed_defect_harness {
    ($name:ident, $body:expr) => {
        #[kani::proof]
        #[kani::unwind(4)]
        #[kani::stub(tracing_core::callsite::DefaultCallsite::interest, interest_never)]
        #[kani::stub(tracing::__macro_support::__is_enabled, is_enabled_false)]
        #[kani::stub(tracing_core::event::Event::dispatch, dispatch_nop)]
        #[kani::stub(std::fmt::format, crate::stubs::fmt_format_empty)]
        #[kani::stub(rand::rngs::thread::rng, fake_thread_rng)]
        #[kani::stub(<rand::rngs::ThreadRng as rand::TryRng>::try_next_u64, fake_try_next_u64)]
        #[kani::stub(reqwest::Error::is_timeout, reqwest_pred_false)]
        #[kani::stub(reqwest::Error::is_connect, reqwest_pred_false)]
        #[kani::stub(std::io::ErrorKind::from_prim, error_kind_from_prim_other)]
        fn $name() {
            let initial = any_duration();
            let max = any_duration();
            let m = f64::from_bits(kani::any::<u64>());
            let jitter: bool = kani::any();
            let first = any_outcome();
            let second = any_outcome();
            let w: [u64; 2] = kani::any();
            kani::assume(first.kind != K_OK && spec_retryable(&first));
            kani::assume(second.kind != K_OK && spec_retryable(&second));
            let outs = [first, second, Outcome { kind: K_OK, val: 1, code: 100, hint: Duration::ZERO }];
            unsafe {
                JITTER_WORDS[0] = w[0];
                JITTER_WORDS[1] = w[1];
                JITTER_DRAWS = 0;
            }
            let f: fn(&Outcome, Duration, Duration, f64, bool) -> bool = $body;
            kani::assume(f(&first, initial, max, m, jitter));
            let policy = RetryPolicy { max_attempts: 2, initial_backoff: initial, max_backoff: max, multiplier: m, jitter };
            let (res, calls) = run::<3>(&policy, &outs); // reaching the end = no panic
            assert!(calls == 3 && same_result(&res, &outs[2]), "two retries, then the success is returned");
            assert!(clock::count() == 2, "two waits");
            let (d0, d1) = (clock::get(0), clock::get(1));
            let floor0 = if initial < max { initial } else { max };
            if first.kind == K_RATE_HINT {
                assert!(d0 >= first.hint, "hinted wait must not be shorter than the hint");
                assert!(jitter || d0 == first.hint, "hinted wait without jitter must equal the hint");
            } else {
                assert!(d0 >= floor0, "jitter must not shorten the first wait");
                assert!(jitter || d0 == floor0, "first wait must be min(initial_backoff, max_backoff)");
            }
            if second.kind != K_RATE_HINT && !jitter {
                assert!(d1 <= max, "second wait exceeds max_backoff");
                if m == 0.0 {
                    assert!(d1.is_zero(), "a zero multiplier must give a zero back-off after the first wait");
                }
            }
            if second.kind == K_RATE_HINT {
                assert!(d1 >= second.hint, "hinted wait must not be shorter than the hint");
            }
            // (covers over the second failure only: the regions constrain the first one)
            kani::cover!(second.kind == K_RATE_HINT, "second failure hinted");
            kani::cover!(second.kind != K_RATE_HINT, "second failure un-hinted");
            std::mem::forget(res);
        }
    };
}

// @family prop=C14 tier=quick timeout=900 role=fixed-defect-regressions
// @bounds two retryable failures (kinds, codes, hints symbolic) then Ok, max_attempts = 2; initial_backoff / max_backoff any Duration, multiplier any f64 bit pattern, jitter symbolic (two generator words symbolic), restricted per harness to the region of one formerly panicking / unclamped input class: negative_multiplier: m < 0 (incl. -inf), jitter off; max_backoff_overflow: max_backoff >= 2^64-1024 s, jitter off; initial_exceeds_max: initial_backoff > max_backoff, first failure un-hinted, jitter off; jitter_overflow: jitter on, first failure hinted with Retry-After >= 2^63 s
// @encodes cascette_protocol::retry::RetryPolicy::execute, cascette_protocol::retry::sleep
// @assumes as c14_retry_loop_control_a1 (no std arithmetic is stubbed: a panic in Duration::from_secs_f64 / Duration addition fails the harness); the 30% jitter bound itself is checked by the c14_retry_jitter_* harnesses
// @catches reintroduced panics (Duration::from_secs_f64 on a negative / NaN / too large product, `delay += jitter` overflow), first wait not clamped to max_backoff, negative product not mapped to a zero back-off, jitter shortening a wait
fixed_defect_harness!(c14_kf_negative_multiplier, |_o, _i, _mx, m, j| m < 0.0 && !j);
fixed_defect_harness!(c14_kf_max_backoff_overflow, |_o, _i, mx, _m, j| !j && mx.as_secs() >= u64::MAX - 1023);
fixed_defect_harness!(c14_kf_initial_exceeds_max, |o, i, mx, _m, j| !j && i > mx && o.kind != K_RATE_HINT);
fixed_defect_harness!(c14_kf_jitter_overflow, |o, _i, _mx, _m, j| j && o.kind == K_RATE_HINT && o.hint.as_secs() >= (1 << 63));
// @end

// ---- jitter -----------------------------------------------------------------------------------
// One retry with jitter on.  The generator word is drawn by the harness; the real
// `random_range(0.0..0.3)` float sampling and the real `(ms as f64 * jitter) as u64` run on it.
// Bound checked in exact integer arithmetic: extra_ms * 10 <= base_ms * 3 (base < 2^31 s keeps
// `ms as f64` exact, so no rounding slack is needed).
macro_rules! retry_jitter {
    ($name:ident, $word:expr, $bits:expr, $fixed:expr) => {
        #[kani::proof]
        #[kani::unwind(3)]
        #[kani::stub(tracing_core::callsite::DefaultCallsite::interest, interest_never)]
        #[kani::stub(tracing::__macro_support::__is_enabled, is_enabled_false)]
        #[kani::stub(tracing_core::event::Event::dispatch, dispatch_nop)]
        #[kani::stub(std::fmt::format, crate::stubs::fmt_format_empty)]
        #[kani::stub(rand::rngs::thread::rng, fake_thread_rng)]
        #[kani::stub(<rand::rngs::ThreadRng as rand::TryRng>::try_next_u64, fake_try_next_u64)]
        #[kani::stub(reqwest::Error::is_timeout, reqwest_pred_false)]
        #[kani::stub(reqwest::Error::is_connect, reqwest_pred_false)]
        #[kani::stub(std::io::ErrorKind::from_prim, error_kind_from_prim_other)]
        fn $name() {
            let mut initial = any_duration();
            let mut first = any_outcome();
            let w: u64 = $word;
            if $fixed {
                // concrete base waits (1 s back-off, 10 s hint), generator word symbolic
                initial = Duration::from_secs(1);
                first.hint = Duration::from_secs(10);
            }
            kani::assume(first.kind != K_OK && spec_retryable(&first));
            kani::assume(initial.as_secs() < (1 << $bits) && first.hint.as_secs() < (1 << $bits));
            let outs = [first, Outcome { kind: K_OK, val: 7, code: 100, hint: Duration::ZERO }];
            unsafe {
                JITTER_WORDS[0] = w;
                JITTER_DRAWS = 0;
            }
            let policy = RetryPolicy { max_attempts: 1, initial_backoff: initial, max_backoff: Duration::from_secs(1 << 31), multiplier: 2.0, jitter: true };
            let (res, calls) = run::<2>(&policy, &outs);
            assert!(calls == 2 && same_result(&res, &outs[1]), "one retry, then the success is returned");
            assert!(clock::count() == 1, "exactly one wait");
            assert!(unsafe { JITTER_DRAWS } == 1, "exactly one jitter draw per wait");
            let base = if first.kind == K_RATE_HINT { first.hint } else { initial };
            let d = clock::get(0);
            assert!(d >= base, "jitter must not shorten the wait");
            let extra = d - base;
            assert!(extra.subsec_nanos() % 1_000_000 == 0, "jitter is a whole number of milliseconds");
            let extra_ms = extra.as_millis();
            let base_ms = base.as_millis();
            assert!(extra_ms * 10 <= base_ms * 3, "jitter exceeds 30% of the wait");
            kani::cover!(extra_ms > 0 && first.kind == K_RATE_HINT, "non-zero jitter on a hinted wait");
            kani::cover!(extra_ms * 10 + 20 > base_ms * 3 && base_ms >= 1000, "jitter close to the 30% bound");
            std::mem::forget(res);
        }
    };
}
// @family prop=C14 tier=quick timeout=900 replay=none role=retry-jitter-fixed-base
// @bounds one retryable failure (kind symbolic; hinted or not) then Ok, max_attempts = 1, jitter on; base wait concrete (initial_backoff 1 s, Retry-After hint 10 s); generator word fully symbolic (every possible draw of random_range(0.0..0.3))
// @encodes cascette_protocol::retry::RetryPolicy::execute, rand::RngExt::random_range, rand::distr::uniform::UniformFloat::sample_single_inclusive
// @assumes as c14_retry_loop_control_a1; rand::rng replaced by a handle on a static fake Rc, ThreadRng::try_next_u64 returns the harness-drawn word (native replay would use the real generator: replay=none)
// @catches jitter range widened (0.0..0.5), jitter applied twice or to the hint only / back-off only, jitter subtracted, seconds/milliseconds mixed up in the jitter computation, jitter drawn but not added
retry_jitter!(c14_retry_jitter_fixed_base, kani::any::<u64>(), 31, true);
// @end
// @family prop=C14 tier=thorough timeout=3300 mem=24 replay=none role=retry-jitter-max-draw
// @bounds as c14_retry_jitter_fixed_base but base wait (initial_backoff or hint) any Duration < 2^10 s (b10) and the generator word fixed to the largest draw (all ones -> jitter factor next to 0.3)
// @encodes cascette_protocol::retry::RetryPolicy::execute, rand::RngExt::random_range
// @assumes as c14_retry_jitter_fixed_base; a symbolic base together with a symbolic draw is a 53x53-bit multiplier inequality the SAT back end does not finish (measured: > 15 min with 12 symbolic draw bits; base < 2^31 s with the fixed draw > 11 min)
retry_jitter!(c14_retry_jitter_max_b10, u64::MAX, 10, false);
// @end
