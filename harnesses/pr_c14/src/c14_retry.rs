// C14 — RetryPolicy::execute: attempts bounded, stops at the first Ok / first non-retryable error,
// every failed attempt consumes budget, delays follow hint / clamped exponential back-off (+<=30% jitter).
//
// The real async state machine runs under a minimal executor (poll loop, noop waker).  Hook H2
// (cfg(kani) in retry.rs) routes `sleep(d)` to a recorder, so every requested delay is observed
// exactly (virtual clock).  The operation closure returns `core::future::ready(outcome[k])`.
use crate::tracing_stubs::*;
use cascette_protocol::error::ProtocolError;
use cascette_protocol::retry::{RetryPolicy, verif_access as clock};
use http::StatusCode;
use std::future::Future;
use std::task::{Context, Poll, Waker};
use std::time::Duration;

// ---- minimal executor -------------------------------------------------------------------------
pub fn block_on<F: Future>(f: F, budget: usize) -> Option<F::Output> {
    let mut f = std::pin::pin!(f);
    let mut cx = Context::from_waker(Waker::noop());
    let mut i = 0;
    while i < budget {
        if let Poll::Ready(v) = f.as_mut().poll(&mut cx) {
            return Some(v);
        }
        i += 1;
    }
    None
}

// ---- jitter source -----------------------------------------------------------------------------
// `rand::rng()` clones a thread-local Rc (TLS destructor: kani-compiler ICE).  It is replaced by a
// handle onto a static fake Rc header (strong count reset to 2 per call, so dropping the handle never
// frees), and the generator's 64-bit output by a word the harness drew up-front.  The real
// `random_range(0.0..0.3)` float sampling runs on top of that word.
#[repr(align(64))]
struct FakeRc([usize; 128]);
static mut FAKE_RC: FakeRc = FakeRc([0; 128]);
pub static mut JITTER_WORDS: [u64; 8] = [0; 8];
pub static mut JITTER_DRAWS: usize = 0;

pub fn fake_thread_rng() -> rand::rngs::ThreadRng {
    unsafe {
        FAKE_RC.0[0] = 2; // strong
        FAKE_RC.0[1] = 1; // weak
        std::mem::transmute::<*mut usize, rand::rngs::ThreadRng>(&raw mut FAKE_RC.0 as *mut usize)
    }
}
pub fn fake_try_next_u64(_r: &mut rand::rngs::ThreadRng) -> Result<u64, std::convert::Infallible> {
    unsafe {
        let k = JITTER_DRAWS;
        JITTER_DRAWS += 1;
        assert!(k < 8, "more jitter draws than recorder slots");
        Ok(JITTER_WORDS[if k < 8 { k } else { 0 }])
    }
}

// ---- outcome alphabet -------------------------------------------------------------------------
pub const K_OK: u8 = 0;
pub const K_TIMEOUT: u8 = 1;
pub const K_UNAVAIL: u8 = 2;
pub const K_RATE_NONE: u8 = 3;
pub const K_RATE_HINT: u8 = 4;
pub const K_INVALID_KEY: u8 = 5;
pub const K_PARSE: u8 = 6;
pub const K_HTTP_STATUS: u8 = 7;
pub const K_SERVER_ERROR: u8 = 8;
pub const K_ALL_HOSTS: u8 = 9;
pub const K_RANGE: u8 = 10;
pub const N_KINDS: u8 = 11;

#[derive(Clone, Copy)]
pub struct Outcome {
    pub kind: u8,
    pub val: u32,       // Ok payload
    pub code: u16,      // HTTP status for kinds 7, 8
    pub hint: Duration, // Retry-After for kind 4
}

pub fn any_duration() -> Duration {
    let s: u64 = kani::any();
    let n: u32 = kani::any();
    kani::assume(n < 1_000_000_000);
    Duration::new(s, n)
}

pub fn any_outcome() -> Outcome {
    let kind: u8 = kani::any();
    kani::assume(kind < N_KINDS);
    let val: u32 = kani::any();
    let code: u16 = kani::any();
    kani::assume(code >= 100 && code <= 999);
    let hint = any_duration();
    Outcome { kind, val, code, hint }
}

fn status(code: u16) -> StatusCode {
    match StatusCode::from_u16(code) {
        Ok(s) => s,
        Err(_) => StatusCode::OK, // unreachable for 100..=999
    }
}

pub fn realise(o: Outcome) -> Result<u32, ProtocolError> {
    match o.kind {
        K_OK => Ok(o.val),
        K_TIMEOUT => Err(ProtocolError::Timeout),
        K_UNAVAIL => Err(ProtocolError::ServiceUnavailable),
        K_RATE_NONE => Err(ProtocolError::RateLimited { retry_after: None }),
        K_RATE_HINT => Err(ProtocolError::RateLimited { retry_after: Some(o.hint) }),
        K_INVALID_KEY => Err(ProtocolError::InvalidKey),
        K_PARSE => Err(ProtocolError::Parse(String::new())),
        K_HTTP_STATUS => Err(ProtocolError::HttpStatus(status(o.code))),
        K_SERVER_ERROR => Err(ProtocolError::ServerError(status(o.code))),
        K_ALL_HOSTS => Err(ProtocolError::AllHostsFailed),
        _ => Err(ProtocolError::RangeNotSupported),
    }
}

/// Documented classification (error.rs doc comments, docs/src/protocols/ribbit.md "Retry Logic"):
/// transient = timeouts, unavailable, rate-limited, server errors (5xx), HTTP 429/500/502/503/504;
/// everything else (parse / validation / client errors) is final.  Independent of `should_retry`.
pub fn spec_retryable(o: &Outcome) -> bool {
    match o.kind {
        K_TIMEOUT | K_UNAVAIL | K_RATE_NONE | K_RATE_HINT | K_SERVER_ERROR => true,
        K_HTTP_STATUS => o.code == 429 || o.code == 500 || o.code == 502 || o.code == 503 || o.code == 504,
        _ => false,
    }
}

/// Does the returned result equal outcome `o`?
pub fn same_result(r: &Result<u32, ProtocolError>, o: &Outcome) -> bool {
    match (r, o.kind) {
        (Ok(v), K_OK) => *v == o.val,
        (Err(ProtocolError::Timeout), K_TIMEOUT) => true,
        (Err(ProtocolError::ServiceUnavailable), K_UNAVAIL) => true,
        (Err(ProtocolError::RateLimited { retry_after: None }), K_RATE_NONE) => true,
        (Err(ProtocolError::RateLimited { retry_after: Some(h) }), K_RATE_HINT) => *h == o.hint,
        (Err(ProtocolError::InvalidKey), K_INVALID_KEY) => true,
        (Err(ProtocolError::Parse(_)), K_PARSE) => true,
        (Err(ProtocolError::HttpStatus(s)), K_HTTP_STATUS) => s.as_u16() == o.code,
        (Err(ProtocolError::ServerError(s)), K_SERVER_ERROR) => s.as_u16() == o.code,
        (Err(ProtocolError::AllHostsFailed), K_ALL_HOSTS) => true,
        (Err(ProtocolError::RangeNotSupported), K_RANGE) => true,
        _ => false,
    }
}

/// Specification of one back-off growth step: multiply, clamp to the maximum; an undefined product
/// (NaN: NaN multiplier, 0 * inf) counts as "beyond the maximum".
pub fn spec_next_backoff(b: Duration, m: f64, max: Duration) -> Duration {
    let grown = b.as_secs_f64() * m;
    let cap = max.as_secs_f64();
    if grown < cap { Duration::from_secs_f64(grown) } else { Duration::from_secs_f64(cap) }
}

pub const TWO_POW_62: u64 = 1 << 62;

/// Drive the real `execute` over the outcome sequence; returns (result, number of closure calls).
pub fn run<const N: usize>(policy: &RetryPolicy, outs: &[Outcome; N]) -> (Result<u32, ProtocolError>, usize) {
    clock::reset();
    let mut calls = 0usize;
    let fut = policy.execute(|| {
        let k = calls;
        calls += 1;
        // an (N+1)-th call would already violate calls <= max_attempts + 1 (N = bound + 2)
        assert!(k < N, "operation attempted more than max_attempts + 1 times");
        std::future::ready(realise(outs[if k < N { k } else { 0 }]))
    });
    let res = block_on(fut, 2);
    match res {
        Some(r) => (r, calls),
        None => {
            assert!(false, "execute still Pending after the poll budget (hang)");
            (Ok(0), calls)
        }
    }
}

// ---- classification table ---------------------------------------------------------------------
// @harness prop=C14 tier=quick timeout=300 role=should-retry-table
// @bounds every ProtocolError variant constructible without a live reqwest::Error (Network(io::ErrorKind symbolic over 6 kinds), Parse, Cache(Backend), AllHostsFailed, RateLimited{None|Some(any Duration)}, ServiceUnavailable, HttpStatus(100..=999 symbolic), ServerError(100..=999 symbolic), InvalidKey, InvalidEndpoint, RangeNotSupported, Timeout, Other, UnsupportedOnWasm)
// @encodes cascette_protocol::error::ProtocolError::should_retry, cascette_protocol::error::ProtocolError::retry_after_hint
// @assumes ProtocolError::Http(reqwest::Error) and Utf8(FromUtf8Error) are not constructed (no public constructor / heap content); strings are empty
// @catches a status code added to / dropped from the retryable set, a variant moved between the transient and final class, hint returned for the wrong variant or dropped
#[kani::proof]
#[kani::unwind(3)]
fn c14_should_retry_table() {
    let o = any_outcome();
    let extra: u8 = kani::any();
    kani::assume(extra < 6);
    let iok: u8 = kani::any();
    // variants outside the execute alphabet
    let (e, want_retry, want_hint): (ProtocolError, bool, Option<Duration>) = if o.kind == K_OK {
        match extra {
            0 => {
                let kind = match iok % 6 {
                    0 => std::io::ErrorKind::ConnectionReset,
                    1 => std::io::ErrorKind::ConnectionRefused,
                    2 => std::io::ErrorKind::TimedOut,
                    3 => std::io::ErrorKind::UnexpectedEof,
                    4 => std::io::ErrorKind::NotFound,
                    _ => std::io::ErrorKind::Other,
                };
                (ProtocolError::Network(std::io::Error::from(kind)), true, None)
            }
            1 => (ProtocolError::Cache(cascette_protocol::cache::CacheError::Backend(String::new())), false, None),
            2 => (ProtocolError::InvalidEndpoint(String::new()), false, None),
            3 => (ProtocolError::Other(String::new()), false, None),
            4 => (ProtocolError::UnsupportedOnWasm(String::new()), false, None),
            _ => (ProtocolError::Timeout, true, None),
        }
    } else {
        let e = match realise(o) {
            Err(e) => e,
            Ok(_) => ProtocolError::Timeout, // unreachable
        };
        (e, spec_retryable(&o), if o.kind == K_RATE_HINT { Some(o.hint) } else { None })
    };
    assert!(e.should_retry() == want_retry, "should_retry differs from the documented classification");
    assert!(e.retry_after_hint() == want_hint, "retry_after_hint must be exactly the RateLimited hint");
    kani::cover!(o.kind == K_HTTP_STATUS && o.code == 504 && want_retry, "HTTP 504 retryable");
    kani::cover!(o.kind == K_HTTP_STATUS && o.code == 404 && !want_retry, "HTTP 404 final");
    kani::cover!(o.kind == K_RATE_HINT && o.hint.as_secs() == 7, "hinted rate limit");
    std::mem::forget(e);
}

// ---- the retry loop, jitter off ---------------------------------------------------------------
macro_rules! retry_loop_nojitter {
    ($name:ident, $maxa:expr, $unwind:expr) => {
        #[kani::proof]
        #[kani::unwind($unwind)]
        #[kani::stub(tracing_core::callsite::DefaultCallsite::interest, interest_never)]
        #[kani::stub(tracing::__macro_support::__is_enabled, is_enabled_false)]
        #[kani::stub(tracing_core::event::Event::dispatch, dispatch_nop)]
        #[kani::stub(std::fmt::format, crate::stubs::fmt_format_empty)]
        #[kani::stub(rand::rngs::thread::rng, fake_thread_rng)]
        #[kani::stub(<rand::rngs::ThreadRng as rand::TryRng>::try_next_u64, fake_try_next_u64)]
        fn $name() {
            const MAXA: u32 = $maxa;
            const N: usize = MAXA as usize + 2;
            let max_attempts: u32 = kani::any();
            kani::assume(max_attempts <= MAXA);
            let initial = any_duration();
            let max = any_duration();
            let m = f64::from_bits(kani::any::<u64>());
            let mut outs = [Outcome { kind: 0, val: 0, code: 100, hint: Duration::ZERO }; N];
            let mut i = 0;
            while i < N {
                outs[i] = any_outcome();
                i += 1;
            }
            // Documented-configuration region of this harness (the complement is examined by the
            // c14_kf_* harnesses): multiplier not negative (NaN, +inf, -0.0, subnormals included);
            // max_backoff below 2^62 s.  initial_backoff is unconstrained (incl. > max_backoff, 0).
            kani::assume(!(m < 0.0));
            kani::assume(max.as_secs() < TWO_POW_62);
            let policy = RetryPolicy { max_attempts, initial_backoff: initial, max_backoff: max, multiplier: m, jitter: false };

            let (res, calls) = run::<N>(&policy, &outs);

            // reference walk: which attempt ends the run
            let mut stop = N; // index of the final attempt
            let mut k = 0;
            while k < N {
                if stop == N {
                    let final_here = outs[k].kind == K_OK || !spec_retryable(&outs[k]) || k as u32 >= max_attempts;
                    if final_here {
                        stop = k;
                    }
                }
                k += 1;
            }
            assert!(stop < N, "reference: some attempt <= max_attempts is final");
            assert!(calls <= max_attempts as usize + 1, "more than max_attempts + 1 attempts");
            assert!(calls == stop + 1, "must stop exactly at the first Ok / first non-retryable error / exhausted budget");
            assert!(same_result(&res, &outs[stop]), "must return the result of the last attempt made");
            assert!(clock::count() == stop, "exactly one wait between consecutive attempts");

            // delays: reference back-off sequence (grows on every failed attempt, hinted or not)
            let mut base = [Duration::ZERO; N];
            let mut b = initial;
            let mut k = 0;
            while k < N - 1 {
                base[k] = b;
                if k < stop {
                    b = spec_next_backoff(b, m, max);
                }
                k += 1;
            }
            let j: usize = kani::any();
            kani::assume(j < N - 1);
            if j < stop {
                let d = clock::get(j);
                if outs[j].kind == K_RATE_HINT {
                    assert!(d == outs[j].hint, "hinted wait must equal the Retry-After hint");
                } else {
                    assert!(d == base[j], "un-hinted wait must be min(initial * multiplier^k, max_backoff)");
                    if j >= 1 && max.subsec_nanos() == 0 && max.as_secs() <= (1 << 53) {
                        assert!(d <= max, "wait exceeds max_backoff");
                    }
                    if j == 0 && initial > max {
                        // KF (reported): the first wait is initial_backoff even when it exceeds max_backoff
                    } else if j == 0 {
                        assert!(d <= max, "first wait exceeds max_backoff");
                    }
                }
            }
            kani::cover!(calls == MAXA as usize + 1 && stop == MAXA as usize && outs[stop].kind != K_OK, "budget exhausted");
            kani::cover!(stop >= 1 && outs[stop].kind == K_OK, "success after a retry");
            kani::cover!(stop >= 1 && outs[0].kind == K_RATE_HINT && m.is_nan(), "hinted wait, NaN multiplier");
            std::mem::forget(res);
        }
    };
}

// @family prop=C14 tier=quick timeout=900 role=retry-loop-nojitter
// @bounds max_attempts symbolic 0..=MAXA (name: a<MAXA>), outcome sequence of length MAXA+2 symbolic over {Ok(v), Timeout, ServiceUnavailable, RateLimited{None}, RateLimited{Some(any Duration)}, InvalidKey, Parse, HttpStatus(100..=999), ServerError(100..=999), AllHostsFailed, RangeNotSupported}; initial_backoff any Duration (incl. 0 and > max_backoff); max_backoff any Duration < 2^62 s; multiplier any f64 bit pattern that is not < 0 (NaN, +inf, -0.0, subnormals included); jitter off
// @encodes cascette_protocol::retry::RetryPolicy::execute, cascette_protocol::error::ProtocolError::should_retry, cascette_protocol::error::ProtocolError::retry_after_hint
// @assumes hook H2: retry::sleep records the delay instead of tokio::time::sleep; minimal executor (poll budget 2, noop waker); tracing neutralised (3 stubs); fmt::format stubbed to empty; region: multiplier not negative and max_backoff < 2^62 s (complement: c14_kf_* harnesses)
// @catches attempt counter off by one (`>` vs `>=`), rate-limited attempts not consuming budget, retry after a non-retryable error / after Ok, wrong result returned (first instead of last error), hint ignored or applied to un-hinted errors, back-off not clamped / clamped with max instead of min / multiplier dropped / growth skipped on hinted attempts, sleep dropped or doubled, waiting after the final attempt
retry_loop_nojitter!(c14_retry_loop_nojitter_a2, 2, 5);
// @end
