// C14 — the server's Retry-After hint: `parse_retry_after` (cdn/mod.rs) on a real reqwest::Response.
//
// The response is built concretely (http::Response -> reqwest::Response, the conversion reqwest
// documents for tests); only the header VALUE bytes and their length are symbolic.  Oracle = a
// reference decimal parser written here: the hint is Some(n seconds) exactly for a decimal integer
// (Rust's u64::from_str also admits one leading '+', which the oracle tolerates but does not demand),
// and None for everything else — a hint that is present but unparsable must not become a zero delay,
// because RetryPolicy::execute lets any Some(hint) override the computed exponential backoff.
use cascette_protocol::cdn::verif_access as cdn;
use std::time::Duration;

fn ref_decimal(s: &[u8]) -> Option<u64> {
    if s.is_empty() {
        return None;
    }
    let mut v: u64 = 0;
    let mut i = 0;
    while i < s.len() {
        let c = s[i];
        if !(b'0'..=b'9').contains(&c) {
            return None;
        }
        v = v.checked_mul(10)?.checked_add((c - b'0') as u64)?;
        i += 1;
    }
    Some(v)
}

/// Stand-in for `Url::parse("http://no.url.provided.local")` inside `reqwest::Response::from`: the URL a
/// hand-built response carries is never read by header parsing, and the real parser (idna tables)
/// needs loop bounds that make the whole harness time out (measured: 900 s at unwind 32).  The value is
/// a byte pattern that is a valid inhabitant of every field (non-null pointers, small enum tags); it
/// is never read and never dropped (the response is forgotten).
fn url_parse_placeholder(_input: &str) -> Result<url::Url, url::ParseError> {
    let mut u = std::mem::MaybeUninit::<url::Url>::uninit();
    unsafe {
        std::ptr::write_bytes(u.as_mut_ptr() as *mut u8, 1, std::mem::size_of::<url::Url>());
        Ok(u.assume_init())
    }
}

macro_rules! retry_after_hint {
    ($name:ident, $n:expr, $unwind:expr) => {
        #[kani::proof]
        #[kani::unwind($unwind)]
        #[kani::stub(url::Url::parse, url_parse_placeholder)]
        fn $name() {
            const N: usize = $n;
            let raw: [u8; N] = kani::any();
            let len: usize = kani::any();
            kani::assume(len <= N);
            let value = &raw[..len];
            let hv = match http::HeaderValue::from_bytes(value) {
                Ok(h) => h,
                Err(_) => return, // bytes no HTTP stack delivers as a header value
            };
            let mut r = http::Response::new(reqwest::Body::from(""));
            r.headers_mut().insert(http::header::RETRY_AFTER, hv);
            let resp = reqwest::Response::from(r);
            let got = cdn::parse_retry_after(&resp);
            let want = ref_decimal(value);
            kani::cover!(got.is_some(), "a hint is recognised");
            kani::cover!(got.is_none() && len > 0, "a non-numeric value is ignored");
            match (got, want) {
                (Some(d), Some(n)) => assert!(d == Duration::from_secs(n), "hint differs from the header's decimal value"),
                (None, Some(_)) => assert!(false, "decimal Retry-After value ignored"),
                (Some(d), None) => {
                    // the only other spelling u64::from_str admits: one leading '+'
                    let plus = len >= 2 && value[0] == b'+';
                    let rest = if plus { ref_decimal(&value[1..]) } else { None };
                    assert!(rest.is_some(), "unparsable Retry-After value became a delay hint");
                    assert!(Some(d.as_secs()) == rest && d.subsec_nanos() == 0, "hint differs from the header's decimal value");
                }
                (None, None) => {}
            }
            std::mem::forget(resp);
        }
    };
}

// @family prop=C14 tier=quick timeout=900 role=retry-after-hint-parse
// @bounds Retry-After header value of symbolic length 0..=N bytes (name: le<N>), all bytes symbolic; response otherwise concrete (status 200, empty body, no other headers)
// @encodes cascette_protocol::cdn::parse_retry_after
// @assumes url::Url::parse (called by reqwest::Response::from for the placeholder URL of a hand-built response) stubbed to return an unread, never-dropped placeholder; values http::HeaderValue::from_bytes rejects (control bytes) are skipped: no HTTP stack delivers them; 20-digit values (u64 overflow) are outside the length bound
// @catches unparsable hint mapped to a zero/default delay instead of None, hint scaled or truncated (ms vs s), trimming/sign handling that changes the value
retry_after_hint!(c14_retry_after_hint_le3, 3, 10);
retry_after_hint!(c14_retry_after_hint_le6, 6, 10);
// @end

// NOT REGISTERED (measured in the follow-up session: N = 20 / unwind 24, which would reach the 20-digit
// u64-overflow region, was still in the SAT solver after 800 s at 6.8 GB; not validated, so not claimed):
// retry_after_hint!(c14_retry_after_hint_le20, 20, 24);
