// C07 — V1 Ribbit responses: the checksum line that is honoured is the LAST "Checksum: " line of
// the response and the protected region is exactly the bytes before it.  (The SHA-256 comparison
// itself and the MIME structure parsing — mail-parser — are outside.)
use cascette_protocol::mime_parser::verif_access::extract_checksum;

const P: usize = 10; // payload bytes (symbolic: may itself be the text "Checksum: ")
const TRAILER: &[u8; 75] = b"Checksum: 00112233445566778899aabbccddeeff00112233445566778899aabbccddeeff\n";

macro_rules! mime_h {
    ($name:ident, $crlf:expr) => {
#[kani::proof]
#[kani::unwind(80)]
#[kani::stub(tracing_core::callsite::DefaultCallsite::interest, crate::tracing_stubs::interest_never)]
#[kani::stub(tracing::__macro_support::__is_enabled, crate::tracing_stubs::is_enabled_false)]
#[kani::stub(tracing_core::event::Event::dispatch, crate::tracing_stubs::dispatch_nop)]
fn $name() {
    let payload: [u8; P] = kani::any();
    let crlf: bool = $crlf;
    let mut raw = [0u8; P + 76];
    let mut i = 0;
    while i < P {
        raw[i] = payload[i];
        i += 1;
    }
    let mut j = 0;
    while j < 74 {
        raw[P + j] = TRAILER[j];
        j += 1;
    }
    let n = if crlf {
        raw[P + 74] = b'\r';
        raw[P + 75] = b'\n';
        P + 76
    } else {
        raw[P + 74] = b'\n';
        P + 75
    };
    let (msg, sum) = extract_checksum(&raw[..n]);
    assert!(msg.len() == P, "the protected region must be exactly the bytes before the last checksum line");
    let k: usize = kani::any();
    kani::assume(k < P);
    assert!(msg[k] == payload[k], "protected bytes altered");
    match &sum {
        None => assert!(false, "a well-formed trailing checksum line was not recognised (validation would be skipped)"),
        Some(s) => {
            assert!(s.len() == 64, "checksum must be the 64 hex digits of the last line");
            let q: usize = kani::any();
            kani::assume(q < 64);
            assert!(s.as_bytes()[q] == TRAILER[10 + q], "checksum digits differ from the last line's");
        }
    }
    kani::cover!(payload[0] == b'C' && payload[9] == b' ', "payload starting like a checksum line");
    std::mem::forget(sum);
}
    };
}
// @family prop=C07 tier=quick timeout=900 role=mime-checksum-line-selection
// @bounds response = 10 symbolic payload bytes (any content, incl. the text "Checksum: " followed by junk) + a well-formed trailing checksum line (concrete 64 hex digits), LF or CRLF per harness
// @encodes cascette_protocol::mime_parser::extract_checksum
// @assumes tracing neutralised; SHA-256 comparison (validate_checksum, format!) and mail-parser outside
// @catches first instead of last "Checksum: " occurrence honoured, protected region cut at the wrong place, CR/LF handling dropping a hex digit
mime_h!(c07_mime_last_checksum_line_wins_lf, false);
mime_h!(c07_mime_last_checksum_line_wins_crlf, true);
// @end
