// C02 / C07 / C08 — CDN archive index footer and ArchiveIndex::parse on minimal inputs; IndexEntry round trip.
use crate::spy;
use crate::stubs::*;
use crate::uf::Uf;
use cascette_crypto::md5::ContentKey;
use cascette_formats::archive::{ArchiveError, ArchiveIndex, IndexEntry, IndexFooter};
use std::io::Cursor;

// ---- MD5 as an ideal hash (inputs up to 24 bytes: the 20-byte padded footer field block) -------------------------
static mut H: Uf<4, 2, 6> = Uf::new();
fn md5_model(data: &[u8]) -> [u8; 16] {
    if cfg!(vreplay) {
        return *ContentKey::from_data(data).as_bytes();
    }
    assert!(data.len() <= 24, "md5 model: input longer than 24 bytes");
    let n = data.len();
    let g = |i: usize| -> u64 { if i < n { data[i] as u64 } else { 0 } };
    let word = |k: usize| -> u64 {
        g(k) | g(k + 1) << 8 | g(k + 2) << 16 | g(k + 3) << 24 | g(k + 4) << 32 | g(k + 5) << 40 | g(k + 6) << 48 | g(k + 7) << 56
    };
    let w = [word(0), word(8), word(16), n as u64];
    let o = unsafe { H.apply_injective(w, [u64::MAX; 2]) };
    let mut out = [0u8; 16];
    out[..8].copy_from_slice(&o[0].to_le_bytes());
    out[8..].copy_from_slice(&o[1].to_le_bytes());
    out
}
fn from_data_stub(data: &[u8]) -> ContentKey {
    ContentKey::from_bytes(md5_model(data))
}
/// The documented hash input: the 12 field bytes (version .. element_count LE) zero-padded to 20.
fn expected_footer_hash(fields: &[u8]) -> [u8; 16] {
    let f = |i: usize| fields[i];
    let inp = [f(0), f(1), f(2), f(3), f(4), f(5), f(6), f(7), f(8), f(9), f(10), f(11), 0, 0, 0, 0, 0, 0, 0, 0];
    md5_model(&inp)
}

// ---- footer value: is_valid / validate_format ---------------------------------------------------------------------
// Contract (after fix e9256cc): a footer is valid iff the stored hash has exactly the declared length, that length is
// 1..=8, and the stored bytes equal MD5(12 field bytes || 8 zero bytes)[..declared].
macro_rules! footer_hash_contract {
    ($name:ident, $l:expr) => {
        #[kani::proof]
        #[kani::unwind(18)]
        #[kani::stub(std::fmt::format, fmt_format_empty)]
        #[kani::stub(cascette_crypto::md5::ContentKey::from_data, from_data_stub)]
        fn $name() {
            const L: usize = $l; // length of the stored hash vector (what the parser's first size read produced)
            let b: [u8; 20 + L] = kani::any();
            let j: usize = kani::any();
            kani::assume(j < 8);
            let mut toc_hash = [0u8; 8];
            toc_hash.copy_from_slice(&b[0..8]);
            let f = IndexFooter {
                toc_hash,
                version: b[8],
                reserved: [b[9], b[10]],
                page_size_kb: b[11],
                offset_bytes: b[12],
                size_bytes: b[13],
                ekey_length: b[14],
                footer_hash_bytes: b[15],
                element_count: u32::from_le_bytes([b[16], b[17], b[18], b[19]]),
                footer_hash: b[20..20 + L].to_vec(),
            };
            let fmt = f.validate_format();
            let fmt_ok = fmt.is_ok();
            std::mem::forget(fmt);
            let spec_fmt = b[8] <= 1 && b[9] == 0 && b[10] == 0 && b[11] == 4 && (b[12] >= 4 && b[12] <= 6) && b[13] == 4 && b[14] >= 1 && b[14] <= 16 && b[15] == 8;
            assert!(fmt_ok == spec_fmt, "validate_format differs from the documented footer constraints");
            let valid = f.is_valid();
            let want = expected_footer_hash(&b[8..20]);
            let declared = b[15] as usize;
            kani::cover!(valid || L == 0 || L > 8, "footer accepted (possible only for stored lengths 1..=8)");
            kani::cover!(!valid, "footer rejected");
            if valid {
                assert!(declared == L && L >= 1 && L <= 8, "footer accepted although the stored hash length differs from the declared length / is not in 1..=8");
                if j < L {
                    assert!(b[20 + j] == want[j], "footer accepted although a hash byte differs from MD5(fields)[..declared]");
                }
            } else if declared == L && L >= 1 && L <= 8 {
                let mut same = true;
                let mut k = 0;
                while k < L {
                    same &= b[20 + k] == want[k];
                    k += 1;
                }
                assert!(!same, "footer with the correct hash rejected");
            }
            std::mem::forget(f);
        }
    };
}
// @family prop=C07 tier=quick timeout=900 role=archive-footer-hash-total
// @bounds all 20 footer bytes in front of the hash symbolic (toc hash, 12 field bytes incl. the declared hash size), stored hash vector of concrete length L (name: l<L>; 0, 4, 8, 16 = what the parser builds for a first size read of 0 / 4 / 8 / 16) with symbolic bytes
// @encodes cascette_formats::archive::index::IndexFooter::is_valid, cascette_formats::archive::index::IndexFooter::calculate_footer_hash, cascette_formats::archive::index::IndexFooter::validate_format
// @assumes MD5 (ContentKey::from_data) is an ideal hash: uninterpreted, injective on the inputs that occur; native replay uses the real MD5
// @catches regression of fix e9256cc (hash compared on min(stored, declared) bytes: empty / partial hash accepted, 9..=255 panics), a field byte left out of / reordered in the hash input, element_count hashed big-endian, is_valid result inverted, format limits changed
footer_hash_contract!(c07_archive_footer_hash_total, 8);
footer_hash_contract!(c07_archive_footer_hash_total_l0, 0);
footer_hash_contract!(c07_archive_footer_hash_total_l4, 4);
footer_hash_contract!(c07_archive_footer_hash_total_l16, 16);
// @end

// @harness prop=C02 tier=quick timeout=900 role=archive-footer-is-valid-total
// @bounds IndexFooter value with symbolic fields and a footer_hash vector of concrete length 16 (what the parser builds when the first hash-size read says 16), footer_hash_bytes field symbolic (0..=255)
// @encodes cascette_formats::archive::index::IndexFooter::is_valid
// @assumes MD5 uninterpreted
// @catches regression of fix e9256cc: is_valid slicing the 8-byte computed hash with min(footer_hash.len(), footer_hash_bytes) panics when both exceed 8
#[kani::proof]
#[kani::unwind(18)]
#[kani::stub(std::fmt::format, fmt_format_empty)]
#[kani::stub(cascette_crypto::md5::ContentKey::from_data, from_data_stub)]
fn c02_archive_footer_is_valid_long_hash() {
    let b: [u8; 36] = kani::any();
    let mut toc_hash = [0u8; 8];
    toc_hash.copy_from_slice(&b[0..8]);
    let f = IndexFooter {
        toc_hash,
        version: b[8],
        reserved: [b[9], b[10]],
        page_size_kb: b[11],
        offset_bytes: b[12],
        size_bytes: b[13],
        ekey_length: b[14],
        footer_hash_bytes: b[15],
        element_count: u32::from_le_bytes([b[16], b[17], b[18], b[19]]),
        footer_hash: b[20..36].to_vec(),
    };
    let v = f.is_valid();
    kani::cover!(b[15] > 8 && !v, "declared size above 8 rejected");
    assert!(!v, "footer with a 16-byte stored hash accepted (MD5 prefix is at most 8 bytes)");
    std::mem::forget(f);
}

// NOT REGISTERED (measured: SAT > 5 min, 64-bit division by a symbolic records-per-page on both sides)
// harness prop=C02 role=archive-footer-file-size
// @bounds footer fields that validate_format accepts (ekey 1..=16, offset 4..=6, ...), element_count symbolic u32, actual file size symbolic u64
// @encodes cascette_formats::archive::index::IndexFooter::validate_file_size
// @catches division by zero for record size 0, overflow in pages * page size, accepting a file size that does not hold element_count records (allocation / read sizes downstream are derived from it)
#[kani::proof]
#[kani::unwind(4)]
#[kani::stub(std::fmt::format, fmt_format_empty)]
fn c02_archive_footer_file_size() {
    let f = IndexFooter {
        toc_hash: [0u8; 8],
        version: kani::any(),
        reserved: [0, 0],
        page_size_kb: 4,
        offset_bytes: kani::any(),
        size_bytes: 4,
        ekey_length: kani::any(),
        footer_hash_bytes: 8,
        element_count: kani::any(),
        footer_hash: Vec::new(),
    };
    kani::assume(f.ekey_length >= 1 && f.ekey_length <= 16 && f.offset_bytes >= 4 && f.offset_bytes <= 6 && f.version <= 1);
    let size: u64 = kani::any();
    let r = f.validate_file_size(size);
    let rec = f.ekey_length as u64 + 4 + f.offset_bytes as u64;
    let per = 4096 / rec;
    let pages = (f.element_count as u64 + per - 1) / per;
    let want = pages * 4096 + pages * (f.ekey_length as u64 + 8) + 28;
    assert!(r.is_ok() == (size == want), "validate_file_size accepts exactly pages*(4096+key+8)+28");
    kani::cover!(r.is_ok() && f.element_count > 1000, "large index accepted");
    std::mem::forget(r);
    std::mem::forget(f);
}

// ---- ArchiveIndex::parse on minimal inputs; the first hash-size read (byte at len-13) concrete per harness ------------------
macro_rules! archive_parse {
    ($name:ident, $n:expr, $hb:expr, $c07:expr, $msg:expr) => {
        #[kani::proof]
        #[kani::unwind(10)]
        #[kani::stub(std::fmt::format, fmt_format_empty)]
        #[kani::stub(cascette_crypto::md5::ContentKey::from_data, from_data_stub)]
        #[kani::stub(std::alloc::alloc, spy::alloc)]
        #[kani::stub(std::alloc::alloc_zeroed, spy::alloc_zeroed)]
        #[kani::stub(std::alloc::realloc, spy::realloc)]
        fn $name() {
            const N: usize = $n;
            let mut b: [u8; N] = kani::any();
            b[N - 13] = $hb;
            let j: usize = kani::any();
            kani::assume(j < 8);
            spy::reset();
            let r = ArchiveIndex::parse(Cursor::new(&b[..]));
            assert!(spy::max_req() <= spy::limit(N), "ArchiveIndex::parse: allocation request out of proportion to input");
            kani::cover!(r.is_ok() || !$c07, "index accepted");
            kani::cover!(r.is_err(), "index rejected");
            if let Ok(ix) = &r {
                assert!(ix.entries.is_empty() && ix.toc.is_empty(), "a file this small holds no entries");
                // C07: whatever was accepted carries an 8-byte footer hash equal to MD5(fields)[..8],
                // where the fields are the 12 bytes in front of the hash at the end of the file
                let want = expected_footer_hash(&b[N - 20..N - 8]);
                assert!(ix.footer.footer_hash.len() == 8, $msg);
                assert!(ix.footer.footer_hash[j] == b[N - 8 + j], "footer hash not taken from the last 8 bytes");
                assert!(b[N - 8 + j] == want[j], "index accepted although its footer hash differs from MD5(fields)[..8]");
            }
            std::mem::forget(r);
        }
    };
}
// NOT REGISTERED (measured: > 12 min, 4+ GB and growing at 28 bytes; binrw/io error drop-glue recursion) -- the bypass is confirmed natively, see report
// family prop=C07 role=archive-index-parse-footer-check
// @bounds ArchiveIndex::parse on a whole file of 28 bytes (an empty index: footer only), every byte symbolic except the hash-size byte at len-13, concrete per harness (name: hb<value>; 8 = regular, 0 / 4 = the first read disagrees with the footer's own field)
// @encodes cascette_formats::archive::index::ArchiveIndex::parse, cascette_formats::archive::index::IndexFooter::is_valid, cascette_formats::archive::index::IndexFooter::validate_format, cascette_formats::archive::index::IndexFooter::validate_file_size, cascette_formats::archive::index::ArchiveIndex::validate
// @assumes MD5 ideal hash (uninterpreted, injective); std::fmt::format stubbed; allocator spy
// @catches footer check skipped / after use, hash compared on a prefix; KF (hb0, hb4): the hash size is read twice (byte at len-13 sizes the footer and the hash vector, the field inside the re-positioned footer is the one validated): with 0 the index is accepted without any hash comparison, with 1..7 only that many bytes are compared
archive_parse!(c07_archive_index_parse_hb8, 28, 8, true, "accepted footer hash is not 8 bytes long");
archive_parse!(c07_archive_index_parse_hb0, 28, 0, true, "index accepted with a footer hash shorter than 8 bytes (check bypassed)");
archive_parse!(c07_archive_index_parse_hb4, 28, 4, true, "index accepted with a footer hash shorter than 8 bytes (check bypassed)");
// @end
// NOT REGISTERED (same reason)
// family prop=C02 role=archive-index-parse-total
// @bounds ArchiveIndex::parse on whole files of 27 / 36 / 44 bytes, every byte symbolic except the hash-size byte at len-13 (name: hb<value>: 8, 16, 255)
// @encodes cascette_formats::archive::index::ArchiveIndex::parse, cascette_formats::archive::index::IndexFooter::is_valid
// @assumes MD5 uninterpreted; std::fmt::format stubbed; allocator spy
// @catches seek before the start not handled, footer vector sized from the unchecked byte, KF (hb16): first read 16 and the footer's own hash-size field > 8 -> is_valid slices the 8-byte hash out of range (panic)
archive_parse!(c02_archive_index_parse_n27_hb8, 27, 8, false, "accepted footer hash is not 8 bytes long");
archive_parse!(c02_archive_index_parse_n36_hb8, 36, 8, false, "accepted footer hash is not 8 bytes long");
archive_parse!(c02_archive_index_parse_n36_hb255, 36, 255, false, "accepted footer hash is not 8 bytes long");
archive_parse!(c02_archive_index_parse_n44_hb16, 44, 16, false, "accepted footer hash is not 8 bytes long");
// @end

// ---- C08: footer and entry round trips -------------------------------------------------------------------------------------
// @harness prop=C08 tier=quick timeout=900 role=archive-footer-roundtrip
// @bounds 28 symbolic footer bytes assembled into an IndexFooter as the parser does (8-byte hash)
// @encodes cascette_formats::archive::index::IndexFooter::write
// @catches element_count written big-endian, field order, hash length
#[kani::proof]
#[kani::unwind(10)]
fn c08_archive_footer_rt() {
    let b: [u8; 28] = kani::any();
    let mut toc_hash = [0u8; 8];
    toc_hash.copy_from_slice(&b[0..8]);
    let f = IndexFooter {
        toc_hash,
        version: b[8],
        reserved: [b[9], b[10]],
        page_size_kb: b[11],
        offset_bytes: b[12],
        size_bytes: b[13],
        ekey_length: b[14],
        footer_hash_bytes: b[15],
        element_count: u32::from_le_bytes([b[16], b[17], b[18], b[19]]),
        footer_hash: b[20..28].to_vec(),
    };
    let mut out = [0u8; 28];
    let mut wc = Cursor::new(&mut out[..]);
    let w = f.write(&mut wc);
    assert!(w.is_ok() && wc.position() == 28, "footer write failed / wrong length");
    let i: usize = kani::any();
    kani::assume(i < 28);
    assert!(out[i] == b[i], "write(read(b)) differs from b");
    kani::cover!(b[16] != b[19], "endianness-sensitive count");
    std::mem::forget((w, f));
}

macro_rules! archive_entry_rt {
    ($name:ident, $k:expr, $ob:expr) => {
        #[kani::proof]
        #[kani::unwind(4)]
        #[kani::stub(std::fmt::format, fmt_format_empty)]
        fn $name() {
            const K: usize = $k;
            const OB: usize = $ob;
            const N: usize = K + 4 + OB;
            let b: [u8; N] = kani::any();
            let e = match IndexEntry::parse(&b, K as u8, 4, OB as u8) {
                Ok(e) => e,
                Err(_) => {
                    assert!(false, "exact-size record rejected");
                    return;
                }
            };
            let w = match e.to_bytes(4, OB as u8) {
                Ok(w) => w,
                Err(_) => {
                    assert!(false, "write(read(b)) failed");
                    return;
                }
            };
            assert!(w.len() == N, "rebuilt record length");
            let i: usize = kani::any();
            kani::assume(i < N);
            assert!(w[i] == b[i], "write(read(b)) differs from b");
            // value direction: the two constructors, values in range for the width
            let key: [u8; K] = kani::any();
            let size: u32 = kani::any();
            let off: u64 = kani::any();
            let ai: u16 = kani::any();
            let v = if OB == 6 {
                kani::assume(off <= u32::MAX as u64);
                IndexEntry::new_archive_group(key.to_vec(), size, ai, off as u32)
            } else {
                kani::assume(off < 1u64 << (8 * OB));
                IndexEntry::new(key.to_vec(), size, off)
            };
            let wv = v.to_bytes(4, OB as u8).unwrap();
            let rv = IndexEntry::parse(&wv, K as u8, 4, OB as u8).unwrap();
            assert!(rv.size == v.size && rv.offset == v.offset && rv.archive_index == v.archive_index && rv.encoding_key.len() == K, "read(write(v)) != v");
            if K > 0 {
                let q: usize = kani::any();
                kani::assume(q < K);
                assert!(rv.encoding_key[q] == key[q], "read(write(v)) key byte");
            }
            kani::cover!(off > 0xFFFF_FFFF || OB != 5, "offset needing the fifth byte");
            std::mem::forget((e, w, v, wv, rv));
        }
    };
}
// @family prop=C08 tier=quick timeout=900 role=archive-index-entry-roundtrip
// @bounds record bytes fully symbolic at the exact record size for key width 16 / 9 and offset widths 4, 5, 6 (archive-group form); value direction: key, size, offset (< 2^(8*width)), archive index symbolic through IndexEntry::new / new_archive_group
// @encodes cascette_formats::archive::index::IndexEntry::parse, cascette_formats::archive::index::IndexEntry::to_bytes, cascette_formats::archive::index::IndexEntry::new, cascette_formats::archive::index::IndexEntry::new_archive_group
// @catches 5-byte offset written from the wrong end of the u64, archive index / offset swapped, size endianness, key truncated
archive_entry_rt!(c08_archive_entry_rt_k16_o4, 16, 4);
archive_entry_rt!(c08_archive_entry_rt_k16_o5, 16, 5);
archive_entry_rt!(c08_archive_entry_rt_k16_o6, 16, 6);
archive_entry_rt!(c08_archive_entry_rt_k9_o5, 9, 5);
// @end
