// C02 / C08 — install, download and size manifests: headers, entries, tags (binrw record readers) and
// whole-file parsers on minimal inputs with the count fields symbolic (allocation focus).
use crate::spy;
use crate::stubs::*;
use binrw::{BinRead, BinWrite, Endian};
use cascette_formats::download::{DownloadFileEntry, DownloadHeader, DownloadManifest, FileSize40};
use cascette_formats::install::{InstallFileEntry, InstallHeader, InstallManifest, InstallTag, TagType};
use cascette_formats::size::{SizeEntry, SizeHeader, SizeManifest};
use std::io::Cursor;

// Generic "reader is total" harness: N symbolic bytes behind a Cursor, one read call.
macro_rules! rec_total {
    ($name:ident, $n:expr, $unw:expr, $okp:expr, $msg:expr, |$cur:ident, $d:ident| $call:expr) => {
        #[kani::proof]
        #[kani::unwind($unw)]
        #[kani::stub(std::fmt::format, fmt_format_empty)]
        #[kani::stub(std::alloc::alloc, spy::alloc)]
        #[kani::stub(std::alloc::alloc_zeroed, spy::alloc_zeroed)]
        #[kani::stub(std::alloc::realloc, spy::realloc)]
        fn $name() {
            const N: usize = $n;
            let $d: [u8; N] = kani::any();
            spy::reset();
            let mut $cur = Cursor::new(&$d[..]);
            let r = $call;
            assert!(spy::max_req() <= spy::limit(N), $msg);
            kani::cover!(r.is_ok() || !$okp, "accepted (where the length allows)");
            kani::cover!(r.is_err(), "rejected");
            assert!($cur.position() <= N as u64, "reader advanced past the end of the input");
            std::mem::forget(r);
        }
    };
}


macro_rules! hdr_helper {
    ($f:ident, $t:ident) => {
        // read + validate without dropping any error value (error drop glue is very expensive for the model checker)
        fn $f(c: &mut Cursor<&[u8]>) -> Result<bool, binrw::Error> {
            match $t::read_options(c, Endian::Big, ()) {
                Ok(h) => {
                    let v = h.validate();
                    let ok = v.is_ok();
                    std::mem::forget(v);
                    Ok(ok)
                }
                Err(e) => Err(e),
            }
        }
    };
}
hdr_helper!(hdr_installheader, InstallHeader);
hdr_helper!(hdr_downloadheader, DownloadHeader);
hdr_helper!(hdr_sizeheader, SizeHeader);

// ---- headers ----------------------------------------------------------------------------------------------
// @family prop=C02 tier=quick timeout=900 role=manifest-headers-total
// @bounds input of concrete length N (name: n<N>; around each header size 10/16, 11/12/16, 15/19), every byte symbolic (magic, version, widths, counts)
// @encodes cascette_formats::install::header::InstallHeader::read_options, cascette_formats::install::header::InstallHeader::validate, cascette_formats::download::header::DownloadHeader::read_options, cascette_formats::download::header::DownloadHeader::validate, cascette_formats::size::header::SizeHeader::read_options, cascette_formats::size::header::SizeHeader::validate
// @assumes std::fmt::format stubbed (error text); allocator spy
// @catches panic on unknown version byte, read past the end for the V2/V3 extension fields, unwrap on a short read
// UNVERIFIED(not run to completion within the time budget): rec_total!(c02_install_header_n9, 9, 4, false, "alloc", |c, d| hdr_installheader(&mut c));
// UNVERIFIED(not run to completion within the time budget): rec_total!(c02_install_header_n10, 10, 4, true, "alloc", |c, d| hdr_installheader(&mut c));
// UNVERIFIED(not run to completion within the time budget): rec_total!(c02_install_header_n16, 16, 4, true, "alloc", |c, d| hdr_installheader(&mut c));
// UNVERIFIED(not run to completion within the time budget): rec_total!(c02_download_header_n10, 10, 4, false, "alloc", |c, d| hdr_downloadheader(&mut c));
// UNVERIFIED(not run to completion within the time budget): rec_total!(c02_download_header_n11, 11, 4, true, "alloc", |c, d| hdr_downloadheader(&mut c));
// UNVERIFIED(not run to completion within the time budget): rec_total!(c02_download_header_n12, 12, 4, true, "alloc", |c, d| hdr_downloadheader(&mut c));
// UNVERIFIED(not run to completion within the time budget): rec_total!(c02_download_header_n16, 16, 4, true, "alloc", |c, d| hdr_downloadheader(&mut c));
// UNVERIFIED(not run to completion within the time budget): rec_total!(c02_size_header_n14, 14, 4, false, "alloc", |c, d| hdr_sizeheader(&mut c));
// UNVERIFIED(not run to completion within the time budget): rec_total!(c02_size_header_n15, 15, 4, true, "alloc", |c, d| hdr_sizeheader(&mut c));
// UNVERIFIED(not run to completion within the time budget): rec_total!(c02_size_header_n19, 19, 4, true, "alloc", |c, d| hdr_sizeheader(&mut c));
// @end

// ---- entries and tags ------------------------------------------------------------------------------------
fn dl_header(ver: u8, checksum: bool, flag_size: u8) -> DownloadHeader {
    match ver {
        1 => DownloadHeader::new_v1(1, 0, checksum),
        2 => DownloadHeader::new_v2(1, 0, checksum, flag_size),
        _ => DownloadHeader::new_v3(1, 0, checksum, flag_size, 0),
    }
}
// @family prop=C02 tier=quick timeout=900 role=manifest-records-total
// @bounds input of concrete length N (name: n<N>) with symbolic content; install entry/tag: NUL-terminated name anywhere in the buffer, key length 16 (validated header value), version 1/2, entry_count (mask size) concrete per harness; download entry: header variant V1/V2/V3 x checksum x flag_size 0..=4 symbolic; size entry: ekey_size 1..=16 and esize width 1..=8 symbolic
// @encodes cascette_formats::install::entry::InstallFileEntry::read_options, cascette_formats::install::tag::InstallTag::read_options, cascette_formats::install::tag::TagType::from_u16, cascette_formats::download::entry::DownloadFileEntry::read_options, cascette_formats::download::entry::FileSize40::from_bytes, cascette_formats::size::entry::SizeEntry::read_options
// @assumes std::fmt::format stubbed; allocator spy; header arguments are values header.validate() accepts
// @catches unterminated name running past the buffer, invalid UTF-8 / unknown tag type causing a panic instead of Err, key buffer mis-sized, missing EOF check before the mask / flags / checksum
rec_total!(c02_install_entry_v1_n6, 6, 8, false, "alloc", |c, d| InstallFileEntry::read_options(&mut c, Endian::Big, (16u8, 1u8)));
// UNVERIFIED(not run to completion within the time budget): rec_total!(c02_install_entry_v1_n23, 23, 25, true, "alloc", |c, d| InstallFileEntry::read_options(&mut c, Endian::Big, (16u8, 1u8)));
// UNVERIFIED(not run to completion within the time budget): rec_total!(c02_install_entry_v2_n24, 24, 26, true, "alloc", |c, d| InstallFileEntry::read_options(&mut c, Endian::Big, (16u8, 2u8)));
rec_total!(c02_install_tag_n2_e0, 2, 6, false, "alloc", |c, d| InstallTag::read_options(&mut c, Endian::Big, 0u32));
rec_total!(c02_install_tag_n6_e0, 6, 8, true, "alloc", |c, d| InstallTag::read_options(&mut c, Endian::Big, 0u32));
rec_total!(c02_install_tag_n6_e9, 6, 8, true, "alloc", |c, d| InstallTag::read_options(&mut c, Endian::Big, 9u32));
rec_total!(c02_install_tag_n8_e33, 8, 10, true, "alloc", |c, d| InstallTag::read_options(&mut c, Endian::Big, 33u32));
// UNVERIFIED(not run to completion within the time budget): rec_total!(c02_download_entry_n21, 21, 6, false, "alloc", |c, d| {
// UNVERIFIED(not run to completion within the time budget):     let (v, ck, fs): (u8, bool, u8) = (kani::any(), kani::any(), kani::any());
// UNVERIFIED(not run to completion within the time budget):     kani::assume(v >= 1 && v <= 3 && fs <= 4);
// UNVERIFIED(not run to completion within the time budget):     let h = dl_header(v, ck, fs);
// UNVERIFIED(not run to completion within the time budget):     DownloadFileEntry::read_options(&mut c, Endian::Big, &h)
// UNVERIFIED(not run to completion within the time budget): });
// UNVERIFIED(not run to completion within the time budget): rec_total!(c02_download_entry_n22, 22, 6, true, "alloc", |c, d| {
// UNVERIFIED(not run to completion within the time budget):     let (v, ck, fs): (u8, bool, u8) = (kani::any(), kani::any(), kani::any());
// UNVERIFIED(not run to completion within the time budget):     kani::assume(v >= 1 && v <= 3 && fs <= 4);
// UNVERIFIED(not run to completion within the time budget):     let h = dl_header(v, ck, fs);
// UNVERIFIED(not run to completion within the time budget):     DownloadFileEntry::read_options(&mut c, Endian::Big, &h)
// UNVERIFIED(not run to completion within the time budget): });
// UNVERIFIED(not run to completion within the time budget): rec_total!(c02_download_entry_n30, 30, 6, true, "alloc", |c, d| {
// UNVERIFIED(not run to completion within the time budget):     let (v, ck, fs): (u8, bool, u8) = (kani::any(), kani::any(), kani::any());
// UNVERIFIED(not run to completion within the time budget):     kani::assume(v >= 1 && v <= 3 && fs <= 4);
// UNVERIFIED(not run to completion within the time budget):     let h = dl_header(v, ck, fs);
// UNVERIFIED(not run to completion within the time budget):     DownloadFileEntry::read_options(&mut c, Endian::Big, &h)
// UNVERIFIED(not run to completion within the time budget): });
// @end


// Record readers on a header-only input: nothing is left to read.
fn eof<T>() -> binrw::BinResult<T> {
    Err(binrw::Error::Io(std::io::Error::from(std::io::ErrorKind::UnexpectedEof)))
}
fn tag_eof<R: std::io::Read + std::io::Seek>(_r: &mut R, _e: Endian, _a: u32) -> binrw::BinResult<InstallTag> {
    eof()
}
fn install_entry_eof<R: std::io::Read + std::io::Seek>(_r: &mut R, _e: Endian, _a: (u8, u8)) -> binrw::BinResult<InstallFileEntry> {
    eof()
}
fn download_entry_eof<R: std::io::Read + std::io::Seek>(_r: &mut R, _e: Endian, _a: &DownloadHeader) -> binrw::BinResult<DownloadFileEntry> {
    eof()
}
fn size_entry_eof<R: std::io::Read + std::io::Seek>(_r: &mut R, _e: Endian, _a: &SizeHeader) -> binrw::BinResult<SizeEntry> {
    eof()
}

// whole-file parser on a header-only input: no panic, largest single request within the C02 bound
macro_rules! parse_alloc {
    ($name:ident, $n:expr, $unw:expr, $msg:expr, |$m:ident| $fix:expr, |$d:ident| $call:expr) => {
        #[kani::proof]
        #[kani::unwind($unw)]
        #[kani::stub(std::fmt::format, fmt_format_empty)]
        #[kani::stub(std::alloc::alloc, spy::alloc)]
        #[kani::stub(std::alloc::alloc_zeroed, spy::alloc_zeroed)]
        #[kani::stub(std::alloc::realloc, spy::realloc)]
        fn $name() {
            const N: usize = $n;
            let mut $m: [u8; N] = kani::any();
            $fix;
            let $d = $m;
            spy::reset();
            let r = $call;
            assert!(spy::max_req() <= spy::limit(N), $msg);
            kani::cover!(r.is_ok(), "accepted (all counts zero)");
            kani::cover!(r.is_err(), "rejected");
            std::mem::forget(r);
        }
    };
}

// @harness prop=C02 tier=quick timeout=900 role=install-tag-mask-alloc
// @bounds 8 symbolic bytes (name, type, a few mask bytes), entry_count = 0xFFFF_FFFF (largest value a manifest header can carry: 512 MiB mask)
// @encodes cascette_formats::install::tag::InstallTag::read_options
// @assumes std::fmt::format stubbed; allocator spy
// @catches regression of patch install_tag: bit mask buffer allocated from the header's entry count before the remaining input is known (512 MiB request from a 14-byte manifest)
rec_total!(c02_install_tag_alloc_n8, 8, 10, false, "InstallTag::read: bit mask allocation out of proportion to input", |c, d| InstallTag::read_options(&mut c, Endian::Big, 0xFFFF_FFFFu32));

// ---- whole-file parsers, count fields symbolic (allocation focus) -------------------------------------------
// NOT REGISTERED (measured on the patched tree /tmp/wt-c02fix: 900 s timeout each, also with one count field fixed to 0 - CBMC does not
// propagate the concrete header bytes through Cursor/read_exact, so the tag / entry record readers (name loops, UTF-8 validation,
// read_to_end) are unrolled on infeasible paths; Kani cannot stub the generic trait method `<T as BinRead>::read_options`).
// The three sites are demonstrated natively before/after instead: /verif/.work/patches/{install,download,size}_manifest.msg
// family prop=C02 role=manifest-parse-alloc
// @bounds whole-file parser on a HEADER-ONLY input (install V1: 10 bytes, download V1: 11 bytes with the version byte fixed to 1, size V2: 15 bytes with the version byte fixed to 2): every other byte symbolic, in particular the 32-bit entry count and the 16-bit tag count
// @encodes cascette_formats::install::manifest::InstallManifest::parse, cascette_formats::download::manifest::DownloadManifest::parse, cascette_formats::size::manifest::SizeManifest::parse
// @assumes the two looping record readers (InstallTag::read_options - shared by all three manifests - and InstallFileEntry::read_options) are replaced by "unexpected end of file": exact for a header-only input (no byte is left for any record), and it keeps the model checker out of the record readers (with them the run does not finish in 15 min); std::fmt::format stubbed; allocator spy records the largest single request
// @catches regression of the reservation bounds (patches install_manifest / download_manifest / size_manifest): Vec::with_capacity(header.entry_count / tag_count) with the count an unchecked field of the input (10..19-byte input requesting up to hundreds of GB); any later regression that sizes a buffer from a count field before checking the remaining input
parse_alloc!(c02_install_parse_alloc_n10, 10, 5, "install manifest parse: tag / entry reservation out of proportion to input", |d| (), |d| InstallManifest::parse(&d));
parse_alloc!(c02_download_parse_alloc_n11, 11, 5, "download manifest parse: entry / tag reservation out of proportion to input", |d| { d[2] = 1; }, |d| DownloadManifest::parse(&d));
parse_alloc!(c02_size_parse_alloc_n15, 15, 5, "size manifest parse: tag / entry reservation out of proportion to input", |d| { d[2] = 2; }, |d| SizeManifest::parse(&d));
// @end
