use crate::spy;
use cascette_formats::patch_index::PatchIndexHeader;
#[kani::proof]
#[kani::unwind(8)]
#[kani::stub(std::alloc::alloc, spy::alloc)]
fn pf_concrete() {
    let data: [u8; 27] = [25,0,0,0, 1,0,0,0, 252,255,255,255, 8,0, 3, 3,0,0, 0,254,254,254, 4,0,0,0, 255];
    let r = PatchIndexHeader::parse(&data);
    assert!(r.is_err());
    std::mem::forget(r);
}
#[kani::proof]
#[kani::unwind(8)]
#[kani::stub(std::alloc::alloc, spy::alloc)]
fn pg_semi() {
    let mut data: [u8; 27] = [25,0,0,0, 1,0,0,0, 252,255,255,255, 8,0, 3, 3,0,0, 0,254,254,254, 4,0,0,0, 255];
    data[12] = kani::any();
    data[14] = kani::any();
    let r = PatchIndexHeader::parse(&data);
    std::mem::forget(r);
}
