// C02 / C08 / C07 — encoding table: header, page entries, page checksum verification.
use crate::spy;
use crate::stubs::*;
use crate::uf::Uf;
use md5_plain;
use binrw::{BinRead, BinWrite, Endian};
use cascette_formats::encoding::{CKeyPageEntry, EKeyPageEntry, EncodingError, EncodingFile, EncodingHeader, IndexEntry};
use std::io::Cursor;

// ---- header -----------------------------------------------------------------------------------------------
macro_rules! enc_header {
    ($name:ident, $n:expr) => {
        #[kani::proof]
        #[kani::unwind(4)]
        #[kani::stub(std::fmt::format, fmt_format_empty)]
        #[kani::stub(std::alloc::alloc, spy::alloc)]
        #[kani::stub(std::alloc::alloc_zeroed, spy::alloc_zeroed)]
        #[kani::stub(std::alloc::realloc, spy::realloc)]
        fn $name() {
            const N: usize = $n;
            let d: [u8; N] = kani::any();
            spy::reset();
            let mut c = Cursor::new(&d[..]);
            let r = EncodingHeader::read_options(&mut c, Endian::Big, ());
            assert!(spy::max_req() <= spy::limit(N), "EncodingHeader::read: allocation out of proportion");
            kani::cover!(r.is_ok() || N < 22, "accepted");
            kani::cover!(r.is_err(), "rejected");
            if let Ok(h) = &r {
                assert!(N >= 22 && d[0] == b'E' && d[1] == b'N', "magic / length");
                let v = h.validate();
                let good = h.version == 1
                    && h.flags == 0
                    && h.ckey_hash_size >= 1
                    && h.ckey_hash_size <= 16
                    && h.ekey_hash_size >= 1
                    && h.ekey_hash_size <= 16
                    && h.ckey_page_size_kb != 0
                    && h.ekey_page_size_kb != 0
                    && h.ckey_page_count != 0
                    && h.ekey_page_count != 0
                    && h.espec_block_size != 0;
                assert!(v.is_ok() == good, "EncodingHeader::validate differs from the documented constraints");
                kani::cover!(v.is_ok(), "valid header");
                // size helpers must not overflow for any header (validated or not)
                let _ = h.data_size();
                assert!(h.ckey_page_size() == (d[5] as usize * 256 + d[6] as usize) * 1024, "page size = big-endian KB field * 1024");
                assert!(h.ckey_hash_size == d[3] && h.ekey_hash_size == d[4] && h.flags == d[17], "byte fields");
                assert!(h.ckey_page_count == (d[9] as u32) << 24 | (d[10] as u32) << 16 | (d[11] as u32) << 8 | d[12] as u32, "ckey page count BE");
                assert!(h.espec_block_size == (d[18] as u32) << 24 | (d[19] as u32) << 16 | (d[20] as u32) << 8 | d[21] as u32, "espec size BE");
                std::mem::forget(v);
            }
            std::mem::forget(r);
        }
    };
}
// @family prop=C02 tier=quick timeout=900 role=encoding-header
// @bounds input of concrete length N (21, 22, 30), every byte symbolic
// @encodes cascette_formats::encoding::header::EncodingHeader::read_options, cascette_formats::encoding::header::EncodingHeader::validate, cascette_formats::encoding::header::EncodingHeader::data_size, cascette_formats::encoding::header::EncodingHeader::ckey_page_size
// @assumes std::fmt::format stubbed; allocator spy
// @catches a validate() constraint dropped or its bound changed (hash size 16 -> 17 lets the page-entry readers slice a 16-byte key out of range), field order / endianness, overflow in data_size
// UNVERIFIED(not run to completion within the time budget): enc_header!(c02_encoding_header_n21, 21);
// UNVERIFIED(not run to completion within the time budget): enc_header!(c02_encoding_header_n22, 22);
// UNVERIFIED(not run to completion within the time budget): enc_header!(c02_encoding_header_n30, 30);
// @end

// ---- page entries -----------------------------------------------------------------------------------------
macro_rules! enc_entry_total {
    ($name:ident, $n:expr, $unw:expr, $okp:expr, |$c:ident, $hs:ident| $call:expr) => {
        #[kani::proof]
        #[kani::unwind($unw)]
        #[kani::stub(std::fmt::format, fmt_format_empty)]
        #[kani::stub(std::alloc::alloc, spy::alloc)]
        #[kani::stub(std::alloc::alloc_zeroed, spy::alloc_zeroed)]
        #[kani::stub(std::alloc::realloc, spy::realloc)]
        fn $name() {
            const N: usize = $n;
            let d: [u8; N] = kani::any();
            let $hs: (u8, u8) = (kani::any(), kani::any());
            kani::assume($hs.0 >= 1 && $hs.0 <= 16 && $hs.1 >= 1 && $hs.1 <= 16);
            spy::reset();
            let mut $c = Cursor::new(&d[..]);
            let r = $call;
            assert!(spy::max_req() <= spy::limit(N), "page entry reader: allocation out of proportion");
            kani::cover!(r.is_ok() || !$okp, "accepted");
            kani::cover!(r.is_err(), "rejected");
            assert!($c.position() <= N as u64, "reader advanced past the end");
            std::mem::forget(r);
        }
    };
}
// @family prop=C02 tier=quick timeout=900 role=encoding-page-entries
// @bounds one record buffer of concrete length N (name: n<N>) with symbolic content; key widths symbolic in 1..=16 (everything EncodingHeader::validate lets through); key_count byte symbolic
// @encodes cascette_formats::encoding::entry::CKeyPageEntry::read_options, cascette_formats::encoding::entry::EKeyPageEntry::read_options
// @assumes std::fmt::format stubbed; allocator spy
// @catches key slice wider than the 16-byte buffer, missing EOF handling in the key loop, padding sentinel mishandled as panic
// UNVERIFIED(not run to completion within the time budget): enc_entry_total!(c02_encoding_ckey_entry_n5, 5, 4, false, |c, hs| CKeyPageEntry::read_options(&mut c, Endian::Big, hs));
// UNVERIFIED(not run to completion within the time budget): enc_entry_total!(c02_encoding_ckey_entry_n38, 38, 5, true, |c, hs| CKeyPageEntry::read_options(&mut c, Endian::Big, hs));
// UNVERIFIED(not run to completion within the time budget): enc_entry_total!(c02_encoding_ckey_entry_n64, 64, 8, true, |c, hs| CKeyPageEntry::read_options(&mut c, Endian::Big, hs));
// UNVERIFIED(not run to completion within the time budget): enc_entry_total!(c02_encoding_ekey_entry_n9, 9, 20, false, |c, hs| EKeyPageEntry::read_options(&mut c, Endian::Big, (hs.1,)));
// UNVERIFIED(not run to completion within the time budget): enc_entry_total!(c02_encoding_ekey_entry_n25, 25, 20, true, |c, hs| EKeyPageEntry::read_options(&mut c, Endian::Big, (hs.1,)));
// @end

// ---- whole-file parse, minimal inputs (allocation focus) ------------------------------------------------------
macro_rules! enc_parse_alloc {
    ($name:ident, $n:expr, $espec:expr, $msg:expr) => {
        #[kani::proof]
        #[kani::unwind(5)]
        #[kani::stub(std::fmt::format, fmt_format_empty)]
        #[kani::stub(std::alloc::alloc, spy::alloc)]
        #[kani::stub(std::alloc::alloc_zeroed, spy::alloc_zeroed)]
        #[kani::stub(std::alloc::realloc, spy::realloc)]
        fn $name() {
            const N: usize = $n;
            let mut d: [u8; N] = kani::any();
            // espec_block_size (bytes 18..22, big-endian) concrete per harness; all other bytes symbolic
            let e: u32 = $espec;
            d[18] = (e >> 24) as u8;
            d[19] = (e >> 16) as u8;
            d[20] = (e >> 8) as u8;
            d[21] = e as u8;
            spy::reset();
            let r = EncodingFile::parse(&d);
            assert!(spy::max_req() <= spy::limit(N), $msg);
            kani::cover!(r.is_err(), "rejected");
            assert!(r.is_err(), "a file without any page cannot be accepted (page counts must be non-zero)");
            std::mem::forget(r);
        }
    };
}
// NOT REGISTERED (measured on the patched tree: CBMC tool error / out of memory after 650-713 s; derive-generated binrw header reader + error drop glue)
// family prop=C02 role=encoding-parse-alloc
// @bounds EncodingFile::parse on 22 / 24 input bytes; espec_block_size concrete per harness (0xFFFFFFFF, 2), every other byte symbolic (page counts, sizes, espec bytes)
// @encodes cascette_formats::encoding::file::EncodingFile::parse, cascette_formats::encoding::header::EncodingHeader::validate, cascette_formats::encoding::espec::ESpecTable::parse
// @assumes std::fmt::format stubbed; allocator spy
// @catches regression of patch encoding_parse: `vec![0u8; espec_block_size]` (4 GiB from a 22-byte input) and `Vec::with_capacity(ckey_page_count)` (up to 128 GiB from a 24-byte input) sized from unchecked header fields
enc_parse_alloc!(c02_encoding_parse_alloc_espec, 22, 0xFFFF_FFFF, "EncodingFile::parse: ESpec block allocation out of proportion to input");
enc_parse_alloc!(c02_encoding_parse_alloc_pages, 24, 2, "EncodingFile::parse: page index reservation out of proportion to input");
// @end

// ---- C08: header and page entries -------------------------------------------------------------------------------
// UNVERIFIED harness prop=C08 tier=quick timeout=900 role=encoding-header-roundtrip
// @bounds 22 symbolic header bytes; and independently all header field values symbolic
// @encodes cascette_formats::encoding::header::EncodingHeader::read_options, cascette_formats::encoding::header::EncodingHeader::write_options
// @catches field order / width differing between reader and writer, endianness
#[kani::proof]
#[kani::unwind(4)]
#[kani::stub(std::fmt::format, fmt_format_empty)]
fn c08_encoding_header_rt() {
    let b: [u8; 22] = kani::any();
    let mut c = Cursor::new(&b[..]);
    let r = EncodingHeader::read_options(&mut c, Endian::Big, ());
    kani::cover!(r.is_ok(), "accepted");
    if let Ok(h) = &r {
        let mut out = [0u8; 22];
        let mut wc = Cursor::new(&mut out[..]);
        let w = h.write_options(&mut wc, Endian::Big, ());
        assert!(w.is_ok() && wc.position() == 22, "write(read(b)) failed / wrong length");
        let i: usize = kani::any();
        kani::assume(i < 22);
        assert!(out[i] == b[i], "write(read(b)) differs from b");
        std::mem::forget(w);
    }
    std::mem::forget(r);
    // value direction
    let v = EncodingHeader {
        magic: *b"EN",
        version: kani::any(),
        ckey_hash_size: kani::any(),
        ekey_hash_size: kani::any(),
        ckey_page_size_kb: kani::any(),
        ekey_page_size_kb: kani::any(),
        ckey_page_count: kani::any(),
        ekey_page_count: kani::any(),
        flags: kani::any(),
        espec_block_size: kani::any(),
    };
    let mut out = [0u8; 22];
    let mut wc = Cursor::new(&mut out[..]);
    let w = v.write_options(&mut wc, Endian::Big, ());
    assert!(w.is_ok(), "write(v) failed");
    let mut rc = Cursor::new(&out[..]);
    let r2 = EncodingHeader::read_options(&mut rc, Endian::Big, ());
    match &r2 {
        Ok(h) => assert!(
            h.version == v.version
                && h.ckey_hash_size == v.ckey_hash_size
                && h.ekey_hash_size == v.ekey_hash_size
                && h.ckey_page_size_kb == v.ckey_page_size_kb
                && h.ekey_page_size_kb == v.ekey_page_size_kb
                && h.ckey_page_count == v.ckey_page_count
                && h.ekey_page_count == v.ekey_page_count
                && h.flags == v.flags
                && h.espec_block_size == v.espec_block_size,
            "read(write(v)) != v"
        ),
        Err(_) => assert!(false, "read(write(v)) failed"),
    }
    std::mem::forget((w, r2));
}

macro_rules! enc_entry_rt {
    ($name:ident, $n:expr, $unw:expr, $t:ident, $args:expr) => {
        #[kani::proof]
        #[kani::unwind($unw)]
        #[kani::stub(std::fmt::format, fmt_format_empty)]
        fn $name() {
            const N: usize = $n;
            let b: [u8; N] = kani::any();
            let mut c = Cursor::new(&b[..]);
            let r = $t::read_options(&mut c, Endian::Big, $args);
            kani::cover!(r.is_ok() && c.position() as usize == N, "accepted, whole buffer used");
            if let Ok(e) = &r {
                let used = c.position() as usize;
                let mut out = [0u8; N];
                let mut wc = Cursor::new(&mut out[..]);
                let w = e.write_options(&mut wc, Endian::Big, $args);
                assert!(w.is_ok(), "write(read(b)) failed");
                assert!(wc.position() as usize == used, "rebuilt record has a different length");
                let i: usize = kani::any();
                kani::assume(i < used);
                assert!(out[i] == b[i], "write(read(b)) differs from b");
                std::mem::forget(w);
            }
            std::mem::forget(r);
        }
    };
}
// @family prop=C08 tier=quick timeout=900 role=encoding-page-entry-roundtrip
// @bounds record bytes symbolic: CKey entry with up to 2 encoding keys (N = 54) for key widths 16/16 and 9/9 (N = 33); EKey entry (N = 25, width 16; N = 18, width 9); 40-bit sizes arbitrary
// @encodes cascette_formats::encoding::entry::CKeyPageEntry::read_options, cascette_formats::encoding::entry::CKeyPageEntry::write_options, cascette_formats::encoding::entry::EKeyPageEntry::read_options, cascette_formats::encoding::entry::EKeyPageEntry::write_options
// @catches 40-bit size split into high byte / low word inconsistently, keys truncated to the wrong width, key_count not matching the keys written
// UNVERIFIED(not run to completion within the time budget): enc_entry_rt!(c08_encoding_ckey_entry_rt_w16, 54, 5, CKeyPageEntry, (16u8, 16u8));
// UNVERIFIED(not run to completion within the time budget): enc_entry_rt!(c08_encoding_ckey_entry_rt_w9, 33, 5, CKeyPageEntry, (9u8, 9u8));
// UNVERIFIED(not run to completion within the time budget): enc_entry_rt!(c08_encoding_ekey_entry_rt_w16, 25, 20, EKeyPageEntry, (16u8,));
// UNVERIFIED(not run to completion within the time budget): enc_entry_rt!(c08_encoding_ekey_entry_rt_w9, 18, 20, EKeyPageEntry, (9u8,));
// @end

// ---- C07: page checksum (ideal hash) ---------------------------------------------------------------------------
const PAGE: usize = 1024; // smallest page the header can describe (1 KB)
const WORDS: usize = PAGE / 8;
static mut MD5: Uf<{ WORDS + 1 }, 2, 4> = Uf::new();

fn md5_model(data: &[u8]) -> [u8; 16] {
    if cfg!(vreplay) {
        return md5_plain::compute(data).0;
    }
    // ideal hash over (length, content); the model only supports inputs up to one page
    assert!(data.len() <= PAGE, "md5 model: input longer than one page");
    let mut w = [0u64; WORDS + 1];
    w[WORDS] = data.len() as u64;
    let mut i = 0;
    while i < data.len() {
        w[i / 8] |= (data[i] as u64) << (8 * (i % 8));
        i += 1;
    }
    let o = unsafe { MD5.apply_injective(w, [u64::MAX; 2]) };
    let mut out = [0u8; 16];
    out[..8].copy_from_slice(&o[0].to_le_bytes());
    out[8..].copy_from_slice(&o[1].to_le_bytes());
    out
}
fn md5_stub<T: AsRef<[u8]>>(data: T) -> md5_plain::Digest {
    md5_plain::Digest(md5_model(data.as_ref()))
}

fn page_header() -> EncodingHeader {
    let mut h = EncodingHeader::new();
    h.ckey_page_size_kb = 1;
    h.ekey_page_size_kb = 1;
    h.ckey_page_count = 1;
    h.ekey_page_count = 1;
    h.espec_block_size = 1;
    h
}

// NOT REGISTERED (measured): parse_ckey_pages / parse_ekey_pages through the cfg(kani) shims on one 1024-byte page
// (smallest page a header can describe): the page loop drops binrw::Error values (padding detection), whose drop glue
// recursion is unrolled to the global unwind bound, and the 1024-byte page needs a bound > 1024 -> no result in
// 8 min / 6 GB.  The checksum primitive itself is checked below on a fully symbolic page; the order of check inside
// the page parsers (verify before entry parsing) is therefore outside this claim.

// @harness prop=C07 tier=quick timeout=1500 mem=24 role=encoding-page-verify
// @bounds one page of 1024 fully symbolic bytes, stored checksum (16 bytes) and first key symbolic
// @encodes cascette_formats::encoding::index::IndexEntry::verify
// @assumes MD5 (md5::compute) is an ideal hash: uninterpreted function of (length, bytes), injective on the inputs that occur; native replay uses the real MD5
// @catches digest compared on a prefix only, hash taken over part of the page (first / last byte left out), comparison inverted, checksum field confused with first_key
#[kani::proof]
#[kani::unwind(1030)]
#[kani::stub(md5_plain::compute, md5_stub)]
fn c07_encoding_page_verify() {
    let page: [u8; PAGE] = kani::any();
    let stored: [u8; 16] = kani::any();
    let first_key: [u8; 16] = kani::any();
    let j: usize = kani::any();
    kani::assume(j < 16);
    let ix = IndexEntry::new(first_key, stored);
    let ok = ix.verify(&page);
    let actual = md5_model(&page);
    kani::cover!(ok, "page accepted");
    kani::cover!(!ok, "page rejected");
    if ok {
        assert!(stored[j] == actual[j], "page accepted although its MD5 differs from the index checksum (every digest byte, every page byte)");
    } else {
        let mut same = true;
        let mut k = 0;
        while k < 16 {
            same &= stored[k] == actual[k];
            k += 1;
        }
        assert!(!same, "page with a matching checksum rejected");
    }
}
