// Kani harnesses for cascette-formats: C02 (parsers fail closed), C08 (record round trips),
// C07 (formats-side integrity checks).
#![allow(dead_code, unused_imports, static_mut_refs, unused_macros, unconditional_panic, unused_variables, unused_mut, unused_comparisons)]
#![cfg_attr(all(kani, vreplay), feature(alloc_error_hook))]

#[cfg(kani)]
#[path = "../../common/uf.rs"]
pub mod uf;
#[cfg(kani)]
#[path = "../../common/stubs.rs"]
pub mod stubs;

/// Allocator spy (DESIGN §2.3).  Under the model checker `std::alloc::{alloc, alloc_zeroed,
/// realloc}` are stubbed to `spy::{alloc, alloc_zeroed, realloc}`: they record the largest single
/// request and forward to CBMC's `malloc`.  In native replay (cfg(vreplay): stubs inactive) a
/// `#[global_allocator]` wrapper records the same quantity, refuses requests above 2 GiB (so a
/// replayed "header asks for 100 GB" fails the test instead of killing the process) and turns
/// allocation failure into a panic through the alloc-error hook.
#[cfg(kani)]
pub mod spy {
    use std::alloc::Layout;

    pub static mut MAX_REQ: usize = 0;
    pub static mut N_REQ: usize = 0;

    /// C02 bound: no single request above 64 * input_len + 64 KiB.
    pub const fn limit(input_len: usize) -> usize {
        64 * input_len + 64 * 1024
    }

    pub fn note(n: usize) {
        unsafe {
            if n > MAX_REQ {
                MAX_REQ = n;
            }
            N_REQ += 1;
        }
    }
    pub fn reset() {
        unsafe {
            MAX_REQ = 0;
            N_REQ = 0;
        }
        #[cfg(vreplay)]
        std::alloc::set_alloc_error_hook(|l| panic!("allocation request of {} bytes refused/failed (out of proportion to input)", l.size()));
    }
    pub fn max_req() -> usize {
        unsafe { MAX_REQ }
    }

    #[cfg(not(vreplay))]
    unsafe extern "C" {
        fn malloc(n: usize) -> *mut core::ffi::c_void;
        fn calloc(n: usize, m: usize) -> *mut core::ffi::c_void;
        #[link_name = "realloc"]
        fn c_realloc(p: *mut core::ffi::c_void, n: usize) -> *mut core::ffi::c_void;
    }

    // stubs for std::alloc::{alloc, alloc_zeroed, realloc}
    #[cfg(not(vreplay))]
    pub unsafe fn alloc(layout: Layout) -> *mut u8 {
        // recorded inline: a helper call in front of `malloc` made CBMC report spurious `__rust_dealloc` failures
        // (measured on PatchIndexHeader::parse with a concrete input; the same body without the call verifies)
        unsafe {
            if layout.size() > MAX_REQ {
                MAX_REQ = layout.size();
            }
            malloc(layout.size()) as *mut u8
        }
    }
    #[cfg(not(vreplay))]
    pub unsafe fn alloc_zeroed(layout: Layout) -> *mut u8 {
        unsafe {
            if layout.size() > MAX_REQ {
                MAX_REQ = layout.size();
            }
            calloc(layout.size(), 1) as *mut u8
        }
    }
    #[cfg(not(vreplay))]
    pub unsafe fn realloc(ptr: *mut u8, _layout: Layout, new_size: usize) -> *mut u8 {
        unsafe {
            if new_size > MAX_REQ {
                MAX_REQ = new_size;
            }
            c_realloc(ptr as *mut core::ffi::c_void, new_size) as *mut u8
        }
    }
    // native replay never calls these (stubs are inactive); keep the names resolvable
    #[cfg(vreplay)]
    pub unsafe fn alloc(layout: Layout) -> *mut u8 {
        unsafe { std::alloc::alloc(layout) }
    }
    #[cfg(vreplay)]
    pub unsafe fn alloc_zeroed(layout: Layout) -> *mut u8 {
        unsafe { std::alloc::alloc_zeroed(layout) }
    }
    #[cfg(vreplay)]
    pub unsafe fn realloc(ptr: *mut u8, layout: Layout, new_size: usize) -> *mut u8 {
        unsafe { std::alloc::realloc(ptr, layout, new_size) }
    }

    #[cfg(vreplay)]
    pub struct NativeSpy;
    #[cfg(vreplay)]
    const HARD_CAP: usize = 2 << 30;
    #[cfg(vreplay)]
    unsafe impl std::alloc::GlobalAlloc for NativeSpy {
        unsafe fn alloc(&self, l: Layout) -> *mut u8 {
            note(l.size());
            if l.size() > HARD_CAP {
                return core::ptr::null_mut();
            }
            unsafe { std::alloc::System.alloc(l) }
        }
        unsafe fn alloc_zeroed(&self, l: Layout) -> *mut u8 {
            note(l.size());
            if l.size() > HARD_CAP {
                return core::ptr::null_mut();
            }
            unsafe { std::alloc::System.alloc_zeroed(l) }
        }
        unsafe fn realloc(&self, p: *mut u8, l: Layout, n: usize) -> *mut u8 {
            note(n);
            if n > HARD_CAP {
                return core::ptr::null_mut();
            }
            unsafe { std::alloc::System.realloc(p, l, n) }
        }
        unsafe fn dealloc(&self, p: *mut u8, l: Layout) {
            unsafe { std::alloc::System.dealloc(p, l) }
        }
    }
    #[cfg(vreplay)]
    #[global_allocator]
    static GLOBAL: NativeSpy = NativeSpy;
}

#[cfg(kani)]
mod c02_archive;

#[cfg(kani)]
mod c02_patch_index;
#[cfg(kani)]
mod c02_manifests;
#[cfg(kani)]
mod c02_blte;
#[cfg(kani)]
mod c02_encoding;
#[cfg(kani)]
mod c02_misc;
#[cfg(kani)]
mod c02_archive_footer;
#[cfg(kani)]
mod c08_manifests;


