// C02 / C08 — BLTE: header + chunk table (binrw), chunk payload reader, encrypted-chunk header walk,
// LZ4 size-prefix handling.
use crate::spy;
use crate::stubs::*;
use binrw::{BinRead, BinWrite, Endian};
use cascette_crypto::TactKeyStore;
use cascette_formats::blte::{
    BlteFile, BlteHeader, ChunkData, ChunkInfo, CompressionMode, EncryptedHeader, HeaderFlags, decompress_chunk, decrypt_chunk_with_keys,
};
use std::io::Cursor;

// ---- BlteHeader::read ---------------------------------------------------------------------------------
// flags: 0 = table-format byte restricted to the two defined values, 1 = restricted to all other values
macro_rules! blte_header {
    ($name:ident, $n:expr, $unw:expr, $other:expr) => {
        #[kani::proof]
        #[kani::unwind($unw)]
        #[kani::stub(std::fmt::format, fmt_format_empty)]
        #[kani::stub(std::alloc::alloc, spy::alloc)]
        #[kani::stub(std::alloc::alloc_zeroed, spy::alloc_zeroed)]
        #[kani::stub(std::alloc::realloc, spy::realloc)]
        fn $name() {
            const N: usize = $n;
            let d: [u8; N] = kani::any();
            let fmt = *d[..].get(8).unwrap_or(&0x0F);
            if $other {
                kani::assume(d[0] == b'B' && d[1] == b'L' && d[2] == b'T' && d[3] == b'E');
                kani::assume(fmt != 0x0F && fmt != 0x10);
            } else {
                kani::assume(fmt == 0x0F || fmt == 0x10);
            }
            spy::reset();
            let mut c = Cursor::new(&d[..]);
            let r = BlteHeader::read_options(&mut c, Endian::Big, ());
            assert!(spy::max_req() <= spy::limit(N), "BlteHeader::read: allocation request out of proportion to input");
            kani::cover!(r.is_ok() || N < 8, "accepted");
            kani::cover!(r.is_err(), "rejected");
            if let Ok(h) = &r {
                if $other {
                    assert!(h.extended.is_none(), "KF:blte_header_flags_expect undefined table-format byte accepted");
                }
                assert!(h.magic == *b"BLTE", "magic");
                let hs = (d[4] as u32) << 24 | (d[5] as u32) << 16 | (d[6] as u32) << 8 | d[7] as u32;
                assert!(h.header_size == hs, "header_size is the big-endian u32 after the magic");
                assert!(h.extended.is_some() == (hs > 0), "extended header iff header_size > 0");
                if let Some(e) = &h.extended {
                    let per = if fmt == 0x0F { 24 } else { 40 };
                    assert!(e.chunk_infos.len() == e.chunk_count as usize, "table length = 24-bit chunk count");
                    assert!(12 + e.chunk_infos.len() * per <= N, "more chunk infos than the input holds");
                    assert!(e.chunk_count == (d[9] as u32) << 16 | (d[10] as u32) << 8 | d[11] as u32, "24-bit big-endian count");
                    assert!(e.flags.chunk_info_size() == per, "table format");
                    if !e.chunk_infos.is_empty() {
                        let ci = &e.chunk_infos[0];
                        assert!(ci.compressed_size == (d[12] as u32) << 24 | (d[13] as u32) << 16 | (d[14] as u32) << 8 | d[15] as u32, "compressed size BE");
                        assert!(ci.decompressed_size == (d[16] as u32) << 24 | (d[17] as u32) << 16 | (d[18] as u32) << 8 | d[19] as u32, "decompressed size BE");
                        let i: usize = kani::any();
                        kani::assume(i < 16);
                        assert!(ci.checksum[i] == d[20 + i], "checksum byte");
                        assert!(ci.decompressed_checksum.is_some() == (per == 40), "second checksum iff extended table");
                        if let Some(dc) = &ci.decompressed_checksum {
                            assert!(dc[i] == d[36 + i], "decompressed checksum byte");
                        }
                    }
                }
            }
            assert!(c.position() <= N as u64, "reader advanced past the end of the input");
            std::mem::forget(r);
        }
    };
}
// NOT REGISTERED (measured): BlteHeader::read_options on 7..60 symbolic bytes does not finish (N=7: > 10 min symex;
// N=11/12: CBMC out of memory at 16 GB after 8 min).  Cause: binrw's `[u8; 3]` / derive error paths drop a
// `binrw::Error`, whose drop glue recurses binrw::Error -> Box<dyn CustomError> -> BlteError -> io::Error ->
// Box<dyn Error> -> (every Error impl) -> ... ; each level is a case split over all candidates.  The table-entry
// reader (ChunkInfo), the payload reader (ChunkData) and HeaderFlags::from_byte are checked separately below; the
// `expect` on an undefined table-format byte is confirmed natively (see report).

// ---- ChunkInfo::read (chunk table entry; both table formats) ------------------------------------------------------
macro_rules! blte_chunk_info {
    ($name:ident, $n:expr) => {
        #[kani::proof]
        #[kani::unwind(4)]
        #[kani::stub(std::fmt::format, fmt_format_empty)]
        #[kani::stub(std::alloc::alloc, spy::alloc)]
        #[kani::stub(std::alloc::alloc_zeroed, spy::alloc_zeroed)]
        #[kani::stub(std::alloc::realloc, spy::realloc)]
        fn $name() {
            const N: usize = $n;
            let d: [u8; N] = kani::any();
            let fb: u8 = kani::any();
            let flags = HeaderFlags::from_byte(fb);
            assert!(flags.is_some() == (fb == 0x0F || fb == 0x10), "exactly two table formats are defined");
            kani::assume(flags.is_some());
            let flags = flags.unwrap();
            let per = flags.chunk_info_size();
            assert!(per == if fb == 0x0F { 24 } else { 40 }, "entry size per table format");
            spy::reset();
            let mut c = Cursor::new(&d[..]);
            let r = ChunkInfo::read_options(&mut c, Endian::Big, (flags,));
            assert!(spy::max_req() <= spy::limit(N), "ChunkInfo::read: allocation request out of proportion to input");
            kani::cover!(r.is_ok() || N < 24, "accepted");
            kani::cover!(r.is_err() || N >= 40, "rejected");
            assert!(r.is_ok() == (N >= per), "accepted iff one whole entry is present");
            if let Ok(ci) = &r {
                assert!(c.position() as usize == per, "consumed exactly one entry");
                assert!(ci.compressed_size == (d[0] as u32) << 24 | (d[1] as u32) << 16 | (d[2] as u32) << 8 | d[3] as u32, "compressed size BE");
                assert!(ci.decompressed_size == (d[4] as u32) << 24 | (d[5] as u32) << 16 | (d[6] as u32) << 8 | d[7] as u32, "decompressed size BE");
                let i: usize = kani::any();
                kani::assume(i < 16);
                assert!(ci.checksum[i] == d[8 + i], "checksum byte");
                assert!(ci.decompressed_checksum.is_some() == (per == 40), "second checksum iff extended table");
                if let Some(dc) = &ci.decompressed_checksum {
                    assert!(dc[i] == d[24 + i], "decompressed checksum byte");
                }
                // C08: write back
                let mut out = [0u8; N];
                let mut wc = Cursor::new(&mut out[..]);
                let w = ci.write_options(&mut wc, Endian::Big, (flags,));
                assert!(w.is_ok() && wc.position() as usize == per, "write(read(b)) failed / wrong length");
                let q: usize = kani::any();
                kani::assume(q < per);
                assert!(out[q] == d[q], "write(read(b)) differs from b");
                std::mem::forget(w);
            }
            std::mem::forget(r);
        }
    };
}
// @family prop=C02 tier=quick timeout=900 role=blte-chunk-info
// @bounds one chunk-table entry buffer of concrete length N (23, 24, 39, 40), every byte symbolic; table-format byte symbolic (both defined formats; all other bytes shown to be undefined by HeaderFlags::from_byte)
// @encodes cascette_formats::blte::header::ChunkInfo::read_options, cascette_formats::blte::header::ChunkInfo::write_options, cascette_formats::blte::header::HeaderFlags::from_byte, cascette_formats::blte::header::HeaderFlags::chunk_info_size
// @assumes std::fmt::format stubbed; allocator spy
// @catches entry size wrong for a format, second checksum read/written for the wrong format, size endianness, read past the end; also the C08 direction write(read(b)) == b for both formats
blte_chunk_info!(c02_blte_chunk_info_n23, 23);
blte_chunk_info!(c02_blte_chunk_info_n24, 24);
blte_chunk_info!(c02_blte_chunk_info_n39, 39);
blte_chunk_info!(c02_blte_chunk_info_n40, 40);
// @end

// ---- ChunkData::read (payload reader; compressed_size comes from the chunk table) ----------------------------
macro_rules! blte_chunk_read {
    ($name:ident, $n:expr, $cs:expr, $msg:expr) => {
        #[kani::proof]
        #[kani::unwind(4)]
        #[kani::stub(std::fmt::format, fmt_format_empty)]
        #[kani::stub(std::alloc::alloc, spy::alloc)]
        #[kani::stub(std::alloc::alloc_zeroed, spy::alloc_zeroed)]
        #[kani::stub(std::alloc::realloc, spy::realloc)]
        fn $name() {
            const N: usize = $n;
            let d: [u8; N] = kani::any();
            let cs: usize = $cs;
            spy::reset();
            let mut c = Cursor::new(&d[..]);
            let r = ChunkData::read_options(&mut c, Endian::Big, (cs,));
            assert!(spy::max_req() <= spy::limit(N), $msg);
            kani::cover!(r.is_ok() || cs == 0 || cs > N, "accepted");
            kani::cover!(r.is_err() || (cs >= 1 && cs <= N), "rejected");
            if let Ok(ch) = &r {
                assert!(cs >= 1 && cs <= N, "accepted a chunk larger than the input / empty");
                assert!(ch.data.len() == cs - 1 && ch.mode.as_byte() == d[0], "mode byte + payload");
            }
            std::mem::forget(r);
        }
    };
}
// @family prop=C02 tier=quick timeout=900 role=blte-chunk-read
// @bounds payload buffer of N symbolic bytes, compressed_size concrete per harness (name: cs<value>: 0, 1, N, N+1)
// @encodes cascette_formats::blte::chunk::ChunkData::read_options, cascette_formats::blte::chunk::CompressionMode::from_byte
// @catches compressed_size-1 underflow, unknown mode accepted, payload length off by one
blte_chunk_read!(c02_blte_chunk_read_n4_cs0, 4, 0, "alloc");
blte_chunk_read!(c02_blte_chunk_read_n4_cs1, 4, 1, "alloc");
blte_chunk_read!(c02_blte_chunk_read_n4_cs4, 4, 4, "alloc");
blte_chunk_read!(c02_blte_chunk_read_n4_cs5, 4, 5, "alloc");
// @end
// @harness prop=C02 tier=quick timeout=900 role=blte-chunk-read-alloc
// @bounds 4-byte payload buffer, compressed_size = 0xFFFF_FFFF (largest value a chunk-table entry can carry)
// @encodes cascette_formats::blte::chunk::ChunkData::read_options
// @catches regression of fix d477887: payload buffer allocated from the table's 32-bit size field before the remaining input is known (4 GiB request from a 40-byte file)
blte_chunk_read!(c02_blte_chunk_read_alloc, 4, 0xFFFF_FFFF, "ChunkData::read: allocation request out of proportion to input");

// ---- decrypt_chunk_with_keys: header walk -----------------------------------------------------------------------
static KEY: [u8; 16] = [7; 16];
fn stub_key_get(_s: &TactKeyStore, _id: u64) -> Option<&'static [u8; 16]> {
    if kani::any() { Some(&KEY) } else { None }
}
// cipher stand-ins: output has the input's length and arbitrary content (over-approximates any stream cipher)
fn stub_salsa(data: &[u8], _key: &[u8; 16], iv: &[u8], _idx: usize) -> Result<Vec<u8>, cascette_crypto::CryptoError> {
    assert!(iv.len() == 4 || iv.len() == 8, "cipher called with an IV length it rejects");
    let mut v = data.to_vec();
    if !v.is_empty() {
        v[0] = kani::any();
    }
    Ok(v)
}
fn stub_arc4_new(_key: &[u8]) -> Result<cascette_crypto::Arc4Cipher, cascette_crypto::arc4::Arc4Error> {
    Ok(cascette_crypto::arc4::verif_access::from_parts([0u8; 256], 0, 0))
}
fn stub_arc4_decrypt(_c: &mut cascette_crypto::Arc4Cipher, data: &[u8]) -> Vec<u8> {
    let mut v = data.to_vec();
    if !v.is_empty() {
        v[0] = kani::any();
    }
    v
}
static mut INNER_CALLS: usize = 0;
fn stub_decompress(_data: &[u8], mode: CompressionMode) -> cascette_formats::blte::BlteResult<Vec<u8>> {
    unsafe { INNER_CALLS += 1 };
    assert!(mode != CompressionMode::Encrypted, "nested encryption handed to the inner decoder");
    Ok(Vec::new())
}
macro_rules! blte_decrypt_walk {
    ($name:ident, $n:expr) => {
        #[kani::proof]
        #[kani::unwind(4)]
        #[kani::stub(std::fmt::format, fmt_format_empty)]
        #[kani::stub(std::hash::RandomState::new, fixed_random_state)]
        #[kani::stub(cascette_crypto::keys::TactKeyStore::get, stub_key_get)]
        #[kani::stub(cascette_crypto::salsa20::decrypt_salsa20, stub_salsa)]
        #[kani::stub(cascette_crypto::arc4::Arc4Cipher::new, stub_arc4_new)]
        #[kani::stub(cascette_crypto::arc4::Arc4Cipher::decrypt, stub_arc4_decrypt)]
        #[kani::stub(cascette_formats::blte::compression::decompress_chunk, stub_decompress)]
        #[kani::stub(std::alloc::alloc, spy::alloc)]
        #[kani::stub(std::alloc::alloc_zeroed, spy::alloc_zeroed)]
        #[kani::stub(std::alloc::realloc, spy::realloc)]
        fn $name() {
            const N: usize = $n;
            let d: [u8; N] = kani::any();
            let idx: usize = kani::any();
            let ks = TactKeyStore::empty();
            spy::reset();
            let r = decrypt_chunk_with_keys(&d, &ks, idx);
            assert!(spy::max_req() <= spy::limit(N), "decrypt_chunk_with_keys: allocation request out of proportion to input");
            kani::cover!(r.is_ok() || N < 16, "accepted");
            kani::cover!(r.is_err(), "rejected");
            if r.is_ok() {
                // accepted => the fixed layout [8][name:8][4|8][iv][S|A][data..] fits
                assert!(N >= 16 && d[0] == 8, "minimum length 16 (15-byte header + inner mode byte, fix 9f7479c) and key name size 8");
                assert!(d[9] == 4 || d[9] == 8, "IV size must be 4 or 8");
                let t = 10 + d[9] as usize;
                assert!(t < N, "type byte beyond the input");
                assert!(d[t] == 0x53 || d[t] == 0x41, "unknown cipher accepted");
            }
            std::mem::forget(r);
            std::mem::forget(ks);
        }
    };
}
// @family prop=C02 tier=quick timeout=900 role=blte-decrypt-header-walk
// @bounds encrypted-chunk body of concrete length N (name: n<N>; 15 = below minimum, 16 = minimum (empty payload, fix 9f7479c), 17..24 = around the 8-byte IV layout), every byte and the block index symbolic
// @encodes cascette_formats::blte::compression::decrypt_chunk_with_keys
// @assumes key store lookup nondeterministic (present/absent); Salsa20 / ARC4 replaced by length-preserving stand-ins with arbitrary first byte (mode letter of the plaintext); inner decompress_chunk stubbed; std::fmt::format stubbed; RandomState pinned
// @catches slice past the end for iv_size 8 with a 16..20-byte body, missing minimum-length check, accepting other key-name / IV sizes, nested 'E' passed on, offsets shifted by one
blte_decrypt_walk!(c02_blte_decrypt_walk_n15, 15);
blte_decrypt_walk!(c02_blte_decrypt_walk_n16, 16);
blte_decrypt_walk!(c02_blte_decrypt_walk_n17, 17);
blte_decrypt_walk!(c02_blte_decrypt_walk_n18, 18);
blte_decrypt_walk!(c02_blte_decrypt_walk_n19, 19);
blte_decrypt_walk!(c02_blte_decrypt_walk_n20, 20);
blte_decrypt_walk!(c02_blte_decrypt_walk_n24, 24);
// @end

// ---- decompress_chunk: LZ4 8-byte size prefix vs MAX_DECOMPRESSION_SIZE ----------------------------------------
const CAP: usize = 1024 * 1024 * 1024;
static mut LZ4_CLAIM: usize = 0;
static mut LZ4_CALLS: usize = 0;
static mut LZ4_FAIL: bool = false;
// No calls inside the stand-in (helper calls inside stubs on allocation-heavy paths produced spurious
// `__rust_dealloc` failures in this Kani version): the outcome is chosen by the harness through LZ4_FAIL, the
// size claim is recorded and judged by the harness.
fn stub_lz4(_input: &[u8], min_uncompressed_size: usize) -> Result<Vec<u8>, lz4_flex::block::DecompressError> {
    unsafe {
        LZ4_CALLS += 1;
        LZ4_CLAIM = min_uncompressed_size;
        if LZ4_FAIL { Err(lz4_flex::block::DecompressError::ExpectedAnotherByte) } else { Ok(Vec::with_capacity(1)) }
    }
}
macro_rules! blte_lz4_prefix {
    ($name:ident, $n:expr) => {
        #[kani::proof]
        #[kani::unwind(10)]
        #[kani::stub(std::fmt::format, fmt_format_empty)]
        #[kani::stub(lz4_flex::block::decompress_safe::decompress, stub_lz4)]
        #[kani::stub(std::alloc::alloc, spy::alloc)]
        #[kani::stub(std::alloc::alloc_zeroed, spy::alloc_zeroed)]
        #[kani::stub(std::alloc::realloc, spy::realloc)]
        fn $name() {
            const N: usize = $n;
            let d: [u8; N] = kani::any();
            // mode concrete (a symbolic mode would make the symbolic execution walk into the zlib decoder)
            let m: u8 = b'4';
            let mode = CompressionMode::LZ4;
            let fail: bool = kani::any();
            unsafe { LZ4_FAIL = fail };
            spy::reset();
            let r = decompress_chunk(&d, mode);
            // the real decoder (native replay) may allocate up to the documented 1 GiB cap
            assert!(spy::max_req() <= if cfg!(vreplay) { CAP + spy::limit(N) } else { spy::limit(N) }, "decompress_chunk: allocation request out of proportion to input");
            // a claim above the cap must never reach the decoder (which allocates `claim` bytes first)
            assert!(cfg!(vreplay) || unsafe { LZ4_CALLS == 0 || LZ4_CLAIM <= CAP }, "LZ4 size claim above MAX_DECOMPRESSION_SIZE reached the decoder (allocation)");
            kani::cover!(r.is_ok() && m == b'4' || N < 8, "LZ4 chunk accepted");
            kani::cover!(r.is_err() && m == b'4', "LZ4 chunk rejected");
            let claim = if N >= 8 {
                let mut v = 0u64;
                let mut i = 8;
                while i > 0 {
                    i -= 1;
                    v = (v << 8) | d[..][i] as u64;
                }
                v
            } else {
                0
            };
            match (&r, m) {
                (Ok(v), b'N') => assert!(v.len() == N, "mode N is the identity"),
                (Ok(v), b'4') => {
                    assert!(N >= 8 && claim <= CAP as u64, "LZ4 chunk accepted without / above the size prefix cap");
                    assert!(v.len() as u64 == claim, "LZ4 output length differs from the prefix");
                    assert!(cfg!(vreplay) || unsafe { LZ4_CALLS == 1 && LZ4_CLAIM as u64 == claim }, "decoder called with the little-endian prefix");
                }
                (Ok(_), _) => assert!(false, "modes E / F must be rejected here"),
                (Err(_), b'N') => assert!(false, "mode N cannot fail"),
                (Err(_), _) => {}
            }
            if m == b'4' && (N < 8 || claim > CAP as u64) {
                assert!(unsafe { LZ4_CALLS == 0 }, "decoder reached for a short / over-cap LZ4 chunk");
            }
            std::mem::forget(r);
        }
    };
}
// @family prop=C02 tier=quick timeout=900 role=blte-decompress-lz4-prefix
// @bounds chunk body of concrete length N (name: n<N>: 0, 7, 8, 9, 16), every byte symbolic (so the 64-bit size claim is arbitrary), mode LZ4
// @encodes cascette_formats::blte::compression::decompress_chunk
// @assumes lz4_flex block decoder replaced by a stand-in that records the size claim it is given and returns Err / an empty vector with capacity 1 (chosen by the harness); mode Z (zlib, third-party streaming decoder) outside; allocator spy (the stand-in allocates 1 byte: an empty non-allocated Vec returned from a stub makes this Kani version report a spurious __rust_dealloc failure)
// @catches cap compared with `>=` vs `>` / wrong constant, prefix read big-endian, cap checked after the decoder call, missing short-input check, size mismatch not rejected
blte_lz4_prefix!(c02_blte_lz4_prefix_n0, 0);
blte_lz4_prefix!(c02_blte_lz4_prefix_n7, 7);
blte_lz4_prefix!(c02_blte_lz4_prefix_n8, 8);
blte_lz4_prefix!(c02_blte_lz4_prefix_n9, 9);
blte_lz4_prefix!(c02_blte_lz4_prefix_n16, 16);
// @end

// ---- C08: header + chunk table round trip ------------------------------------------------------------------------
macro_rules! blte_header_rt {
    ($name:ident, $n:expr, $unw:expr, $fmt:expr, $k:expr) => {
        #[kani::proof]
        #[kani::unwind($unw)]
        #[kani::stub(std::fmt::format, fmt_format_empty)]
        fn $name() {
            const N: usize = $n;
            let mut b: [u8; N] = kani::any();
            if N > 8 {
                b[8] = $fmt;
            }
            let mut c = Cursor::new(&b[..]);
            let r = BlteHeader::read_options(&mut c, Endian::Big, ());
            kani::cover!(r.is_ok(), "accepted");
            if let Ok(h) = &r {
                let used = c.position() as usize;
                kani::cover!(h.extended.as_ref().map_or(0, |e| e.chunk_infos.len()) == $k, "full chunk table");
                let mut out = [0u8; N];
                let mut wc = Cursor::new(&mut out[..]);
                let w = h.write_options(&mut wc, Endian::Big, ());
                assert!(w.is_ok(), "write(read(b)) failed");
                assert!(wc.position() as usize == used, "rebuilt header has a different length");
                let i: usize = kani::any();
                kani::assume(i < used);
                assert!(out[i] == b[i], "write(read(b)) differs from b");
                std::mem::forget(w);
            }
            std::mem::forget(r);
        }
    };
}
// NOT REGISTERED: BlteHeader read/write round trip (same infeasibility as above); the per-entry round trip is part of
// the blte-chunk-info family.

// ---- the two binrw try_map sites (fix 6282cac): undefined table-format / encryption-type bytes are errors --------------
// NOT REGISTERED (measured: CBMC out of memory at 16 GB after 425 s even with only the format byte symbolic)
// harness prop=C02 role=blte-header-table-format-byte
// @bounds 12-byte header "BLTE" + header_size 12 + table-format byte SYMBOLIC (all 256 values) + chunk count 0; magic, size and count concrete (a fully symbolic header does not finish: binrw error drop glue)
// @encodes cascette_formats::blte::header::BlteHeader::read_options, cascette_formats::blte::header::ExtendedHeader::read_options, cascette_formats::blte::header::HeaderFlags::from_byte
// @assumes std::fmt::format stubbed (error text)
// @catches regression of fix 6282cac: `expect` / unwrap on an undefined table-format byte (panic instead of Err); accepting an undefined format
#[kani::proof]
#[kani::unwind(5)]
#[kani::stub(std::fmt::format, fmt_format_empty)]
fn c02_blte_header_table_format_byte() {
    let fb: u8 = kani::any();
    let d: [u8; 12] = [b'B', b'L', b'T', b'E', 0, 0, 0, 12, fb, 0, 0, 0];
    let mut c = Cursor::new(&d[..]);
    let r = BlteHeader::read_options(&mut c, Endian::Big, ());
    kani::cover!(r.is_ok(), "defined format accepted");
    kani::cover!(r.is_err(), "undefined format rejected");
    assert!(r.is_ok() == (fb == 0x0F || fb == 0x10), "header accepted iff the table-format byte is 0x0F or 0x10");
    std::mem::forget(r);
}

// NOT REGISTERED (measured: CBMC out of memory after 734 s with only key name / iv / type byte symbolic)
// harness prop=C02 role=blte-encrypted-header-type-byte
// @bounds 15-byte encrypted-chunk header [8][key name: 8 symbolic bytes][4][iv: 4 symbolic bytes][type byte SYMBOLIC]; the two length bytes concrete
// @encodes cascette_formats::blte::encryption::EncryptedHeader::read_options, cascette_formats::blte::encryption::EncryptionType::from_byte
// @assumes std::fmt::format stubbed (error text)
// @catches regression of fix 6282cac: `expect` on an undefined encryption-type byte (panic instead of Err); accepting an undefined type
#[kani::proof]
#[kani::unwind(10)]
#[kani::stub(std::fmt::format, fmt_format_empty)]
fn c02_blte_encrypted_header_type_byte() {
    let kn: [u8; 8] = kani::any();
    let iv: [u8; 4] = kani::any();
    let tb: u8 = kani::any();
    let d: [u8; 15] = [8, kn[0], kn[1], kn[2], kn[3], kn[4], kn[5], kn[6], kn[7], 4, iv[0], iv[1], iv[2], iv[3], tb];
    let mut c = Cursor::new(&d[..]);
    let r = EncryptedHeader::read_options(&mut c, Endian::Big, ());
    kani::cover!(r.is_ok(), "defined type accepted");
    kani::cover!(r.is_err(), "undefined type rejected");
    assert!(r.is_ok() == (tb == b'S' || tb == b'A'), "encrypted header accepted iff the type byte is 'S' or 'A'");
    if let Ok(h) = &r {
        assert!(h.key_name.len() == 8 && h.iv.len() == 4 && h.key_id() == u64::from_le_bytes(kn), "key name / iv fields");
    }
    std::mem::forget(r);
}
