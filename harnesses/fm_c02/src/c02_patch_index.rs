// C02 / C08 — patch index: header (hand-written slice parser), entries, block 2 / block 8 parsers.
use crate::spy;
use crate::stubs::*;
use cascette_formats::patch_index::parser::{parse_block2, parse_block8, parse_patch_index};
use cascette_formats::patch_index::{BlockDescriptor, PatchIndexEntry, PatchIndexHeader};

fn le32(d: &[u8], p: usize) -> u32 {
    (d[p] as u32) | (d[p + 1] as u32) << 8 | (d[p + 2] as u32) << 16 | (d[p + 3] as u32) << 24
}

// ---- PatchIndexEntry::parse -------------------------------------------------------------------------
// Specification: the entry is 3*key_size+13 bytes; every key_size a block header can carry (u8) must
// give Some/None without panic.  key_size > 16 cannot be stored in the 16-byte key fields.
macro_rules! pi_entry_parse {
    ($name:ident, $n:expr, $ks_lo:expr, $ks_hi:expr, $msg:expr) => {
        #[kani::proof]
        #[kani::unwind(4)]
        fn $name() {
            const N: usize = $n;
            let data: [u8; N] = kani::any();
            let ks: u8 = kani::any();
            kani::assume(ks >= $ks_lo && ks <= $ks_hi);
            let r = PatchIndexEntry::parse(&data, ks);
            let k = ks as usize;
            kani::cover!(r.is_some() || 3 * ($ks_lo as usize) + 13 > N, "accepted (where an entry fits)");
            kani::cover!(r.is_none() || 3 * ($ks_hi as usize) + 13 <= N, "rejected (where some width does not fit)");
            match r {
                Some(e) => {
                    assert!(3 * k + 13 <= N, $msg);
                    let i: usize = kani::any();
                    kani::assume(i < 16);
                    let sel = |base: usize| if i < k { data[base + i] } else { 0 };
                    assert!(e.source_ekey[i] == sel(0), "source key byte / zero padding");
                    assert!(e.source_size == le32(&data, k), "source size (LE u32 after source key)");
                    assert!(e.target_ekey[i] == sel(k + 4), "target key byte / zero padding");
                    assert!(e.target_size == le32(&data, 2 * k + 4), "target size");
                    assert!(e.encoded_size == le32(&data, 2 * k + 8), "encoded size");
                    assert!(e.suffix_offset == data[2 * k + 12], "suffix offset byte");
                    assert!(e.patch_ekey[i] == sel(2 * k + 13), "patch key byte / zero padding");
                }
                None => assert!(3 * k + 13 > N, "entry that fits was rejected"),
            }
        }
    };
}
// @family prop=C02 tier=quick timeout=600 role=patch-index-entry-parse
// @bounds entry buffer of concrete length N (name: n<N>) with symbolic content; key_size symbolic in 0..=16 (the widths the 16-byte key fields can hold)
// @encodes cascette_formats::patch_index::entry::PatchIndexEntry::parse, cascette_formats::patch_index::entry::entry_size
// @catches length check off by one, field offsets shifted, wrong endianness, keys not zero-padded, suffix byte read from the wrong position
pi_entry_parse!(c02_patch_index_entry_parse_n12, 12, 0, 16, "accepted an entry that does not fit");
pi_entry_parse!(c02_patch_index_entry_parse_n13, 13, 0, 16, "accepted an entry that does not fit");
pi_entry_parse!(c02_patch_index_entry_parse_n40, 40, 0, 16, "accepted an entry that does not fit");
pi_entry_parse!(c02_patch_index_entry_parse_n60, 60, 0, 16, "accepted an entry that does not fit");
pi_entry_parse!(c02_patch_index_entry_parse_n61, 61, 0, 16, "accepted an entry that does not fit");
pi_entry_parse!(c02_patch_index_entry_parse_n64, 64, 0, 16, "accepted an entry that does not fit");
// @end

// @harness prop=C02 tier=quick timeout=600 role=patch-index-entry-parse-wide-key
// @bounds 64 / 800 symbolic bytes, key_size symbolic in 17..=255 (a block header's key_size byte is unchecked input)
// @encodes cascette_formats::patch_index::entry::PatchIndexEntry::parse
// @catches regression of fix 48c0d5d: key_size > 16 must give None; slicing the 16-byte key arrays with it panics
#[kani::proof]
#[kani::unwind(4)]
fn c02_patch_index_entry_parse_wide_key() {
    let data: [u8; 64] = kani::any();
    let ks: u8 = kani::any();
    kani::assume(ks >= 17);
    let r = PatchIndexEntry::parse(&data, ks);
    kani::cover!(r.is_none(), "too short for the claimed width");
    assert!(r.is_none(), "PatchIndexEntry::parse accepted key_size > 16 (keys are 16-byte arrays)");
}

// ---- PatchIndexHeader::parse --------------------------------------------------------------------------
macro_rules! pi_header_parse {
    ($name:ident, $n:expr, $alloc:expr) => {
        #[kani::proof]
        #[kani::unwind(8)]
        #[kani::stub(std::alloc::alloc, spy::alloc)]
        #[kani::stub(std::alloc::alloc_zeroed, spy::alloc_zeroed)]
        #[kani::stub(std::alloc::realloc, spy::realloc)]
        fn $name() {
            const N: usize = $n;
            let data: [u8; N] = kani::any();
            spy::reset();
            let r = PatchIndexHeader::parse(&data);
            if $alloc {
                assert!(spy::max_req() <= spy::limit(N), "PatchIndexHeader::parse: block table reservation out of proportion to input");
            }
            kani::cover!(r.is_ok() || N < 18, "accepted");
            kani::cover!(r.is_err(), "rejected");
            if let Ok(h) = &r {
                // accepted => everything the header describes lies inside the input
                assert!(N >= 18 && h.version == 1, "accepted header: version/length");
                assert!(h.header_size as usize <= N, "accepted header_size beyond the input");
                assert!(h.blocks.len() <= N.saturating_sub(18) / 8, "more block descriptors than the input holds");
                assert!(h.extra_data.len() <= N, "extra data longer than the input");
                assert!(h.header_size == le32(&data, 0) && h.data_size == le32(&data, 8), "fixed fields");
                let mut total = h.header_size as u64;
                let mut i = 0;
                while i < h.blocks.len() {
                    total += h.blocks[i].block_size as u64;
                    i += 1;
                }
                assert!(total <= N as u64, "accepted blocks that extend past the input");
            }
            std::mem::forget(r);
        }
    };
}
// @family prop=C02 tier=quick timeout=900 role=patch-index-header-parse
// @bounds input of concrete length N (name: n<N>), all bytes symbolic (header_size, version, extra-header length, key_size, block_count, descriptors)
// @encodes cascette_formats::patch_index::header::PatchIndexHeader::parse
// @assumes allocator spy active but its bound is asserted only in the *_alloc harnesses
// @catches unchecked slice after `pos += key_size`, missing truncation check, block table read past the end, block sizes not bounded by the input
pi_header_parse!(c02_patch_index_header_parse_n13, 13, false);
pi_header_parse!(c02_patch_index_header_parse_n14, 14, false);
pi_header_parse!(c02_patch_index_header_parse_n18, 18, false);
pi_header_parse!(c02_patch_index_header_parse_n27, 27, false);
pi_header_parse!(c02_patch_index_header_parse_n43, 43, false);
// @end
// @family prop=C02 tier=quick timeout=900 role=patch-index-header-alloc
// @bounds input of concrete length N, all bytes symbolic
// @encodes cascette_formats::patch_index::header::PatchIndexHeader::parse
// @assumes allocator spy: std::alloc::{alloc,alloc_zeroed,realloc} record the largest request
// @catches regression of fix bc1e587: Vec::with_capacity(block_count) with block_count an unchecked u32 from the input (18-byte input requested up to 32 GiB); cap dropped or computed from the wrong remaining length
pi_header_parse!(c02_patch_index_header_alloc_n18, 18, true);
pi_header_parse!(c02_patch_index_header_alloc_n27, 27, true);
// @end

// ---- block parsers ----------------------------------------------------------------------------------------
macro_rules! pi_block {
    ($name:ident, $f:ident, $n:expr, $min:expr, $kslo:expr, $kshi:expr) => {
        #[kani::proof]
        #[kani::unwind(7)]
        #[kani::stub(std::alloc::alloc, spy::alloc)]
        #[kani::stub(std::alloc::alloc_zeroed, spy::alloc_zeroed)]
        #[kani::stub(std::alloc::realloc, spy::realloc)]
        fn $name() {
            const N: usize = $n;
            let data: [u8; N] = kani::any();
            // the key_size byte of the block header (offset 4 in block 2, offset 1 in block 8)
            let ksb = *data[..].get(if $min == 5 { 4 } else { 1 }).unwrap_or(&0);
            kani::assume(ksb >= $kslo && ksb <= $kshi);
            spy::reset();
            let r = $f(&data);
            assert!(spy::max_req() <= spy::limit(N), "block parser: allocation request out of proportion to input");
            kani::cover!(r.is_ok() || N < $min, "accepted");
            kani::cover!(r.is_err(), "rejected");
            if let Ok((ks, es)) = &r {
                assert!(*ks == ksb, "key size reported");
                assert!(es.len() * (3 * (*ks as usize) + 13) <= N, "more entries than the input holds");
            }
            std::mem::forget(r);
        }
    };
}
// @family prop=C02 tier=quick timeout=900 role=patch-index-block-parsers
// @bounds block of concrete length N (name: n<N>), all bytes symbolic, key_size byte restricted to 0..=16 (wider keys: see the wide-key harness)
// @encodes cascette_formats::patch_index::parser::parse_block2, cascette_formats::patch_index::parser::parse_block8, cascette_formats::patch_index::entry::PatchIndexEntry::parse
// @catches entry_count not bounded by the block length before allocation, `needed` computed without the header, data_offset beyond the block, multiplication overflow
pi_block!(c02_patch_index_block2_n4, parse_block2, 4, 5, 0, 16);
pi_block!(c02_patch_index_block2_n5, parse_block2, 5, 5, 0, 16);
pi_block!(c02_patch_index_block2_n44, parse_block2, 44, 5, 0, 16);
pi_block!(c02_patch_index_block8_n13, parse_block8, 13, 14, 0, 16);
pi_block!(c02_patch_index_block8_n14, parse_block8, 14, 14, 0, 16);
pi_block!(c02_patch_index_block8_n40, parse_block8, 40, 14, 0, 16);
// @end

// @harness prop=C02 tier=quick timeout=900 role=patch-index-block2-wide-key
// @bounds 80-byte block, all bytes symbolic, key_size byte 17..=255
// @encodes cascette_formats::patch_index::parser::parse_block2, cascette_formats::patch_index::entry::PatchIndexEntry::parse
// @catches regression of fix 48c0d5d: a block whose key_size byte exceeds 16 must be rejected (or hold no entries), never panic / yield entries
#[kani::proof]
#[kani::unwind(4)]
fn c02_patch_index_block2_wide_key() {
    let data: [u8; 80] = kani::any();
    kani::assume(data[4] >= 17);
    let r = parse_block2(&data);
    kani::cover!(r.is_err(), "rejected");
    if let Ok((_, es)) = &r {
        assert!(es.is_empty(), "parse_block2 returned entries for key_size > 16");
    }
    std::mem::forget(r);
}

// ---- C08: entry and header round trips --------------------------------------------------------------------
macro_rules! pi_entry_rt {
    ($name:ident, $ks:expr) => {
        #[kani::proof]
        #[kani::unwind(4)]
        fn $name() {
            const KS: usize = $ks;
            const N: usize = 3 * KS + 13;
            let b: [u8; N] = kani::any();
            let e = match PatchIndexEntry::parse(&b, KS as u8) {
                Some(e) => e,
                None => {
                    assert!(false, "exact-size entry rejected");
                    return;
                }
            };
            let w = e.build(KS as u8);
            assert!(w.len() == N, "build length");
            let i: usize = kani::any();
            kani::assume(i < N);
            assert!(w[i] == b[i], "write(read(b)) != b");
            let e2 = PatchIndexEntry::parse(&w, KS as u8);
            assert!(e2.is_some(), "read(write(read(b))) failed");
            let e2 = e2.unwrap();
            let j: usize = kani::any();
            kani::assume(j < 16);
            assert!(
                e2.source_ekey[j] == e.source_ekey[j] && e2.target_ekey[j] == e.target_ekey[j] && e2.patch_ekey[j] == e.patch_ekey[j],
                "keys changed"
            );
            assert!(
                e2.source_size == e.source_size && e2.target_size == e.target_size && e2.encoded_size == e.encoded_size && e2.suffix_offset == e.suffix_offset,
                "scalar fields changed"
            );
            // value direction: arbitrary field values with keys confined to the first KS bytes
            let v = PatchIndexEntry {
                source_ekey: kani::any(),
                source_size: kani::any(),
                target_ekey: kani::any(),
                target_size: kani::any(),
                encoded_size: kani::any(),
                suffix_offset: kani::any(),
                patch_ekey: kani::any(),
            };
            let wv = v.build(KS as u8);
            let rv = PatchIndexEntry::parse(&wv, KS as u8).unwrap();
            if j < KS {
                assert!(rv.source_ekey[j] == v.source_ekey[j] && rv.target_ekey[j] == v.target_ekey[j] && rv.patch_ekey[j] == v.patch_ekey[j], "read(write(v)) keys");
            }
            assert!(
                rv.source_size == v.source_size && rv.target_size == v.target_size && rv.encoded_size == v.encoded_size && rv.suffix_offset == v.suffix_offset,
                "read(write(v)) scalars"
            );
            kani::cover!(e.suffix_offset == 1 && e.source_size > 0xFFFF, "typical entry");
            std::mem::forget((w, wv));
        }
    };
}
// @family prop=C08 tier=quick timeout=600 role=patch-index-entry-roundtrip
// @bounds key_size concrete per harness (16, 9, 0), entry bytes fully symbolic (3*ks+13 bytes), and independently all field values symbolic
// @encodes cascette_formats::patch_index::entry::PatchIndexEntry::parse, cascette_formats::patch_index::entry::PatchIndexEntry::build
// @catches field order differing between parse and build, endianness mismatch, suffix byte dropped, key truncation
pi_entry_rt!(c08_patch_index_entry_rt_k16, 16);
pi_entry_rt!(c08_patch_index_entry_rt_k9, 9);
pi_entry_rt!(c08_patch_index_entry_rt_k0, 0);
// @end

// header: write(read(b)) reproduces the header bytes it was read from
// The two structure fields that size slices inside build (extra-header length, key_size) are concrete per harness:
// with them symbolic the rebuilt Vec has a symbolic size and CBMC runs out of memory (measured: 16 GB at N = 27).
macro_rules! pi_header_rt {
    ($name:ident, $n:expr, $xl:expr, $ks:expr) => {
        #[kani::proof]
        #[kani::unwind(8)]
        fn $name() {
            const N: usize = $n;
            let mut b: [u8; N] = kani::any();
            b[12] = $xl;
            b[13] = 0;
            b[14] = $ks;
            let r = PatchIndexHeader::parse(&b);
            kani::cover!(r.is_ok(), "accepted");
            if let Ok(h) = &r {
                kani::cover!(h.blocks.len() == 1, "one block descriptor");
                assert!(h.key_size == $ks && h.key_size <= 16, "key size field");
                let w = h.build();
                assert!(w.len() <= N, "rebuilt header longer than the bytes it was parsed from");
                let i: usize = kani::any();
                kani::assume(i < w.len());
                assert!(w[i] == b[i], "write(read(b)) differs from b");
                std::mem::forget(w);
            }
            std::mem::forget(r);
        }
    };
}
// NOT REGISTERED (measured: CBMC out of memory at 16 GB after ~130 s, also with the extra-header length and key size concrete: the
// block count still makes the rebuilt Vec a symbolic-size object)
// family prop=C08 role=patch-index-header-roundtrip
// @bounds 43 input bytes, all symbolic except the extra-header length and the key_size byte, concrete per harness (name: x<extra len>_k<key size>: 1/0, 4/3, 17/16, 20/16 = 3 bytes of extra data); header_size, version, data_size, key bytes, extra data, block count and descriptors symbolic
// @encodes cascette_formats::patch_index::header::PatchIndexHeader::parse, cascette_formats::patch_index::header::PatchIndexHeader::build
// @catches extra-header length computed differently by build and parse, block table order, field endianness, key bytes dropped
pi_header_rt!(c08_patch_index_header_rt_x1_k0, 43, 1, 0);
pi_header_rt!(c08_patch_index_header_rt_x4_k3, 43, 4, 3);
pi_header_rt!(c08_patch_index_header_rt_x17_k16, 43, 17, 16);
pi_header_rt!(c08_patch_index_header_rt_x20_k16, 43, 20, 16);
// @end
// @harness prop=C08 tier=quick timeout=900 role=patch-index-header-build-wide-key
// @bounds 43 symbolic bytes with extra-header length 18 and the key_size byte symbolic in 17..=255
// @encodes cascette_formats::patch_index::header::PatchIndexHeader::parse
// @catches regression of patch patch_index_header_key_size: parse accepting key_size > 16 (copies min(16) bytes, skips key_size) while build slices key_data[..key_size] and panics (fails / does not finish on a tree without the patch)
#[kani::proof]
#[kani::unwind(8)]
fn c08_patch_index_header_build_wide_key() {
    let mut b: [u8; 43] = kani::any();
    b[12] = 18;
    b[13] = 0;
    kani::assume(b[14] >= 17);
    let r = PatchIndexHeader::parse(&b);
    kani::cover!(r.is_err() && b[4] == 1 && b[0] == 43 && b[1] == 0 && b[2] == 0 && b[3] == 0, "well-formed header with a wide key rejected");
    assert!(r.is_err(), "PatchIndexHeader::parse accepted key_size > 16 (build would slice the 16-byte key array out of range)");
    std::mem::forget(r);
}
