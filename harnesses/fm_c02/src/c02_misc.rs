// C02 / C08 — patch archive (header, keys, block table, block data), ZBSDIFF (header, control entries),
// root (header, block header), TVFS (header).
use crate::spy;
use crate::stubs::*;
use binrw::{BinRead, BinWrite, Endian};
use cascette_formats::patch_archive::PatchArchiveHeader;
use cascette_formats::patch_archive::verif_access as pa;
use cascette_formats::root::{RootBlock, RootBlockHeader, RootHeader, RootVersion};
use cascette_formats::tvfs::TvfsHeader;
use cascette_formats::zbsdiff::{ControlBlock, ControlEntry, ZbsdiffHeader};
use std::io::Cursor;

macro_rules! total {
    ($name:ident, $n:expr, $unw:expr, $okp:expr, $msg:expr, |$cur:ident, $d:ident| $call:expr) => {
        #[kani::proof]
        #[kani::unwind($unw)]
        #[kani::stub(std::fmt::format, fmt_format_empty)]
        #[kani::stub(std::alloc::alloc, spy::alloc)]
        #[kani::stub(std::alloc::alloc_zeroed, spy::alloc_zeroed)]
        #[kani::stub(std::alloc::realloc, spy::realloc)]
        fn $name() {
            const N: usize = $n;
            let $d: [u8; N] = kani::any();
            spy::reset();
            let mut $cur = Cursor::new(&$d[..]);
            let r = $call;
            assert!(spy::max_req() <= spy::limit(N), $msg);
            kani::cover!(r.is_ok() || !$okp, "accepted (where the length allows)");
            kani::cover!(r.is_err() || $okp, "rejected");
            assert!($cur.position() <= N as u64, "reader advanced past the end of the input");
            std::mem::forget(r);
        }
    };
}

// ---- patch archive ----------------------------------------------------------------------------------------
// header read + validate + the three key reads the validated sizes feed (read_key slices a 16-byte buffer)
fn pa_header_and_keys(c: &mut Cursor<&[u8]>) -> Result<u8, ()> {
    let h = match PatchArchiveHeader::read_options(c, Endian::Big, ()) {
        Ok(h) => h,
        Err(e) => {
            std::mem::forget(e);
            return Err(());
        }
    };
    if let Err(e) = h.validate() {
        std::mem::forget(e);
        return Err(());
    }
    assert!(h.file_key_size >= 1 && h.file_key_size <= 16, "validate let a file key size outside 1..=16 through");
    assert!(h.old_key_size >= 1 && h.old_key_size <= 16, "validate let an old key size outside 1..=16 through");
    assert!(h.patch_key_size >= 1 && h.patch_key_size <= 16, "validate let a patch key size outside 1..=16 through");
    assert!(h.block_size_bits >= 12 && h.block_size_bits <= 24 && h.version >= 1 && h.version <= 2, "validate: block size bits / version");
    let _ = h.block_size();
    // every reader that takes one of the three sizes
    let a = pa::read_key(c, h.file_key_size);
    let b = pa::read_key(c, h.old_key_size);
    let k = pa::read_key(c, h.patch_key_size);
    let ok = a.is_ok() && b.is_ok() && k.is_ok();
    std::mem::forget((a, b, k));
    if ok { Ok(h.flags) } else { Err(()) }
}
// @family prop=C02 tier=quick timeout=900 role=patch-archive-header-keys
// @bounds input of concrete length N (9, 10, 13, 58), every byte symbolic (all three key-size bytes, block_size_bits, version, flags)
// @encodes cascette_formats::patch_archive::header::PatchArchiveHeader::read_options, cascette_formats::patch_archive::header::PatchArchiveHeader::validate, cascette_formats::patch_archive::header::PatchArchiveHeader::block_size, cascette_formats::patch_archive::block::read_key
// @assumes std::fmt::format stubbed; allocator spy
// @catches one of the three key sizes not bounded by 16 (or allowed to be 0) before read_key slices its 16-byte buffer, block_size shift overflow, bound 16 changed to 17
// UNVERIFIED(not run to completion within the time budget): total!(c02_patch_archive_header_keys_n9, 9, 4, false, "alloc", |c, d| pa_header_and_keys(&mut c));
// UNVERIFIED(not run to completion within the time budget): total!(c02_patch_archive_header_keys_n10, 10, 4, false, "alloc", |c, d| pa_header_and_keys(&mut c));
// UNVERIFIED(not run to completion within the time budget): total!(c02_patch_archive_header_keys_n13, 13, 4, true, "alloc", |c, d| pa_header_and_keys(&mut c));
// UNVERIFIED(not run to completion within the time budget): total!(c02_patch_archive_header_keys_n58, 58, 4, true, "alloc", |c, d| pa_header_and_keys(&mut c));
// @end

// @family prop=C02 tier=quick timeout=900 role=patch-archive-records
// @bounds record readers on N symbolic bytes: block table with block_count and key size symbolic (key size 1..=16), block data (entries with num_patches symbolic, key sizes 16), extended-header encoding info (espec length byte symbolic)
// @encodes cascette_formats::patch_archive::parser::parse_block_table, cascette_formats::patch_archive::parser::parse_block_data, cascette_formats::patch_archive::parser::parse_encoding_info, cascette_formats::patch_archive::block::read_uint40_be
// @assumes std::fmt::format stubbed; allocator spy; key sizes are values PatchArchiveHeader::validate accepts
// @catches missing end-of-block sentinel handling (endless loop), reads past the end, espec length used without EOF check, invalid UTF-8 panicking
// UNVERIFIED(not run to completion within the time budget): total!(c02_patch_archive_block_data_n1, 1, 4, true, "alloc", |c, d| pa::parse_block_data(&mut c, &PatchArchiveHeader::new(1)));
// UNVERIFIED(not run to completion within the time budget): total!(c02_patch_archive_block_data_n22, 22, 5, true, "alloc", |c, d| pa::parse_block_data(&mut c, &PatchArchiveHeader::new(1)));
// UNVERIFIED(not run to completion within the time budget): total!(c02_patch_archive_block_data_n66, 66, 6, true, "alloc", |c, d| pa::parse_block_data(&mut c, &PatchArchiveHeader::new(1)));
// UNVERIFIED(not run to completion within the time budget): total!(c02_patch_archive_encoding_info_n41, 41, 6, true, "alloc", |c, d| pa::parse_encoding_info(&mut c, 16));
// UNVERIFIED(not run to completion within the time budget): total!(c02_patch_archive_encoding_info_n44, 44, 8, true, "alloc", |c, d| pa::parse_encoding_info(&mut c, 16));
// @end
// @harness prop=C02 tier=quick timeout=900 role=patch-archive-block-table-alloc
// @bounds 36 symbolic bytes, block_count symbolic u16, file key size 16
// @encodes cascette_formats::patch_archive::parser::parse_block_table
// @catches regression of patch patch_archive_block_table: Vec::with_capacity(block_count) reserving up to 65535 * 64 B = 4 MiB for a 10-byte header before any table byte is read
total!(c02_patch_archive_block_table_alloc, 36, 4, true, "parse_block_table: reservation out of proportion to input", |c, d| {
    let bc: u16 = kani::any();
    pa::parse_block_table(&mut c, bc, 16)
});

// ---- ZBSDIFF ----------------------------------------------------------------------------------------------------
fn zb_header(c: &mut Cursor<&[u8]>) -> Result<(), ()> {
    match ZbsdiffHeader::read_options(c, Endian::Little, ()) {
        Ok(h) => {
            let v = h.validate();
            let ok = v.is_ok();
            std::mem::forget(v);
            if ok {
                // derived sizes must not overflow for validated headers
                assert!(h.control_size >= 0 && h.diff_size >= 0 && h.output_size >= 0, "validate accepted a negative size");
                assert!(h.control_size <= 1_000_000_000 && h.diff_size <= 1_000_000_000 && h.output_size <= 1_000_000_000, "validate accepted a size above the cap");
                let _ = h.minimum_patch_size();
                let _ = h.compressed_data_size();
                Ok(())
            } else {
                Err(())
            }
        }
        Err(e) => {
            std::mem::forget(e);
            Err(())
        }
    }
}
// @family prop=C02 tier=quick timeout=900 role=zbsdiff-header
// @bounds 31 / 32 symbolic bytes (signature and the three i64 sizes arbitrary)
// @encodes cascette_formats::zbsdiff::header::ZbsdiffHeader::read_options, cascette_formats::zbsdiff::header::ZbsdiffHeader::validate, cascette_formats::zbsdiff::header::ZbsdiffHeader::minimum_patch_size, cascette_formats::zbsdiff::header::ZbsdiffHeader::compressed_data_size
// @catches negative sizes accepted (later cast to usize), cap check dropped, overflow in control_size + diff_size
// UNVERIFIED(not run to completion within the time budget): total!(c02_zbsdiff_header_n31, 31, 4, false, "alloc", |c, d| zb_header(&mut c));
// UNVERIFIED(not run to completion within the time budget): total!(c02_zbsdiff_header_n32, 32, 4, true, "alloc", |c, d| zb_header(&mut c));
// @end

// identity stand-ins for the zlib wrappers (the control block is a plain array of 24-byte entries inside)
fn zlib_identity(data: &[u8]) -> cascette_formats::zbsdiff::ZbsdiffResult<Vec<u8>> {
    Ok(data.to_vec())
}
fn sm(d: &[u8], p: usize) -> i64 {
    // independent reading of bsdiff's sign-magnitude i64: bit 63 = sign, bits 0..62 magnitude, little-endian
    let mut m: u64 = 0;
    let mut i = 8;
    while i > 0 {
        i -= 1;
        m = (m << 8) | d[p + i] as u64;
    }
    let mag = (m & 0x7FFF_FFFF_FFFF_FFFF) as i64;
    if m >> 63 == 1 { -mag } else { mag }
}
macro_rules! zb_control {
    ($name:ident, $n:expr) => {
        #[kani::proof]
        #[kani::unwind(10)]
        #[kani::stub(std::fmt::format, fmt_format_empty)]
        #[kani::stub(cascette_formats::zbsdiff::utils::decompress_zlib, zlib_identity)]
        #[kani::stub(cascette_formats::zbsdiff::utils::compress_zlib, zlib_identity)]
        fn $name() {
            const N: usize = $n;
            let d: [u8; N] = kani::any();
            let r = ControlBlock::from_compressed(&d);
            kani::cover!(r.is_ok() || N < 24, "accepted");
            kani::cover!(r.is_err(), "rejected");
            if let Ok(cb) = &r {
                assert!(N % 24 == 0 && cb.entries.len() == N / 24, "accepted a block that is not a whole number of 24-byte entries");
                let k: usize = kani::any();
                kani::assume(k < cb.entries.len());
                let e = &cb.entries[k];
                assert!(e.diff_size == sm(&d, 24 * k) && e.extra_size == sm(&d, 24 * k + 8) && e.seek_offset == sm(&d, 24 * k + 16), "sign-magnitude decoding");
                assert!(e.diff_size >= 0 && e.extra_size >= 0 && e.diff_size <= 10_000_000 && e.extra_size <= 10_000_000, "entry limits");
                let _ = e.output_bytes();
                // C08 direction: rebuild and compare (negative zero is the only non-canonical encoding)
                let w = cb.to_compressed();
                match &w {
                    Ok(w) => {
                        assert!(w.len() == N, "rebuilt control block length");
                        let r2 = ControlBlock::from_compressed(w);
                        match &r2 {
                            Ok(cb2) => assert!(cb2.entries.len() == cb.entries.len() && cb2.entries[k] == *e, "read(write(read(b))) differs"),
                            Err(_) => assert!(false, "rebuilt control block rejected"),
                        }
                        std::mem::forget(r2);
                    }
                    Err(_) => assert!(false, "write(read(b)) failed"),
                }
                std::mem::forget(w);
            }
            std::mem::forget(r);
        }
    };
}
// @family prop=C02 tier=quick timeout=900 role=zbsdiff-control-entries
// @bounds decompressed control block of concrete length N (0, 23, 24, 25, 48), every byte symbolic
// @encodes cascette_formats::zbsdiff::utils::ControlBlock::from_compressed, cascette_formats::zbsdiff::utils::offtin, cascette_formats::zbsdiff::utils::offtout, cascette_formats::zbsdiff::utils::ControlEntry::validate, cascette_formats::zbsdiff::utils::ControlBlock::to_compressed
// @assumes zlib wrappers compress_zlib / decompress_zlib replaced by the identity (third-party streaming codec outside); std::fmt::format stubbed
// @catches two's-complement instead of sign-magnitude decoding, negation overflow, partial trailing entry accepted, negative sizes accepted, rebuilt block differing from the parsed one
zb_control!(c02_zbsdiff_control_n0, 0);
zb_control!(c02_zbsdiff_control_n23, 23);
// UNVERIFIED(not run to completion within the time budget): zb_control!(c02_zbsdiff_control_n24, 24);
// UNVERIFIED(not run to completion within the time budget): zb_control!(c02_zbsdiff_control_n25, 25);
// UNVERIFIED(not run to completion within the time budget): zb_control!(c02_zbsdiff_control_n48, 48);
// @end

// UNVERIFIED harness prop=C08 tier=quick timeout=900 role=zbsdiff-control-value-roundtrip
// @bounds one control entry with symbolic field values: sizes 0..=10_000_000, seek_offset any i64 except i64::MIN
// @encodes cascette_formats::zbsdiff::utils::ControlBlock::with_entries, cascette_formats::zbsdiff::utils::ControlBlock::to_compressed, cascette_formats::zbsdiff::utils::ControlBlock::from_compressed, cascette_formats::zbsdiff::utils::offtout, cascette_formats::zbsdiff::utils::offtin
// @assumes zlib wrappers replaced by the identity
// @catches sign bit lost or applied to the wrong byte, magnitude written in two's complement
#[kani::proof]
#[kani::unwind(10)]
#[kani::stub(std::fmt::format, fmt_format_empty)]
#[kani::stub(cascette_formats::zbsdiff::utils::decompress_zlib, zlib_identity)]
#[kani::stub(cascette_formats::zbsdiff::utils::compress_zlib, zlib_identity)]
fn c08_zbsdiff_control_value_rt() {
    let v = ControlEntry::new(kani::any(), kani::any(), kani::any());
    kani::assume(v.diff_size >= 0 && v.diff_size <= 10_000_000 && v.extra_size >= 0 && v.extra_size <= 10_000_000);
    kani::assume(v.seek_offset != i64::MIN);
    let cb = ControlBlock::with_entries(vec![v.clone()]);
    assert!(cb.is_ok(), "in-range entry rejected by with_entries");
    let cb = cb.unwrap();
    let w = cb.to_compressed();
    assert!(w.is_ok(), "write(v) failed");
    let w = w.unwrap();
    assert!(w.len() == 24, "one entry = 24 bytes");
    let r = ControlBlock::from_compressed(&w);
    match &r {
        Ok(cb2) => assert!(cb2.entries.len() == 1 && cb2.entries[0] == v, "read(write(v)) != v"),
        Err(_) => assert!(false, "read(write(v)) failed"),
    }
    kani::cover!(v.seek_offset < 0, "negative seek");
    std::mem::forget((r, w, cb));
}

// @harness prop=C08 tier=quick timeout=900 role=zbsdiff-sign-magnitude-codec
// @bounds every i64 value (symbolic, including i64::MIN) through offtout / offtin; ControlEntry::validate on symbolic fields
// @encodes cascette_formats::zbsdiff::utils::offtout, cascette_formats::zbsdiff::utils::offtin, cascette_formats::zbsdiff::utils::ControlEntry::validate
// @assumes std::fmt::format stubbed (error text)
// @catches regression of patch zbsdiff_offtout_min: negation overflow for i64::MIN, i64::MIN accepted by validate although it has no sign-magnitude encoding; sign bit on the wrong byte, magnitude in two's complement
#[kani::proof]
#[kani::unwind(10)]
#[kani::stub(std::fmt::format, fmt_format_empty)]
fn c08_zbsdiff_control_value_min() {
    let v: i64 = kani::any();
    let enc = cascette_formats::zbsdiff::verif_utils::offtout(v); // must not panic for any value
    if v != i64::MIN {
        assert!(cascette_formats::zbsdiff::verif_utils::offtin(enc) == v, "offtin(offtout(v)) != v");
        let mag = if v < 0 { (-(v as i128)) as u64 } else { v as u64 };
        assert!(enc[7] & 0x80 == if v < 0 { 0x80 } else { 0 }, "sign bit = bit 63");
        let mut b = enc;
        b[7] &= 0x7F;
        assert!(u64::from_le_bytes(b) == mag, "bits 0..62 = magnitude, little-endian");
    }
    let (d, e): (i64, i64) = (kani::any(), kani::any());
    let entry = ControlEntry::new(d, e, v);
    let ok = {
        let r = entry.validate();
        let ok = r.is_ok();
        std::mem::forget(r);
        ok
    };
    assert!(ok == (d >= 0 && d <= 10_000_000 && e >= 0 && e <= 10_000_000 && v != i64::MIN), "ControlEntry::validate: size limits and representable seek offset");
    kani::cover!(v == i64::MIN, "i64::MIN");
    kani::cover!(ok && v < 0, "valid entry with a negative seek");
}

// ---- root ----------------------------------------------------------------------------------------------------------
fn root_ver(k: u8) -> RootVersion {
    match k {
        0 => RootVersion::V2,
        1 => RootVersion::V3,
        _ => RootVersion::V4,
    }
}
// @family prop=C02 tier=quick timeout=900 role=root-header-read
// @bounds input of concrete length N (11, 12, 20, 24, 40), every byte symbolic (magic, header_size / total_files, version field, padding length); version argument symbolic in {V2, V3, V4}
// @encodes cascette_formats::root::header::RootHeader::read, cascette_formats::root::header::RootHeaderInfo::read, cascette_formats::root::header::RootHeader::version, cascette_formats::root::header::RootHeader::size
// @assumes std::fmt::format stubbed; allocator spy
// @catches header_size - 20 underflow, padding skip read past the end, skip buffer sized from an unbounded field
// UNVERIFIED(not run to completion within the time budget): total!(c02_root_header_n11, 11, 4, false, "alloc", |c, d| { let v: u8 = kani::any(); RootHeader::read(&mut c, root_ver(v)).map(|h| (h.version(), h.size())) });
// UNVERIFIED(not run to completion within the time budget): total!(c02_root_header_n12, 12, 4, true, "alloc", |c, d| { let v: u8 = kani::any(); RootHeader::read(&mut c, root_ver(v)).map(|h| (h.version(), h.size())) });
// UNVERIFIED(not run to completion within the time budget): total!(c02_root_header_n20, 20, 4, true, "alloc", |c, d| { let v: u8 = kani::any(); RootHeader::read(&mut c, root_ver(v)).map(|h| (h.version(), h.size())) });
// UNVERIFIED(not run to completion within the time budget): total!(c02_root_header_n24, 24, 4, true, "alloc", |c, d| { let v: u8 = kani::any(); RootHeader::read(&mut c, root_ver(v)).map(|h| (h.version(), h.size())) });
// UNVERIFIED(not run to completion within the time budget): total!(c02_root_header_n40, 40, 4, true, "alloc", |c, d| { let v: u8 = kani::any(); RootHeader::read(&mut c, root_ver(v)).map(|h| (h.version(), h.size())) });
// @end
// @family prop=C02 tier=quick timeout=900 role=root-block-header
// @bounds block header bytes symbolic: 12-byte V1 header (RootBlockHeader::read), and RootBlock::parse on exactly one header (12 / 17 / 17 bytes for V1 / V2-V3 / V4) so the record count is symbolic and no record follows
// @encodes cascette_formats::root::block::RootBlockHeader::read_options, cascette_formats::root::block::RootBlock::parse
// @assumes std::fmt::format stubbed; allocator spy
// @catches regression of patch root_block: record arrays reserved from num_records (capped only at 1,000,000 by the parser: MBs for a 12..17-byte input)
// UNVERIFIED(not run to completion within the time budget): total!(c02_root_block_header_n11, 11, 4, false, "alloc", |c, d| RootBlockHeader::read_options(&mut c, Endian::Little, ()));
// UNVERIFIED(not run to completion within the time budget): total!(c02_root_block_header_n12, 12, 4, true, "alloc", |c, d| RootBlockHeader::read_options(&mut c, Endian::Little, ()));
// NOT REGISTERED (measured on the patched tree: 900 s timeout; binrw record loops are unrolled on infeasible paths): total!(c02_root_block_parse_alloc_v1, 12, 4, true, "root block parse: record reservation out of proportion to input", |c, d| RootBlock::parse(&mut c, RootVersion::V1, true));
// NOT REGISTERED (measured on the patched tree: 900 s timeout; binrw record loops are unrolled on infeasible paths): total!(c02_root_block_parse_alloc_v2, 17, 4, true, "root block parse: record reservation out of proportion to input", |c, d| RootBlock::parse(&mut c, RootVersion::V2, true));
// NOT REGISTERED (measured on the patched tree: 900 s timeout; binrw record loops are unrolled on infeasible paths): total!(c02_root_block_parse_alloc_v4, 17, 4, true, "root block parse: record reservation out of proportion to input", |c, d| RootBlock::parse(&mut c, RootVersion::V4, true));
// @end

// C08: root header
macro_rules! root_header_rt {
    ($name:ident, $n:expr, $canon:expr, $msg:expr) => {
        #[kani::proof]
        #[kani::unwind(6)]
        #[kani::stub(std::fmt::format, fmt_format_empty)]
        fn $name() {
            const N: usize = $n;
            let b: [u8; N] = kani::any();
            let tsfm = b[0] == b'T' && b[1] == b'S' && b[2] == b'F' && b[3] == b'M';
            let mfst = b[0] == b'M' && b[1] == b'F' && b[2] == b'S' && b[3] == b'T';
            kani::assume(tsfm || mfst);
            let mut c = Cursor::new(&b[..]);
            let r = RootHeader::read(&mut c, RootVersion::V3);
            kani::cover!(matches!(r, Ok(RootHeader::V3V4 { .. })) || N < 20, "extended header accepted (needs 20 bytes)");
            kani::cover!(matches!(r, Ok(RootHeader::V2 { .. })) || !$canon, "classic header accepted");
            if let Ok(h) = &r {
                let used = c.position() as usize;
                if let RootHeader::V3V4 { header_size, .. } = h {
                    // canonical extended headers: 16..=20 (no padding word) and 24 (one padding word)
                    let canon = *header_size <= 20 || *header_size == 24;
                    kani::assume(canon == $canon);
                } else {
                    kani::assume($canon);
                }
                let mut out = [0u8; 128];
                let mut wc = Cursor::new(&mut out[..]);
                let w = h.write(&mut wc);
                assert!(w.is_ok(), "write(read(b)) failed");
                let wl = wc.position() as usize;
                assert!(wl == used, $msg);
                let i: usize = kani::any();
                kani::assume(i < used && i < wl);
                // bytes the reader keeps (magic .. padding word) are reproduced; bytes it skips (non-canonical sizes only) are zero-filled
                if $canon || i < 20 || (used >= 24 && i < 24) {
                    assert!(out[i] == b[i], "write(read(b)) differs from b");
                } else {
                    assert!(out[i] == 0, "skipped header bytes must be rebuilt as zero fill");
                }
                // fixed point: the rebuilt header reads back as the same value with the same length
                let mut c2 = Cursor::new(&out[..wl]);
                let r2 = RootHeader::read(&mut c2, RootVersion::V3);
                match &r2 {
                    Ok(h2) => assert!(*h2 == *h && c2.position() as usize == wl, "read(write(read(b))) differs / has another length"),
                    Err(_) => assert!(false, "rebuilt header rejected"),
                }
                std::mem::forget(r2);
                std::mem::forget(w);
            }
            std::mem::forget(r);
        }
    };
}
// @family prop=C08 tier=quick timeout=900 role=root-header-roundtrip
// @bounds 12 / 20 / 24 symbolic header bytes (magic arbitrary: everything not "TSFM" is read as big-endian MFST — bytes 0..4 are then rewritten as "MFST", so the magic bytes are fixed to the two spellings); extended headers with header_size in 16..=20 or 24
// @encodes cascette_formats::root::header::RootHeader::read, cascette_formats::root::header::RootHeader::write
// @catches endianness chosen differently by reader and writer, padding word dropped, field order
root_header_rt!(c08_root_header_rt_n12, 12, true, "rebuilt header has a different length");
root_header_rt!(c08_root_header_rt_n20, 20, true, "rebuilt header has a different length");
root_header_rt!(c08_root_header_rt_n24, 24, true, "rebuilt header has a different length");
// @end
// @harness prop=C08 tier=quick timeout=900 role=root-header-noncanonical-size
// @bounds 40 symbolic bytes, accepted extended headers whose header_size is 21..=23 or 25..=99
// @encodes cascette_formats::root::header::RootHeader::read, cascette_formats::root::header::RootHeader::write
// @catches regression of patch root_header_size: read skips header_size-20 bytes but write always emitted exactly one 4-byte padding word: the rebuilt header is shorter/longer than its own header_size field says (parse-build is not a fixed point; the blocks after it are then misaligned)
root_header_rt!(c08_root_header_noncanonical_size, 40, false, "rebuilt header length differs from the bytes consumed");

// UNVERIFIED harness prop=C08 tier=quick timeout=900 role=root-header-v2-value
// @bounds classic V2 header value with symbolic total_files / named_files (all u32 pairs)
// @encodes cascette_formats::root::header::RootHeader::new_v2, cascette_formats::root::header::RootHeader::write, cascette_formats::root::header::RootHeader::read
// @catches KF: a classic header with total_files in 16..=99 and named_files < 10 (< total_files) is read back as an extended header (heuristic detection) - read(write(v)) != v
#[kani::proof]
#[kani::unwind(4)]
#[kani::stub(std::fmt::format, fmt_format_empty)]
fn c08_root_header_v2_value() {
    let (t, n): (u32, u32) = (kani::any(), kani::any());
    let v = RootHeader::new_v2(t, n);
    let mut out = [0u8; 12];
    let mut wc = Cursor::new(&mut out[..]);
    let w = v.write(&mut wc);
    assert!(w.is_ok() && wc.position() == 12, "write(v) failed");
    let mut rc = Cursor::new(&out[..]);
    let r = RootHeader::read(&mut rc, RootVersion::V2);
    kani::cover!(r.is_ok(), "read back");
    match &r {
        Ok(h) => assert!(*h == v, "KF:root_header_v2_heuristic read(write(v)) != v"),
        Err(_) => assert!(false, "KF:root_header_v2_heuristic read(write(v)) failed"),
    }
    std::mem::forget((w, r));
}

// ---- TVFS header ------------------------------------------------------------------------------------------------------
fn tvfs_header(c: &mut Cursor<&[u8]>) -> Result<usize, ()> {
    match TvfsHeader::read_options(c, Endian::Big, ()) {
        Ok(h) => {
            let v = h.validate();
            let ok = v.is_ok();
            std::mem::forget(v);
            let sz = h.cft_entry_size();
            let _ = (h.cft_offs_size(), h.est_offs_size());
            if ok {
                assert!(h.format_version == 1 && h.ekey_size == 9 && h.pkey_size == 9, "validate: version / key sizes");
                assert!(h.header_size == if h.flags & 2 != 0 { 46 } else { 38 }, "validate: header size vs EST flag");
                assert!(h.est_table_offset.is_some() == (h.flags & 2 != 0), "EST fields present iff flag");
                Ok(sz)
            } else {
                Err(())
            }
        }
        Err(e) => {
            std::mem::forget(e);
            Err(())
        }
    }
}
// @family prop=C02 tier=quick timeout=900 role=tvfs-header
// @bounds input of concrete length N (37, 38, 45, 46), every byte symbolic (flags decide whether the 8 EST bytes are read)
// @encodes cascette_formats::tvfs::header::TvfsHeader::read_options, cascette_formats::tvfs::header::TvfsHeader::validate, cascette_formats::tvfs::header::TvfsHeader::cft_entry_size, cascette_formats::tvfs::header::TvfsHeader::cft_offs_size, cascette_formats::tvfs::header::TvfsHeader::est_offs_size
// @catches EST fields read without the flag / not read with it, header size check against the wrong flag, key size check dropped
// UNVERIFIED(not run to completion within the time budget): total!(c02_tvfs_header_n37, 37, 4, false, "alloc", |c, d| tvfs_header(&mut c));
// UNVERIFIED(not run to completion within the time budget): total!(c02_tvfs_header_n38, 38, 4, true, "alloc", |c, d| tvfs_header(&mut c));
// UNVERIFIED(not run to completion within the time budget): total!(c02_tvfs_header_n45, 45, 4, true, "alloc", |c, d| tvfs_header(&mut c));
// UNVERIFIED(not run to completion within the time budget): total!(c02_tvfs_header_n46, 46, 4, true, "alloc", |c, d| tvfs_header(&mut c));
// @end

// generic byte-identity round trip for fixed-layout binrw headers
macro_rules! hdr_rt {
    ($name:ident, $n:expr, $t:ident, $endian:expr) => {
        #[kani::proof]
        #[kani::unwind(4)]
        #[kani::stub(std::fmt::format, fmt_format_empty)]
        fn $name() {
            const N: usize = $n;
            let b: [u8; N] = kani::any();
            let mut c = Cursor::new(&b[..]);
            let r = $t::read_options(&mut c, $endian, ());
            kani::cover!(r.is_ok() && c.position() as usize == N, "accepted, whole buffer used");
            if let Ok(h) = &r {
                let used = c.position() as usize;
                let mut out = [0u8; N];
                let mut wc = Cursor::new(&mut out[..]);
                let w = h.write_options(&mut wc, $endian, ());
                assert!(w.is_ok(), "write(read(b)) failed");
                assert!(wc.position() as usize == used, "rebuilt header has a different length");
                let i: usize = kani::any();
                kani::assume(i < used);
                assert!(out[i] == b[i], "write(read(b)) differs from b");
                std::mem::forget(w);
            }
            std::mem::forget(r);
        }
    };
}
// @family prop=C08 tier=quick timeout=900 role=fixed-header-roundtrips
// @bounds header bytes fully symbolic at the header's size: patch archive (10), ZBSDIFF (32), TVFS (38 without / 46 with EST fields), root block header (12)
// @encodes cascette_formats::patch_archive::header::PatchArchiveHeader::read_options, cascette_formats::patch_archive::header::PatchArchiveHeader::write_options, cascette_formats::zbsdiff::header::ZbsdiffHeader::read_options, cascette_formats::zbsdiff::header::ZbsdiffHeader::write_options, cascette_formats::tvfs::header::TvfsHeader::read_options, cascette_formats::tvfs::header::TvfsHeader::write_options, cascette_formats::root::block::RootBlockHeader::read_options, cascette_formats::root::block::RootBlockHeader::write_options
// @catches a field written with a different width / endianness / order than it is read, conditional EST fields written under a different condition than read
// UNVERIFIED(not run to completion within the time budget): hdr_rt!(c08_patch_archive_header_rt, 10, PatchArchiveHeader, Endian::Big);
// UNVERIFIED(not run to completion within the time budget): hdr_rt!(c08_zbsdiff_header_rt, 32, ZbsdiffHeader, Endian::Little);
// UNVERIFIED(not run to completion within the time budget): hdr_rt!(c08_tvfs_header_rt_n38, 38, TvfsHeader, Endian::Big);
// UNVERIFIED(not run to completion within the time budget): hdr_rt!(c08_tvfs_header_rt_n46, 46, TvfsHeader, Endian::Big);
// UNVERIFIED(not run to completion within the time budget): hdr_rt!(c08_root_block_header_rt, 12, RootBlockHeader, Endian::Little);
// @end
