// C08 — install / download / size manifest records: write(read(b)) == b on the consumed bytes, and
// read(write(v)) == v for symbolic field values in range.
use crate::stubs::*;
use binrw::{BinRead, BinWrite, Endian};
use cascette_crypto::{ContentKey, EncodingKey};
use cascette_formats::download::{DownloadFileEntry, DownloadHeader, FileSize40};
use cascette_formats::install::{InstallFileEntry, InstallHeader, InstallTag, TagType};
use cascette_formats::size::{SizeEntry, SizeHeader};
use std::io::Cursor;

macro_rules! rec_rt {
    ($name:ident, $n:expr, $unw:expr, $t:ident, $rargs:expr, $wargs:expr, |$b:ident| $pre:expr) => {
        #[kani::proof]
        #[kani::unwind($unw)]
        #[kani::stub(std::fmt::format, fmt_format_empty)]
        fn $name() {
            const N: usize = $n;
            let mut $b: [u8; N] = kani::any();
            $pre;
            let mut c = Cursor::new(&$b[..]);
            let r = $t::read_options(&mut c, Endian::Big, $rargs);
            kani::cover!(r.is_ok() && c.position() as usize == N, "accepted, whole buffer used");
            if let Ok(v) = &r {
                let used = c.position() as usize;
                let mut out = [0u8; N];
                let mut wc = Cursor::new(&mut out[..]);
                let w = v.write_options(&mut wc, Endian::Big, $wargs);
                assert!(w.is_ok(), "write(read(b)) failed");
                assert!(wc.position() as usize == used, "rebuilt record has a different length");
                let i: usize = kani::any();
                kani::assume(i < used);
                assert!(out[i] == $b[i], "write(read(b)) differs from b");
                std::mem::forget(w);
            }
            std::mem::forget(r);
        }
    };
}

fn dlh(ver: u8, checksum: bool, flag_size: u8) -> DownloadHeader {
    match ver {
        1 => DownloadHeader::new_v1(1, 0, checksum),
        2 => DownloadHeader::new_v2(1, 0, checksum, flag_size),
        _ => DownloadHeader::new_v3(1, 0, checksum, flag_size, 0),
    }
}

// @family prop=C08 tier=quick timeout=900 role=manifest-record-roundtrips
// @bounds record bytes fully symbolic at concrete length N: install header V1 (10) / V2+ (16), download header V1/V2/V3 (11/12/16), size header V2 (15) / V1 (19), install entry (7-char name budget: 24 bytes V1, 25 bytes V2), install tag (name + type + mask for 9 files: 8 bytes), download entry (22 plain, 28 with checksum + 2 flag bytes), size entry (key 9 + 4-byte esize)
// @encodes cascette_formats::install::header::InstallHeader::read_options, cascette_formats::install::header::InstallHeader::write_options, cascette_formats::download::header::DownloadHeader::read_options, cascette_formats::download::header::DownloadHeader::write_options, cascette_formats::size::header::SizeHeader::read_options, cascette_formats::size::header::SizeHeader::write_options, cascette_formats::install::entry::InstallFileEntry::read_options, cascette_formats::install::entry::InstallFileEntry::write_options, cascette_formats::install::tag::InstallTag::read_options, cascette_formats::install::tag::InstallTag::write_options, cascette_formats::download::entry::DownloadFileEntry::read_options, cascette_formats::download::entry::DownloadFileEntry::write_options, cascette_formats::size::entry::SizeEntry::read_options, cascette_formats::size::entry::SizeEntry::write_options
// @assumes std::fmt::format stubbed (error text)
// @catches a field written with another width / order / endianness than read, V2/V3 extension fields dropped on write, 40-bit size truncated to 32 bits, NUL terminator or tag type lost, checksum / flags written under a different condition than read
// UNVERIFIED(not run to completion within the time budget): rec_rt!(c08_install_header_rt_n10, 10, 4, InstallHeader, (), (), |b| ());
// UNVERIFIED(not run to completion within the time budget): rec_rt!(c08_install_header_rt_n16, 16, 4, InstallHeader, (), (), |b| ());
// UNVERIFIED(not run to completion within the time budget): rec_rt!(c08_download_header_rt_n11, 11, 4, DownloadHeader, (), (), |b| ());
// UNVERIFIED(not run to completion within the time budget): rec_rt!(c08_download_header_rt_n12, 12, 4, DownloadHeader, (), (), |b| ());
// UNVERIFIED(not run to completion within the time budget): rec_rt!(c08_download_header_rt_n16, 16, 4, DownloadHeader, (), (), |b| ());
// UNVERIFIED(not run to completion within the time budget): rec_rt!(c08_size_header_rt_n15, 15, 4, SizeHeader, (), (), |b| ());
// UNVERIFIED(not run to completion within the time budget): rec_rt!(c08_size_header_rt_n19, 19, 4, SizeHeader, (), (), |b| ());
// UNVERIFIED(not run to completion within the time budget): rec_rt!(c08_install_entry_rt_v1, 24, 26, InstallFileEntry, (16u8, 1u8), (), |b| ());
// UNVERIFIED(not run to completion within the time budget): rec_rt!(c08_install_entry_rt_v2, 25, 27, InstallFileEntry, (16u8, 2u8), (), |b| ());
// UNVERIFIED(not run to completion within the time budget): rec_rt!(c08_install_tag_rt_e9, 8, 10, InstallTag, 9u32, (), |b| ());
// UNVERIFIED(not run to completion within the time budget): rec_rt!(c08_download_entry_rt_plain, 22, 4, DownloadFileEntry, &dlh(1, false, 0), &dlh(1, false, 0), |b| ());
// UNVERIFIED(not run to completion within the time budget): rec_rt!(c08_download_entry_rt_full, 28, 4, DownloadFileEntry, &dlh(3, true, 2), &dlh(3, true, 2), |b| ());
// UNVERIFIED(not run to completion within the time budget): rec_rt!(c08_size_entry_rt_v2, 13, 12, SizeEntry, &SizeHeader::new_v2(9, 1, 0, 0), &SizeHeader::new_v2(9, 1, 0, 0), |b| ());
// UNVERIFIED(not run to completion within the time budget): rec_rt!(c08_size_entry_rt_v1_w8, 17, 12, SizeEntry, &SizeHeader::new_v1(9, 1, 0, 0, 8), &SizeHeader::new_v1(9, 1, 0, 0, 8), |b| ());
// @end

// UNVERIFIED harness prop=C08 tier=quick timeout=900 role=download-entry-value-roundtrip
// @bounds download entry with symbolic key, 40-bit size (0..=0xFF_FFFF_FFFF), priority (i8), checksum; header V3 with checksum, no flags
// @encodes cascette_formats::download::entry::DownloadFileEntry::new, cascette_formats::download::entry::DownloadFileEntry::write_options, cascette_formats::download::entry::DownloadFileEntry::read_options, cascette_formats::download::entry::FileSize40::new, cascette_formats::download::entry::FileSize40::to_bytes, cascette_formats::download::entry::FileSize40::from_bytes
// @catches FileSize40 bound off by one, high byte lost, priority sign lost, checksum endianness
#[kani::proof]
#[kani::unwind(4)]
#[kani::stub(std::fmt::format, fmt_format_empty)]
fn c08_download_entry_value_rt() {
    let key: [u8; 16] = kani::any();
    let size: u64 = kani::any();
    let prio: i8 = kani::any();
    let ck: u32 = kani::any();
    let fs = FileSize40::new(size);
    assert!(fs.is_ok() == (size <= 0xFF_FFFF_FFFF), "FileSize40::new accepts exactly 40-bit values");
    kani::assume(size <= 0xFF_FFFF_FFFF);
    std::mem::forget(fs);
    let h = dlh(3, true, 0);
    let mut v = DownloadFileEntry::new(EncodingKey::from_bytes(key), size, prio).unwrap();
    v.checksum = Some(ck);
    let mut out = [0u8; 26];
    let mut wc = Cursor::new(&mut out[..]);
    let w = v.write_options(&mut wc, Endian::Big, &h);
    assert!(w.is_ok() && wc.position() == 26, "write(v) failed / wrong length");
    let mut rc = Cursor::new(&out[..]);
    let r = DownloadFileEntry::read_options(&mut rc, Endian::Big, &h);
    match &r {
        Ok(e) => {
            assert!(e.file_size.as_u64() == size && e.priority == prio && e.checksum == Some(ck) && e.flags.is_none(), "read(write(v)) != v");
            let i: usize = kani::any();
            kani::assume(i < 16);
            assert!(e.encoding_key.as_bytes()[i] == key[i], "read(write(v)) key");
        }
        Err(_) => assert!(false, "read(write(v)) failed"),
    }
    kani::cover!(size > 0xFFFF_FFFF, "size needs the fifth byte");
    std::mem::forget((w, r, v));
}

// UNVERIFIED harness prop=C08 tier=quick timeout=900 role=manifest-header-value-roundtrip
// @bounds install header V1/V2 and size header V1/V2 built from symbolic counts / sizes (V2 size total is a 40-bit field)
// @encodes cascette_formats::install::header::InstallHeader::new, cascette_formats::install::header::InstallHeader::new_v2, cascette_formats::install::header::InstallHeader::write_options, cascette_formats::install::header::InstallHeader::read_options, cascette_formats::size::header::SizeHeader::new_v1, cascette_formats::size::header::SizeHeader::new_v2, cascette_formats::size::header::SizeHeader::write_options, cascette_formats::size::header::SizeHeader::read_options
// @catches V2 fields not written, 40-bit total truncated, 24-/32-bit counts misassembled
#[kani::proof]
#[kani::unwind(4)]
#[kani::stub(std::fmt::format, fmt_format_empty)]
fn c08_manifest_header_value_rt() {
    let (tc, ec, cks, ec2): (u16, u32, u8, u32) = (kani::any(), kani::any(), kani::any(), kani::any());
    let total: u64 = kani::any();
    let (eks, esz): (u8, u8) = (kani::any(), kani::any());
    let v2: bool = kani::any();
    kani::assume(total <= 0xFF_FFFF_FFFF);
    let ih = if v2 { InstallHeader::new_v2(tc, ec, cks, ec2) } else { InstallHeader::new(tc, ec) };
    let mut out = [0u8; 16];
    let mut wc = Cursor::new(&mut out[..]);
    let w = ih.write_options(&mut wc, Endian::Big, ());
    assert!(w.is_ok() && wc.position() as usize == ih.header_size(), "install header write");
    let mut rc = Cursor::new(&out[..]);
    let r = InstallHeader::read_options(&mut rc, Endian::Big, ());
    match &r {
        Ok(h) => assert!(*h == ih, "install header: read(write(v)) != v"),
        Err(_) => assert!(false, "install header: read(write(v)) failed"),
    }
    std::mem::forget((w, r));
    let sh = if v2 { SizeHeader::new_v2(eks, ec, tc, total) } else { SizeHeader::new_v1(eks, ec, tc, total, esz) };
    let mut out = [0u8; 19];
    let mut wc = Cursor::new(&mut out[..]);
    let w = sh.write_options(&mut wc, Endian::Big, ());
    assert!(w.is_ok(), "size header write");
    let mut rc = Cursor::new(&out[..]);
    let r = SizeHeader::read_options(&mut rc, Endian::Big, ());
    match &r {
        Ok(h) => assert!(*h == sh, "size header: read(write(v)) != v"),
        Err(_) => assert!(false, "size header: read(write(v)) failed"),
    }
    kani::cover!(v2 && total > 0xFFFF_FFFF, "40-bit total");
    std::mem::forget((w, r));
}
