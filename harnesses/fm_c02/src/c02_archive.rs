// C02 / C08 / C07 — CDN archive index: IndexEntry (hand-written slice parser), IndexFooter.
use crate::spy;
use crate::stubs::*;
use cascette_formats::archive::{ArchiveIndex, IndexEntry, IndexFooter};

// ---- IndexEntry::parse: total, in-bounds, and exactly the documented layout ------------------------
macro_rules! index_entry_parse {
    ($name:ident, $n:expr, $kb:expr) => {
        #[kani::proof]
        #[kani::unwind(7)]
        #[kani::stub(std::fmt::format, fmt_format_empty)]
        #[kani::stub(std::alloc::alloc, spy::alloc)]
        #[kani::stub(std::alloc::alloc_zeroed, spy::alloc_zeroed)]
        #[kani::stub(std::alloc::realloc, spy::realloc)]
        fn $name() {
            const N: usize = $n;
            let data: [u8; N] = kani::any();
            let kb: u8 = $kb;
            let sb: u8 = kani::any();
            let ob: u8 = kani::any();
            spy::reset();
            let r = IndexEntry::parse(&data, kb, sb, ob);
            assert!(spy::max_req() <= spy::limit(N), "IndexEntry::parse: allocation out of proportion to input");
            let k = kb as usize;
            let fits = k + 4 <= N && sb == 4 && (ob == 4 || ob == 5 || ob == 6) && k + 4 + ob as usize <= N;
            kani::cover!(r.is_ok() || k + 8 > N, "accepted (where a record fits)");
            kani::cover!(r.is_err(), "rejected");
            match r {
                Ok(e) => {
                    assert!(fits, "IndexEntry::parse accepted a record that does not fit / has unsupported widths");
                    assert!(e.encoding_key.len() == k, "key length");
                    let i: usize = kani::any();
                    if i < k {
                        assert!(e.encoding_key[i] == data[i], "key byte");
                    }
                    let be = |p: usize, n: usize| -> u64 {
                        let mut v = 0u64;
                        let mut j = 0;
                        while j < n {
                            v = (v << 8) | data[p + j] as u64;
                            j += 1;
                        }
                        v
                    };
                    assert!(e.size as u64 == be(k, 4), "size is the big-endian u32 after the key");
                    match ob {
                        4 | 5 => {
                            assert!(e.offset == be(k + 4, ob as usize), "offset is the big-endian field after the size");
                            assert!(e.archive_index.is_none(), "archive index only for 6-byte offsets");
                        }
                        _ => {
                            assert!(e.archive_index == Some(be(k + 4, 2) as u16), "archive index = first 2 offset bytes");
                            assert!(e.offset == be(k + 6, 4), "offset = last 4 offset bytes");
                        }
                    }
                    std::mem::forget(e);
                }
                Err(e) => {
                    assert!(!fits, "IndexEntry::parse rejected a well-formed record");
                    std::mem::forget(e);
                }
            }
        }
    };
}
// @family prop=C02 tier=quick timeout=600 role=archive-index-entry-parse
// @bounds record buffer of concrete length N (name: n<N>) with fully symbolic content; key width concrete per harness (name: k<key_bytes>; 255 = wider than any buffer), size width and offset width symbolic u8 (all 65536 combinations)
// @encodes cascette_formats::archive::index::IndexEntry::parse
// @assumes std::fmt::format stubbed (error text only); allocator spy stubs std::alloc::{alloc,alloc_zeroed,realloc}
// @catches missing/short length check before slicing (off-by-one in `<`), wrong field order, wrong endianness, 5-byte offset placed at the wrong byte of the u64, archive index/offset split wrong, accepting unsupported widths
index_entry_parse!(c02_archive_entry_parse_n0_k0, 0, 0);
index_entry_parse!(c02_archive_entry_parse_n0_k1, 0, 1);
index_entry_parse!(c02_archive_entry_parse_n9_k0, 9, 0);
index_entry_parse!(c02_archive_entry_parse_n23_k16, 23, 16);
index_entry_parse!(c02_archive_entry_parse_n24_k16, 24, 16);
index_entry_parse!(c02_archive_entry_parse_n25_k16, 25, 16);
index_entry_parse!(c02_archive_entry_parse_n26_k16, 26, 16);
index_entry_parse!(c02_archive_entry_parse_n19_k9, 19, 9);
index_entry_parse!(c02_archive_entry_parse_n32_k16, 32, 16);
index_entry_parse!(c02_archive_entry_parse_n32_k255, 32, 255);
// @end
