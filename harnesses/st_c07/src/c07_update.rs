// C07 — update-section entries (24 bytes, Jenkins hash guard over bytes 4..23).
//
// Artifact: UpdateEntry::new(..).to_bytes() (real writer, guard computed by the real
// compute_hash_guard with hashlittle replaced by an ideal hash).  Corruption: one byte at a
// symbolic position.  Validator: UpdateEntry::from_bytes(..).validate_hash_guard().
// Load path: UpdatePage::from_bytes / UpdateSection::from_bytes.
use crate::ideal;
use cascette_client_storage::index::ArchiveLocation;
use cascette_client_storage::index::update::{
    UPDATE_ENTRY_SIZE, UPDATE_PAGE_SIZE, UpdateEntry, UpdatePage, UpdateSection, UpdateStatus,
};

fn status_of(k: u8) -> UpdateStatus {
    match k {
        0 => UpdateStatus::Normal,
        1 => UpdateStatus::Delete,
        2 => UpdateStatus::HeaderNonResident,
        _ => UpdateStatus::DataNonResident,
    }
}
fn is_status_byte(v: u8) -> bool {
    v == 0 || v == 3 || v == 6 || v == 7
}

// @harness prop=C07 tier=quick timeout=600 role=update-entry-single-byte
// @bounds ekey (9 bytes), archive_id (u16), archive_offset (u32), encoded_size (u32), status (all 4) symbolic; corruption position p in 0..=22 (guard field 0..4 and the whole hashed range 4..23) symbolic, new byte value symbolic != old; at p = 22 (status byte) the new value ranges over the 4 defined status bytes (undefined status bytes: see c07_update_entry_undefined_status_byte)
// @encodes cascette_client_storage::index::update::UpdateEntry::new, cascette_client_storage::index::update::UpdateEntry::to_bytes, cascette_client_storage::index::update::UpdateEntry::from_bytes, cascette_client_storage::index::update::UpdateEntry::compute_hash_guard, cascette_client_storage::index::update::UpdateEntry::validate_hash_guard, cascette_client_storage::index::update::UpdateStatus::from_byte
// @assumes hashlittle is an ideal hash (uninterpreted, injective on the recorded (message, seed) pairs in the 31 bits that survive `| 0x80000000`)
// @catches hashed range shortened/shifted (e.g. 4..22 drops the status byte, 5..23 drops ekey[0]), guard compared partially or not at all, a field parsed from the wrong byte, status flips between defined values accepted
#[kani::proof]
#[kani::unwind(10)]
#[kani::stub(cascette_crypto::jenkins::hashlittle, ideal::hashlittle_ideal31)]
fn c07_update_entry_single_byte() {
    let ekey: [u8; 9] = kani::any();
    let id: u16 = kani::any();
    let off: u32 = kani::any();
    let size: u32 = kani::any();
    let sk: u8 = kani::any();
    kani::assume(sk < 4);
    let p: usize = kani::any();
    kani::assume(p < 23);
    let v: u8 = kani::any();

    let e = UpdateEntry::new(ekey, ArchiveLocation { archive_id: id, archive_offset: off }, size, status_of(sk));
    assert!(e.validate_hash_guard(), "a freshly built entry must validate");
    let mut b = e.to_bytes();
    kani::cover!(p == 22 && b[22] == 0 && v == 3, "status flip Normal -> Delete");
    kani::cover!(p == 13, "archive-id high byte corrupted");
    kani::cover!(p == 3, "guard field corrupted");
    kani::assume(v != b[p]);
    kani::assume(p != 22 || is_status_byte(v));
    b[p] = v;
    let c = UpdateEntry::from_bytes(&b);
    assert!(!c.validate_hash_guard(), "corrupted update entry accepted by validate_hash_guard");
}

// The status byte is inside the hashed range, but validate_hash_guard re-serialises the *parsed*
// entry and UpdateStatus::from_byte maps every undefined byte to Normal: a Normal entry whose
// status byte is overwritten with an undefined value still validates.
// @harness prop=C07 tier=quick timeout=600 role=update-entry-undefined-status
// @bounds entry fields symbolic, status Normal; status byte 22 overwritten with any value outside {0,3,6,7}
// @encodes cascette_client_storage::index::update::UpdateEntry::from_bytes, cascette_client_storage::index::update::UpdateEntry::validate_hash_guard, cascette_client_storage::index::update::UpdateStatus::from_byte
// @assumes hashlittle is an ideal hash (31 surviving bits injective)
// @catches (known finding) lossy parse before validation: the guard is checked over re-serialised fields, not over the bytes read
#[kani::proof]
#[kani::unwind(10)]
#[kani::stub(cascette_crypto::jenkins::hashlittle, ideal::hashlittle_ideal31)]
fn c07_update_entry_undefined_status_byte() {
    let ekey: [u8; 9] = kani::any();
    let id: u16 = kani::any();
    let off: u32 = kani::any();
    let size: u32 = kani::any();
    let v: u8 = kani::any();
    kani::assume(!is_status_byte(v));
    let e = UpdateEntry::new(ekey, ArchiveLocation { archive_id: id, archive_offset: off }, size, UpdateStatus::Normal);
    let mut b = e.to_bytes();
    kani::cover!(b[22] == 0, "status byte of a Normal entry is 0");
    b[22] = v;
    let c = UpdateEntry::from_bytes(&b);
    assert!(
        !c.validate_hash_guard(),
        "KF: update entry with its (hashed) status byte overwritten by an undefined value passes validate_hash_guard"
    );
}

// ---- load path: UpdatePage::from_bytes ---------------------------------------------------------
// A page written by the real writer (N entries), entry K corrupted at one symbolic byte of its guard
// field or hashed range (any new value, also undefined status bytes), loaded by the real page
// loader.  Contract (since /repo 69dcb3e the loader recomputes the guard over the bytes as stored):
// the corrupted slot and every later slot of the page are absent, every earlier entry is intact.
macro_rules! update_page_load {
    ($name:ident, $n:expr, $k:expr) => {
        #[kani::proof]
        #[kani::unwind(10)]
        #[kani::stub(cascette_crypto::jenkins::hashlittle, ideal::hashlittle_ideal31)]
        fn $name() {
            const N: usize = $n;
            const K: usize = $k;
            let ekeys: [[u8; 9]; N] = kani::any();
            let ids: [u16; N] = kani::any();
            let offs: [u32; N] = kani::any();
            let sizes: [u32; N] = kani::any();
            let sks: [u8; N] = kani::any();
            let q: usize = kani::any();
            kani::assume(q < 23);
            let v: u8 = kani::any();
            let mut page = UpdatePage::new();
            let mut i = 0;
            while i < N {
                kani::assume(sks[i] < 4);
                let e = UpdateEntry::new(
                    ekeys[i],
                    ArchiveLocation { archive_id: ids[i], archive_offset: offs[i] },
                    sizes[i],
                    status_of(sks[i]),
                );
                assert!(page.push(e), "page accepts the entry");
                i += 1;
            }
            let mut bytes = page.to_bytes();
            // corrupt inside entry K only (the rest of the page stays concrete for the end-of-page scan)
            let mut eb = [0u8; UPDATE_ENTRY_SIZE];
            eb.copy_from_slice(&bytes[K * UPDATE_ENTRY_SIZE..(K + 1) * UPDATE_ENTRY_SIZE]);
            kani::cover!(q == 4, "first ekey byte corrupted");
            kani::cover!(q == 22 && !is_status_byte(v), "status byte overwritten with an undefined value");
            kani::cover!(q == 0, "guard field corrupted");
            kani::assume(v != eb[q]);
            eb[q] = v;
            bytes[K * UPDATE_ENTRY_SIZE..(K + 1) * UPDATE_ENTRY_SIZE].copy_from_slice(&eb);
            let loaded = UpdatePage::from_bytes(&bytes);
            match &loaded {
                None => assert!(K == 0, "entries in front of the corrupted slot must still be loaded"),
                Some(pg) => {
                    assert!(K > 0, "a page whose first entry is corrupted must not load");
                    assert!(pg.len() == K, "the corrupted entry and every later slot of the page must be absent");
                    let mut j = 0;
                    while j < K {
                        let got = &pg.entries()[j];
                        let same = got.ekey == ekeys[j]
                            && got.archive_location.archive_offset == (offs[j] & 0x3FFF_FFFF)
                            && got.archive_location.archive_id == (ids[j] & 0x3FF)
                            && got.encoded_size == sizes[j]
                            && got.status == status_of(sks[j])
                            && got.validate_hash_guard();
                        assert!(same, "an entry in front of the corrupted slot was altered or dropped");
                        j += 1;
                    }
                }
            }
            std::mem::forget(loaded);
            std::mem::forget(page);
        }
    };
}
// @family prop=C07 tier=quick timeout=900 role=update-page-load-path
// @bounds page with N entries written by the real writer (name: n<N>_k<K>), all entry fields symbolic; entry K corrupted at a symbolic byte p in 0..=22 (guard field and hashed range; any new value != old, incl. undefined status bytes)
// @encodes cascette_client_storage::index::update::UpdatePage::from_bytes, cascette_client_storage::index::update::UpdatePage::to_bytes, cascette_client_storage::index::update::UpdatePage::push, cascette_client_storage::index::update::UpdateEntry::from_bytes, cascette_client_storage::index::update::UpdateEntry::compute_hash_guard
// @assumes hashlittle is an ideal hash (31 surviving bits injective); /repo's cfg(kani) scale model H3 is in force: UPDATE_PAGE_SIZE = 56 (2 entries + 8 slack bytes instead of 21 + 8), MIN_UPDATE_SECTION_SIZE = 2 pages (the loaders are uniform in these constants)
// @catches load path without guard validation, guard recomputed over re-serialised fields instead of the stored bytes (undefined status byte accepted), `continue` instead of `break` (later slots handed on), good entries in front dropped
update_page_load!(c07_update_page_load_n1_k0, 1, 0);
update_page_load!(c07_update_page_load_n2_k0, 2, 0);
update_page_load!(c07_update_page_load_n2_k1, 2, 1);
// @end

// Truncated page / empty page are rejected by the loader.
// @harness prop=C07 tier=quick timeout=600 role=update-page-truncation
// @bounds one-entry page from the real writer with symbolic fields; slice truncated by one byte
// @encodes cascette_client_storage::index::update::UpdatePage::from_bytes
// @assumes hashlittle is an ideal hash; /repo's cfg(kani) scale model H3 is in force: UPDATE_PAGE_SIZE = 56 (2 entries + 8 slack bytes instead of 21 + 8), MIN_UPDATE_SECTION_SIZE = 2 pages (the loaders are uniform in these constants)
// @catches `<` vs `<=` in the page-length check (short page read past its end or accepted)
#[kani::proof]
#[kani::unwind(10)]
#[kani::stub(cascette_crypto::jenkins::hashlittle, ideal::hashlittle_ideal31)]
fn c07_update_page_truncated() {
    let ekey: [u8; 9] = kani::any();
    let id: u16 = kani::any();
    let off: u32 = kani::any();
    let size: u32 = kani::any();
    let mut page = UpdatePage::new();
    page.push(UpdateEntry::new(ekey, ArchiveLocation { archive_id: id, archive_offset: off }, size, UpdateStatus::Normal));
    let bytes = page.to_bytes();
    let t = UpdatePage::from_bytes(&bytes[..UPDATE_PAGE_SIZE - 1]);
    assert!(t.is_none(), "page truncated by one byte must be rejected");
    let full = UpdatePage::from_bytes(&bytes);
    kani::cover!(full.is_some(), "the untruncated page loads");
    assert!(full.is_some(), "the untruncated page must load");
    std::mem::forget(full);
    std::mem::forget(page);
}

// ---- load path one level up: UpdateSection::from_bytes + search (what IndexManager::load_index and
// lookup use) ---------------------------------------------------------------------------------------
// Section with two entries (one page under the scale model) from the real writer, entry K corrupted
// at one symbolic byte; a lookup with an ARBITRARY probe key through the loaded section returns
// only entries that were written, unaltered, and that sit in front of the corrupted slot.
macro_rules! update_section_load {
    ($name:ident, $k:expr) => {
        #[kani::proof]
        #[kani::unwind(10)]
        #[kani::stub(cascette_crypto::jenkins::hashlittle, ideal::hashlittle_ideal31)]
        fn $name() {
            const K: usize = $k;
            let ekeys: [[u8; 9]; 2] = kani::any();
            let ids: [u16; 2] = kani::any();
            let offs: [u32; 2] = kani::any();
            let sizes: [u32; 2] = kani::any();
            let sks: [u8; 2] = kani::any();
            let probe: [u8; 9] = kani::any();
            let q: usize = kani::any();
            kani::assume(q < 23);
            let v: u8 = kani::any();
            let mut sec = UpdateSection::new();
            let mut i = 0;
            while i < 2 {
                kani::assume(sks[i] < 4 && ids[i] <= 1023 && offs[i] < 1 << 30);
                let e = UpdateEntry::new(ekeys[i], ArchiveLocation { archive_id: ids[i], archive_offset: offs[i] }, sizes[i], status_of(sks[i]));
                assert!(sec.append(e), "section accepts the entry");
                i += 1;
            }
            let mut bytes = sec.to_bytes();
            let mut eb = [0u8; UPDATE_ENTRY_SIZE];
            eb.copy_from_slice(&bytes[K * UPDATE_ENTRY_SIZE..(K + 1) * UPDATE_ENTRY_SIZE]);
            kani::cover!(q == 14, "packed offset byte corrupted");
            kani::cover!(q == 22 && !is_status_byte(v), "status byte overwritten with an undefined value");
            kani::assume(v != eb[q]);
            eb[q] = v;
            bytes[K * UPDATE_ENTRY_SIZE..(K + 1) * UPDATE_ENTRY_SIZE].copy_from_slice(&eb);
            let loaded = UpdateSection::from_bytes(&bytes);
            assert!(loaded.entry_count() == K, "exactly the entries in front of the corrupted slot are loaded");
            match loaded.search(&probe) {
                Some(got) => {
                    // only entry 0 can be in front of a corrupted slot here
                    let ie = got.to_index_entry();
                    let is0 = K == 1
                        && got.ekey == ekeys[0]
                        && ie.archive_id() == ids[0]
                        && ie.archive_offset() == offs[0]
                        && ie.size == sizes[0]
                        && got.status == status_of(sks[0]);
                    assert!(is0, "lookup through the loaded update section returns an entry that was not written (corrupted content handed on)");
                }
                None => assert!(K == 0 || probe != ekeys[0], "the intact entry in front of the corrupted slot must still be found"),
            }
            std::mem::forget(loaded);
            std::mem::forget(bytes);
            std::mem::forget(sec);
        }
    };
}
// @family prop=C07 tier=quick timeout=900 role=update-section-load-path
// @bounds section with two entries written by the real writer (UpdateSection::append / to_bytes, minimum capacity), all fields symbolic (id <= 1023, offset < 2^30); entry K (name suffix; c07_update_section_load_search = K 1) corrupted at a symbolic byte p in 0..=22 with any new value; lookup key arbitrary (9 symbolic bytes)
// @encodes cascette_client_storage::index::update::UpdateSection::from_bytes, cascette_client_storage::index::update::UpdateSection::to_bytes, cascette_client_storage::index::update::UpdateSection::append, cascette_client_storage::index::update::UpdateSection::search, cascette_client_storage::index::update::UpdateSection::entry_count, cascette_client_storage::index::update::UpdatePage::from_bytes, cascette_client_storage::index::update::UpdateEntry::to_index_entry
// @assumes hashlittle is an ideal hash (31 surviving bits injective); /repo's cfg(kani) scale model H3 is in force: UPDATE_PAGE_SIZE = 56 (2 entries + 8 slack bytes instead of 21 + 8), MIN_UPDATE_SECTION_SIZE = 2 pages (the loaders are uniform in these constants)
// @catches a lookup through the loaded update section returning a corrupted archive location / size / status / key as if it were good; intact entries lost
update_section_load!(c07_update_section_load_search, 1);
update_section_load!(c07_update_section_load_search_k0, 0);
// @end

// The guard covers exactly bytes 4..23 (seed 0, bit 31 forced): digest equality under the ideal
// hash pins the hashed range.
fn ref_hash31(data: &[u8], seed: u32) -> u32 {
    if cfg!(vreplay) {
        return cascette_crypto::jenkins::hashlittle(data, seed);
    }
    ideal::hashlittle_ideal31(data, seed)
}
// @harness prop=C07 tier=quick timeout=600 role=update-entry-guard-coverage
// @bounds all 24 entry bytes symbolic
// @encodes cascette_client_storage::index::update::UpdateEntry::compute_hash_guard
// @assumes hashlittle is an ideal hash (equal digests <=> equal (message, seed))
// @catches hashed range other than 4..23 (also ranges that the corruption harness cannot tell apart, e.g. 4..24), non-zero seed, bit 31 not forced
#[kani::proof]
#[kani::unwind(10)]
#[kani::stub(cascette_crypto::jenkins::hashlittle, ideal::hashlittle_ideal31)]
fn c07_update_entry_guard_coverage() {
    let b: [u8; UPDATE_ENTRY_SIZE] = kani::any();
    let g = UpdateEntry::compute_hash_guard(&b);
    assert!(g == ref_hash31(&b[4..23], 0) | 0x8000_0000, "hash guard is not hashlittle(bytes[4..23], 0) | 0x80000000");
    kani::cover!(b[22] == 7, "a data-non-resident entry");
}
