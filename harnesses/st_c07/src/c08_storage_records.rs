// C08 — serialisation fixed point for the storage-side fixed-size records:
// UpdateEntry (24 B), LocalHeader (30 B), LruFileHeader (28 B) / LruFileEntry (20 B) / whole .lru
// file, ResidencySpan (16 B) / ResidencyEntry (40 B), local IndexEntry (18 B), IndexHeaderV2 (16 B),
// GuardedBlockHeader (8 B).
//
// Per record: (a) for every byte string b of the record size that the real reader accepts:
// w = write(read(b)), read(w) has the same logical fields, write(read(w)) == w, and w == b wherever
// the format has no "don't care" bytes; (b) for every field value in the documented ranges
// read(write(v)) == v.  Byte arrays are compared through a symbolic index.
use crate::ideal;
use cascette_client_storage::index::update::{UPDATE_ENTRY_SIZE, UpdateEntry, UpdateStatus};
use cascette_client_storage::index::{ArchiveLocation, GuardedBlockHeader, IndexEntry, IndexHeaderV2};
use cascette_client_storage::kmt::key_state::{RESIDENCY_ENTRY_SIZE, ResidencyEntry, ResidencySpan, ResidencyUpdateType};
use cascette_client_storage::lru::lru_file::{
    LRU_ENTRY_SIZE, LRU_HEADER_SIZE, LruFileEntry, LruFileHeader, deserialize, serialize,
};
use cascette_client_storage::storage::local_header::{LOCAL_HEADER_SIZE, LocalHeader};
use md5::compute as md5_compute_real;

fn status_of(k: u8) -> UpdateStatus {
    match k {
        0 => UpdateStatus::Normal,
        1 => UpdateStatus::Delete,
        2 => UpdateStatus::HeaderNonResident,
        _ => UpdateStatus::DataNonResident,
    }
}
fn is_status_byte(v: u8) -> bool {
    v == 0 || v == 3 || v == 6 || v == 7
}

// ---- UpdateEntry ------------------------------------------------------------------------------
// @harness prop=C08 tier=quick timeout=600 role=update-entry-bytes
// @bounds every 24-byte string (from_bytes accepts all)
// @encodes cascette_client_storage::index::update::UpdateEntry::from_bytes, cascette_client_storage::index::update::UpdateEntry::to_bytes, cascette_client_storage::index::update::UpdateStatus::from_byte
// @assumes none
// @catches reader/writer disagreeing on a field position, endianness or the 10+30-bit location packing; status mapping not idempotent; padding not canonicalised
#[kani::proof]
#[kani::unwind(10)]
fn c08_update_entry_bytes_fixed_point() {
    let b: [u8; UPDATE_ENTRY_SIZE] = kani::any();
    let i: usize = kani::any();
    kani::assume(i < UPDATE_ENTRY_SIZE);
    let e = UpdateEntry::from_bytes(&b);
    let w = e.to_bytes();
    let e2 = UpdateEntry::from_bytes(&w);
    assert!(e2.hash_guard == e.hash_guard && e2.ekey == e.ekey && e2.encoded_size == e.encoded_size && e2.status == e.status);
    assert!(e2.archive_location.archive_id == e.archive_location.archive_id, "archive id changes on re-read");
    assert!(e2.archive_location.archive_offset == e.archive_location.archive_offset, "archive offset changes on re-read");
    let w2 = e2.to_bytes();
    assert!(w2[i] == w[i], "write(read(w)) != w");
    // the only don't-care bytes: undefined status values (-> 0) and the pad byte (-> 0)
    if i < 22 || (i == 22 && is_status_byte(b[22])) {
        assert!(w[i] == b[i], "write(read(b)) differs from b in a byte that carries information");
    }
    assert!(w[23] == 0, "pad byte written as 0");
    // independent field decoding
    assert!(e.hash_guard == u32::from_le_bytes([b[0], b[1], b[2], b[3]]));
    assert!(e.archive_location.archive_id == ((b[13] as u16) << 2 | (b[14] >> 6) as u16), "archive id = 10 bits: byte 13 and the top 2 bits of byte 14");
    assert!(
        e.archive_location.archive_offset == u32::from_be_bytes([b[14] & 0x3F, b[15], b[16], b[17]]),
        "archive offset = low 30 bits, big-endian"
    );
    assert!(e.encoded_size == u32::from_le_bytes([b[18], b[19], b[20], b[21]]), "size is little-endian");
    kani::cover!(e.archive_location.archive_id == 1023 && e.archive_location.archive_offset == 0x3FFF_FFFF, "maximal location");
    kani::cover!(i == 22 && !is_status_byte(b[22]), "undefined status byte");
}

// @harness prop=C08 tier=quick timeout=600 role=update-entry-fields
// @bounds ekey, archive_id 0..=1023, archive_offset 0..2^30, encoded_size, status (all 4) symbolic
// @encodes cascette_client_storage::index::update::UpdateEntry::new, cascette_client_storage::index::update::UpdateEntry::to_bytes, cascette_client_storage::index::update::UpdateEntry::from_bytes, cascette_client_storage::index::update::UpdateEntry::to_index_entry, cascette_client_storage::index::update::UpdateEntry::validate_hash_guard
// @assumes hashlittle replaced by a plain uninterpreted function
// @catches id/offset bits lost or swapped at the 10/30-bit boundary, status byte mapping, guard not stored / not reproduced
#[kani::proof]
#[kani::unwind(10)]
#[kani::stub(cascette_crypto::jenkins::hashlittle, ideal::hashlittle_uf32)]
fn c08_update_entry_fields_round_trip() {
    let ekey: [u8; 9] = kani::any();
    let id: u16 = kani::any();
    kani::assume(id <= 1023);
    let off: u32 = kani::any();
    kani::assume(off < 1 << 30);
    let size: u32 = kani::any();
    let sk: u8 = kani::any();
    kani::assume(sk < 4);
    let v = UpdateEntry::new(ekey, ArchiveLocation { archive_id: id, archive_offset: off }, size, status_of(sk));
    let r = UpdateEntry::from_bytes(&v.to_bytes());
    assert!(r.ekey == ekey && r.encoded_size == size && r.status == status_of(sk));
    assert!(r.archive_location.archive_id == id, "archive id not preserved");
    assert!(r.archive_location.archive_offset == off, "archive offset not preserved");
    assert!(r.hash_guard == v.hash_guard && r.hash_guard & 0x8000_0000 != 0, "guard preserved, bit 31 set");
    assert!(r.validate_hash_guard(), "re-read entry validates");
    let ie = r.to_index_entry();
    assert!(ie.key == ekey && ie.archive_id() == id && ie.archive_offset() == off && ie.size == size, "to_index_entry keeps the fields");
    kani::cover!(id == 1023 && off == 0x3FFF_FFFF, "maximal location");
    kani::cover!(id == 3 && off == 0, "id confined to the two packed bits");
}

// OBSERVATION, outside the documented range — NOT registered with the driver (no annotation block):
// archive ids are documented as 0..=1023; UpdateEntry::new / to_bytes do not refuse larger ids but
// silently wrap them modulo 1024 (`(id >> 2) as u8`), so this proof fails by design.  Run by hand:
// cargo kani -Z stubbing --harness c08_storage_records::c08_update_entry_archive_id_above_1023
#[kani::proof]
#[kani::unwind(10)]
#[kani::stub(cascette_crypto::jenkins::hashlittle, ideal::hashlittle_uf32)]
fn c08_update_entry_archive_id_above_1023() {
    let ekey: [u8; 9] = kani::any();
    let id: u16 = kani::any();
    kani::assume(id > 1023);
    let off: u32 = kani::any();
    kani::assume(off < 1 << 30);
    let size: u32 = kani::any();
    let v = UpdateEntry::new(ekey, ArchiveLocation { archive_id: id, archive_offset: off }, size, UpdateStatus::Normal);
    let r = UpdateEntry::from_bytes(&v.to_bytes());
    kani::cover!(id == 1024, "first id outside the range");
    assert!(
        r.archive_location.archive_id == id,
        "observation: UpdateEntry built with archive_id > 1023 reads back with a different archive id (silently wrapped mod 1024)"
    );
}

// ---- LocalHeader ------------------------------------------------------------------------------
// @harness prop=C08 tier=quick timeout=600 role=local-header-bytes
// @bounds every 30-byte string (from_bytes accepts all); extra trailing byte ignored
// @encodes cascette_client_storage::storage::local_header::LocalHeader::from_bytes, cascette_client_storage::storage::local_header::LocalHeader::to_bytes, cascette_client_storage::storage::local_header::LocalHeader::original_encoding_key, cascette_client_storage::storage::local_header::LocalHeader::blte_size
// @assumes none
// @catches size endianness mismatch (BE on disk), flags/checksum endianness, field offsets, key reversal not an involution
#[kani::proof]
#[kani::unwind(18)]
fn c08_local_header_bytes_fixed_point() {
    let b: [u8; LOCAL_HEADER_SIZE + 1] = kani::any();
    let i: usize = kani::any();
    kani::assume(i < LOCAL_HEADER_SIZE);
    let h = match LocalHeader::from_bytes(&b) {
        Some(h) => h,
        None => {
            assert!(false, "30+ bytes must parse");
            return;
        }
    };
    let w = h.to_bytes();
    assert!(w[i] == b[i], "write(read(b)) != b");
    assert!(h.size_with_header == u32::from_be_bytes([b[16], b[17], b[18], b[19]]), "size is big-endian at 0x10");
    assert!(h.flags == u16::from_le_bytes([b[20], b[21]]));
    assert!(h.checksum_a == u32::from_le_bytes([b[22], b[23], b[24], b[25]]));
    assert!(h.checksum_b == u32::from_le_bytes([b[26], b[27], b[28], b[29]]));
    let k = h.original_encoding_key();
    let j: usize = kani::any();
    kani::assume(j < 16);
    assert!(k[j] == b[15 - j], "original key = stored key reversed");
    if h.size_with_header >= LOCAL_HEADER_SIZE as u32 {
        assert!(h.blte_size() == h.size_with_header - 30);
    }
    kani::cover!(h.size_with_header == 30, "empty payload");
}

// @harness prop=C08 tier=quick timeout=600 role=local-header-fields
// @bounds key (16 bytes), blte_size 0..=u32::MAX-30, base offset <= 2^62 symbolic
// @encodes cascette_client_storage::storage::local_header::LocalHeader::new, cascette_client_storage::storage::local_header::LocalHeader::to_bytes, cascette_client_storage::storage::local_header::LocalHeader::from_bytes, cascette_client_storage::storage::local_header::LocalHeader::original_encoding_key, cascette_client_storage::storage::local_header::LocalHeader::blte_size, cascette_client_storage::storage::local_header::LocalHeader::compute_checksum_b
// @assumes hashlittle replaced by a plain uninterpreted function
// @catches key not reversed / reversed twice, size without the 30-byte header, checksum fields swapped
#[kani::proof]
#[kani::unwind(28)]
#[kani::stub(cascette_crypto::jenkins::hashlittle, ideal::hashlittle_uf32)]
fn c08_local_header_fields_round_trip() {
    let key: [u8; 16] = kani::any();
    let blte: u32 = kani::any();
    kani::assume(blte <= u32::MAX - LOCAL_HEADER_SIZE as u32);
    let off: usize = kani::any();
    kani::assume(off <= 1 << 62);
    let j: usize = kani::any();
    kani::assume(j < 16);
    let h = LocalHeader::new(key, blte, off);
    let b = h.to_bytes();
    let r = match LocalHeader::from_bytes(&b) {
        Some(r) => r,
        None => {
            assert!(false, "own serialisation must parse");
            return;
        }
    };
    assert!(r.original_encoding_key()[j] == key[j], "encoding key not preserved");
    assert!(b[j] == key[15 - j], "key stored reversed");
    assert!(r.blte_size() == blte, "blte size not preserved");
    assert!(r.flags == 0 && r.checksum_a == h.checksum_a && r.checksum_b == h.checksum_b);
    assert!(r.validate_checksums(off), "re-read header validates at its offset");
    kani::cover!(blte == u32::MAX - 30, "largest size");
}

// ---- LRU file header / entry / file -------------------------------------------------------------
// @harness prop=C08 tier=quick timeout=600 role=lru-header-entry-bytes
// @bounds every 28-byte header string and every 20-byte entry string
// @encodes cascette_client_storage::lru::lru_file::LruFileHeader::from_bytes, cascette_client_storage::lru::lru_file::LruFileHeader::to_bytes, cascette_client_storage::lru::lru_file::LruFileEntry::from_bytes, cascette_client_storage::lru::lru_file::LruFileEntry::to_bytes
// @assumes none
// @catches version bound (`>` vs `>=`), head/tail swapped, key offset, flags byte position, reserved/padding not canonicalised
#[kani::proof]
#[kani::unwind(18)]
fn c08_lru_header_entry_bytes_fixed_point() {
    let hb: [u8; LRU_HEADER_SIZE] = kani::any();
    let eb: [u8; LRU_ENTRY_SIZE] = kani::any();
    let i: usize = kani::any();
    kani::assume(i < LRU_HEADER_SIZE);
    let k: usize = kani::any();
    kani::assume(k < LRU_ENTRY_SIZE);
    let version = u16::from_le_bytes([hb[0], hb[1]]);
    let h = LruFileHeader::from_bytes(&hb);
    assert!(h.is_some() == (version <= 1), "header accepted iff version <= 1");
    kani::cover!(version == 1, "accepted header");
    if let Some(h) = h {
        let w = h.to_bytes();
        assert!(if i == 2 || i == 3 { w[i] == 0 } else { w[i] == hb[i] }, "write(read(b)) == b except reserved bytes -> 0");
        match LruFileHeader::from_bytes(&w) {
            Some(h2) => {
                assert!(h2.version == h.version && h2.hash == h.hash && h2.mru_head == h.mru_head && h2.lru_tail == h.lru_tail);
                assert!(h2.to_bytes()[i] == w[i], "write(read(w)) != w");
            }
            None => assert!(false, "own serialisation must parse"),
        }
        assert!(h.mru_head == u32::from_le_bytes([hb[20], hb[21], hb[22], hb[23]]));
        assert!(h.lru_tail == u32::from_le_bytes([hb[24], hb[25], hb[26], hb[27]]));
    }
    let e = LruFileEntry::from_bytes(&eb);
    let w = e.to_bytes();
    assert!(if k >= 18 { w[k] == 0 } else { w[k] == eb[k] }, "entry: write(read(b)) == b except padding -> 0");
    let e2 = LruFileEntry::from_bytes(&w);
    assert!(e2.prev == e.prev && e2.next == e.next && e2.ekey == e.ekey && e2.flags == e.flags);
    assert!(e2.to_bytes()[k] == w[k], "entry: write(read(w)) != w");
    assert!(e.prev == u32::from_le_bytes([eb[0], eb[1], eb[2], eb[3]]) && e.next == u32::from_le_bytes([eb[4], eb[5], eb[6], eb[7]]));
    assert!(e.flags == eb[17]);
}

pub static mut MDU: crate::uf::Uf<13, 2, 6> = crate::uf::Uf::new();
// md5::compute as a plain uninterpreted function (round trips need determinism only)
fn md5_compute_uf<T: AsRef<[u8]>>(data: T) -> md5::Digest {
    let d = data.as_ref();
    let n = d.len();
    assert!(n <= 96, "md5 model: message longer than 96 bytes");
    let mut w = [0u64; 13];
    let mut j = 0;
    while j < 12 {
        let mut k = 0;
        while k < 8 {
            if 8 * j + k < n {
                w[j] |= (d[8 * j + k] as u64) << (8 * k);
            }
            k += 1;
        }
        j += 1;
    }
    w[12] = n as u64;
    let o = unsafe { MDU.apply(w, [u64::MAX, u64::MAX]) };
    let mut out = [0u8; 16];
    let mut j = 0;
    while j < 8 {
        out[j] = (o[0] >> (8 * j)) as u8;
        out[8 + j] = (o[1] >> (8 * j)) as u8;
        j += 1;
    }
    md5::Digest(out)
}

macro_rules! lru_file_round_trip {
    ($name:ident, $n:expr) => {
        #[kani::proof]
        #[kani::unwind(18)]
        #[kani::stub(md5_compute_real, md5_compute_uf)]
        fn $name() {
            const N: usize = $n;
            const LEN: usize = LRU_HEADER_SIZE + N * LRU_ENTRY_SIZE;
            // (a) arbitrary accepted file image
            let b: [u8; LEN] = kani::any();
            let i: usize = kani::any();
            kani::assume(i < LEN);
            let q: usize = kani::any();
            kani::assume(q < if N == 0 { 1 } else { N });
            let r = deserialize(&b);
            kani::cover!(r.is_some(), "an arbitrary image with a matching hash is accepted");
            if let Some((h, es)) = &r {
                assert!(es.len() == N, "entry count = (len - 28) / 20");
                // re-materialise the entries with a concrete length: the Vec inside the merged Option has
                // a length CBMC's constant propagation cannot see (the writer's loop would unroll to the bound)
                let mut a1 = [LruFileEntry::empty(); if N == 0 { 1 } else { N }];
                let mut k = 0;
                while k < N {
                    a1[k] = es[k];
                    k += 1;
                }
                let w = serialize(h, &a1[..N]);
                assert!(w.len() == LEN);
                // canonical form: reserved + padding zero; everything else but the hash unchanged
                let in_hash = i >= 4 && i < 20;
                let dont_care = i == 2 || i == 3 || (i >= LRU_HEADER_SIZE && (i - LRU_HEADER_SIZE) % LRU_ENTRY_SIZE >= 18);
                if dont_care {
                    assert!(w[i] == 0, "reserved / padding bytes are written as 0");
                } else if !in_hash {
                    assert!(w[i] == b[i], "write(read(b)) changed an information-carrying byte");
                }
                let r2 = deserialize(&w);
                match &r2 {
                    Some((h2, es2)) => {
                        assert!(h2.version == h.version && h2.mru_head == h.mru_head && h2.lru_tail == h.lru_tail, "header fields change on re-read");
                        assert!(es2.len() == N);
                        if N > 0 {
                            // (elements copied to locals first: a direct `==` of two arrays that both sit at a
                            // symbolic index yields a spurious memcmp counterexample in CBMC 6.11)
                            let (x, y) = (es2[q], es[q]);
                            assert!(x.prev == y.prev && x.next == y.next && x.ekey == y.ekey && x.flags == y.flags, "entry changes on re-read");
                        }
                        let mut a2 = [LruFileEntry::empty(); if N == 0 { 1 } else { N }];
                        let mut k = 0;
                        while k < N {
                            a2[k] = es2[k];
                            k += 1;
                        }
                        let w2 = serialize(h2, &a2[..N]);
                        assert!(w2.len() == LEN && w2[i] == w[i], "write(read(w)) != w");
                        std::mem::forget(w2);
                    }
                    None => assert!(false, "own serialisation must load"),
                }
                std::mem::forget(r2);
                std::mem::forget(w);
            }
            std::mem::forget(r);
        }
    };
}
// @family prop=C08 tier=quick timeout=900 role=lru-file-fixed-point
// @bounds every file image of 28 + 20*N bytes (N in the name) that deserialize accepts (hash field = H(image with hash zeroed) under the uninterpreted H); compared byte i / entry q symbolic
// @encodes cascette_client_storage::lru::lru_file::deserialize, cascette_client_storage::lru::lru_file::serialize, cascette_client_storage::lru::lru_file::LruFileHeader::from_bytes, cascette_client_storage::lru::lru_file::LruFileEntry::from_bytes, cascette_client_storage::lru::lru_file::entry_count_from_file_size
// @assumes md5::compute replaced by a plain uninterpreted function (determinism only)
// @catches writer and loader hashing different byte ranges (own output rejected), entry offset arithmetic, entries dropped or duplicated, non-canonical reserved bytes surviving
lru_file_round_trip!(c08_lru_file_fixed_point_n0, 0);
lru_file_round_trip!(c08_lru_file_fixed_point_n1, 1);
lru_file_round_trip!(c08_lru_file_fixed_point_n2, 2);
// @end

// @harness prop=C08 tier=quick timeout=900 role=lru-file-fields
// @bounds header (version 0/1, stale hash field, head, tail) and 2 entries symbolic
// @encodes cascette_client_storage::lru::lru_file::serialize, cascette_client_storage::lru::lru_file::deserialize
// @assumes md5::compute replaced by a plain uninterpreted function
// @catches serialize leaking the caller's stale hash into the hashed image, entry order, field loss
#[kani::proof]
#[kani::unwind(18)]
#[kani::stub(md5_compute_real, md5_compute_uf)]
fn c08_lru_file_fields_round_trip() {
    let header = LruFileHeader { version: kani::any(), hash: kani::any(), mru_head: kani::any(), lru_tail: kani::any() };
    kani::assume(header.version <= 1);
    let es = [
        LruFileEntry { prev: kani::any(), next: kani::any(), ekey: kani::any(), flags: kani::any() },
        LruFileEntry { prev: kani::any(), next: kani::any(), ekey: kani::any(), flags: kani::any() },
    ];
    let q: usize = kani::any();
    kani::assume(q < 2);
    let data = serialize(&header, &es);
    let r = deserialize(&data);
    kani::cover!(r.is_some(), "round trip loads");
    match &r {
        Some((h, got)) => {
            assert!(h.version == header.version && h.mru_head == header.mru_head && h.lru_tail == header.lru_tail, "header fields not preserved");
            assert!(got.len() == 2);
            let (x, y) = (got[q], es[q]); // locals: see the note in lru_file_round_trip
            assert!(x.prev == y.prev && x.next == y.next && x.ekey == y.ekey && x.flags == y.flags, "entry not preserved");
        }
        None => assert!(false, "own serialisation must load"),
    }
    std::mem::forget(r);
    std::mem::forget(data);
}

// ---- residency span / entry -----------------------------------------------------------------------
// @harness prop=C08 tier=quick timeout=600 role=residency-bytes
// @bounds every 16-byte span string and every 40-byte entry string
// @encodes cascette_client_storage::kmt::key_state::ResidencySpan::from_bytes, cascette_client_storage::kmt::key_state::ResidencySpan::to_bytes, cascette_client_storage::kmt::key_state::ResidencyEntry::from_bytes, cascette_client_storage::kmt::key_state::ResidencyEntry::to_bytes, cascette_client_storage::kmt::key_state::ResidencyUpdateType::from_byte
// @assumes none
// @catches span endianness (BE) mismatch, field order, type byte offset, update-type mapping not idempotent
#[kani::proof]
#[kani::unwind(18)]
fn c08_residency_bytes_fixed_point() {
    let sb: [u8; 16] = kani::any();
    let b: [u8; RESIDENCY_ENTRY_SIZE] = kani::any();
    let i: usize = kani::any();
    kani::assume(i < RESIDENCY_ENTRY_SIZE);
    let s = ResidencySpan::from_bytes(&sb);
    assert!(s.to_bytes()[i % 16] == sb[i % 16], "span: write(read(b)) != b");
    assert!(s.offset == i32::from_be_bytes([sb[0], sb[1], sb[2], sb[3]]) && s.length == i32::from_be_bytes([sb[4], sb[5], sb[6], sb[7]]), "span fields are big-endian");
    assert!(s.reserved1 == i32::from_be_bytes([sb[8], sb[9], sb[10], sb[11]]) && s.reserved2 == i32::from_be_bytes([sb[12], sb[13], sb[14], sb[15]]));

    let e = ResidencyEntry::from_bytes(&b);
    let w = e.to_bytes();
    let defined = b[36] <= 3 || b[36] == 6 || b[36] == 7;
    if i < 36 || (i == 36 && defined) {
        assert!(w[i] == b[i], "entry: write(read(b)) differs in an information-carrying byte");
    } else if i > 36 {
        assert!(w[i] == 0, "padding written as 0");
    }
    let e2 = ResidencyEntry::from_bytes(&w);
    assert!(e2.hash_flags == e.hash_flags && e2.ekey == e.ekey && e2.span == e.span && e2.update_type == e.update_type, "entry changes on re-read");
    assert!(e2.to_bytes()[i] == w[i], "entry: write(read(w)) != w");
    assert!(e.hash_flags == u32::from_le_bytes([b[0], b[1], b[2], b[3]]));
    assert!(e.is_valid() == (b[3] & 0x80 != 0));
    kani::cover!(i == 36 && !defined, "undefined update type");
}

// @harness prop=C08 tier=quick timeout=600 role=residency-fields
// @bounds ekey (16 bytes), span (4 x i32 incl. negative), update type (all 6) symbolic
// @encodes cascette_client_storage::kmt::key_state::ResidencyEntry::new, cascette_client_storage::kmt::key_state::ResidencyEntry::to_bytes, cascette_client_storage::kmt::key_state::ResidencyEntry::from_bytes, cascette_client_storage::kmt::key_state::ResidencyEntry::validate_hash_guard
// @assumes hashlittle replaced by a plain uninterpreted function
// @catches sign/endianness loss in the span, update type mapping asymmetry (to u8 vs from_byte)
#[kani::proof]
#[kani::unwind(18)]
#[kani::stub(cascette_crypto::jenkins::hashlittle, ideal::hashlittle_uf32)]
fn c08_residency_entry_fields_round_trip() {
    let ekey: [u8; 16] = kani::any();
    let span = ResidencySpan { offset: kani::any(), length: kani::any(), reserved1: kani::any(), reserved2: kani::any() };
    let tk: u8 = kani::any();
    kani::assume(tk < 6);
    let t = match tk {
        0 => ResidencyUpdateType::Invalid,
        1 => ResidencyUpdateType::Set,
        2 => ResidencyUpdateType::Create,
        3 => ResidencyUpdateType::Delete,
        4 => ResidencyUpdateType::MarkResident,
        _ => ResidencyUpdateType::MarkNonResident,
    };
    let v = ResidencyEntry::new(ekey, span, t);
    let r = ResidencyEntry::from_bytes(&v.to_bytes());
    assert!(r.ekey == ekey && r.span == span && r.update_type == t, "fields not preserved");
    assert!(r.hash_flags == v.hash_flags && r.is_valid() && r.validate_hash_guard(), "guard preserved and valid");
    kani::cover!(span.offset < 0 && tk == 5, "negative span offset, MarkNonResident");
}
