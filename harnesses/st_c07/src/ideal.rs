// Ideal-hash stand-ins (C07): uninterpreted function + injectivity on the recorded inputs.
//
// The message bytes (any length up to the model's maximum), the length and the seed are packed
// into u64 words; `Uf::apply_injective` returns a fresh digest that equals the digest of every
// earlier call with the same packed input and differs from the digest of every earlier call with
// a different one.  A validator that hashes fewer / other bytes than the writer, compares only a
// part of the digest, or does not compare at all therefore accepts some corrupted artifact, and
// the counterexample is independent of the digest values (it replays natively with the real hash).
//
// The stubs are only ever reached through `#[kani::stub]`; natively (cfg(vreplay)) the real
// functions run.
use crate::uf::Uf;

pub const JH_MAX: usize = 48;
pub static mut JH: Uf<7, 1, 8> = Uf::new();

fn pack48(data: &[u8], tag: u64) -> [u64; 7] {
    let n = data.len();
    assert!(n <= JH_MAX, "ideal hashlittle: message longer than the model's 48 bytes");
    // nested 6 x 8 loops keep the harness-wide unwind bound at 9
    let mut w = [0u64; 7];
    let mut j = 0;
    while j < 6 {
        let mut k = 0;
        while k < 8 {
            if 8 * j + k < n {
                w[j] |= (data[8 * j + k] as u64) << (8 * k);
            }
            k += 1;
        }
        j += 1;
    }
    w[6] = (n as u64) << 32 | tag;
    w
}

/// `cascette_crypto::jenkins::hashlittle` as an ideal hash whose 32-bit digests are pairwise
/// distinct on distinct (message, seed) pairs.
pub fn hashlittle_ideal32(data: &[u8], initval: u32) -> u32 {
    let w = pack48(data, initval as u64);
    let o = unsafe { JH.apply_injective(w, [0xFFFF_FFFF]) };
    o[0] as u32
}

/// `hashlittle` as a plain uninterpreted function (deterministic, nothing else assumed): a sound
/// over-approximation of the real hash, no idealisation.
pub fn hashlittle_uf32(data: &[u8], initval: u32) -> u32 {
    let w = pack48(data, initval as u64);
    let o = unsafe { JH.apply(w, [0xFFFF_FFFF]) };
    o[0] as u32
}

/// Same, for the hash guards stored as `hash | 0x8000_0000`: the digests are pairwise distinct in
/// the 31 bits that survive the OR (bit 31 of the raw digest is 0 in the model).
pub fn hashlittle_ideal31(data: &[u8], initval: u32) -> u32 {
    let w = pack48(data, initval as u64);
    let o = unsafe { JH.apply_injective(w, [0x7FFF_FFFF]) };
    o[0] as u32
}

// ---- MD5 (the `md5` crate's `compute`, as used by lru_file) -----------------------------------
pub const MD_MAX: usize = 96;
pub static mut MD: Uf<13, 2, 6> = Uf::new();

pub fn md5_compute_ideal<T: AsRef<[u8]>>(data: T) -> md5::Digest {
    let d = data.as_ref();
    let n = d.len();
    assert!(n <= MD_MAX, "ideal md5: message longer than the model's 96 bytes");
    let mut w = [0u64; 13];
    let mut j = 0;
    while j < 12 {
        let mut k = 0;
        while k < 8 {
            if 8 * j + k < n {
                w[j] |= (d[8 * j + k] as u64) << (8 * k);
            }
            k += 1;
        }
        j += 1;
    }
    w[12] = n as u64;
    let o = unsafe { MD.apply_injective(w, [u64::MAX, u64::MAX]) };
    let mut out = [0u8; 16];
    let mut j = 0;
    while j < 8 {
        out[j] = (o[0] >> (8 * j)) as u8;
        out[8 + j] = (o[1] >> (8 * j)) as u8;
        j += 1;
    }
    md5::Digest(out)
}
