// Kani harnesses for cascette-client-storage.
#![allow(dead_code, unused_imports, static_mut_refs)]

#[cfg(kani)]
#[path = "../../common/uf.rs"]
pub mod uf;
#[cfg(kani)]
#[path = "../../common/stubs.rs"]
pub mod stubs;
#[cfg(kani)]
#[path = "../../common/tracing_stubs.rs"]
pub mod tracing_stubs;

#[cfg(kani)]
mod ideal;
#[cfg(kani)]
mod c07_update;
#[cfg(kani)]
mod c07_local_header;
#[cfg(kani)]
mod c07_lru_file;
#[cfg(kani)]
mod c07_residency;
#[cfg(kani)]
mod c08_storage_records;
#[cfg(kani)]
mod c08_index_records;
