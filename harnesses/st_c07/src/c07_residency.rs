// C07 — KMT V8 residency entries (40 bytes, Jenkins hash guard over bytes 4..37) and pages.
use crate::ideal;
use cascette_client_storage::kmt::key_state::{
    RESIDENCY_ENTRY_SIZE, RESIDENCY_PAGE_SIZE, ResidencyEntry, ResidencyPage, ResidencySpan, ResidencyUpdateType,
};

// the five update types the residency database writes / defines as non-empty
fn type_of(k: u8) -> ResidencyUpdateType {
    match k {
        0 => ResidencyUpdateType::Set,
        1 => ResidencyUpdateType::Create,
        2 => ResidencyUpdateType::Delete,
        3 => ResidencyUpdateType::MarkResident,
        _ => ResidencyUpdateType::MarkNonResident,
    }
}
fn any_span() -> ResidencySpan {
    ResidencySpan { offset: kani::any(), length: kani::any(), reserved1: kani::any(), reserved2: kani::any() }
}

// @harness prop=C07 tier=quick timeout=900 role=residency-entry-single-byte
// @bounds ekey (16 bytes), span (4 x i32), update type (Set/Create/Delete/MarkResident/MarkNonResident) symbolic; corruption position p in 0..=36 (guard field 0..4 and the whole hashed range 4..37 incl. the update-type byte) symbolic, new value symbolic != old (any byte value, also undefined update types)
// @encodes cascette_client_storage::kmt::key_state::ResidencyEntry::new, cascette_client_storage::kmt::key_state::ResidencyEntry::to_bytes, cascette_client_storage::kmt::key_state::ResidencyEntry::from_bytes, cascette_client_storage::kmt::key_state::ResidencyEntry::compute_hash_guard, cascette_client_storage::kmt::key_state::ResidencyEntry::validate_hash_guard, cascette_client_storage::kmt::key_state::ResidencySpan::to_bytes, cascette_client_storage::kmt::key_state::ResidencySpan::from_bytes, cascette_client_storage::kmt::key_state::ResidencyUpdateType::from_byte
// @assumes hashlittle is an ideal hash (31 surviving bits injective); original update type is not Invalid(0) (see c07_residency_entry_invalid_type_byte)
// @catches hashed range shortened/shifted (4..36 drops the type byte, span bytes uncovered), guard not compared / compared partially, span field endianness mismatch between reader and writer
#[kani::proof]
#[kani::unwind(18)]
#[kani::stub(cascette_crypto::jenkins::hashlittle, ideal::hashlittle_ideal31)]
fn c07_residency_entry_single_byte() {
    let ekey: [u8; 16] = kani::any();
    let span = any_span();
    let tk: u8 = kani::any();
    kani::assume(tk < 5);
    let p: usize = kani::any();
    kani::assume(p < 37);
    let v: u8 = kani::any();
    let e = ResidencyEntry::new(ekey, span, type_of(tk));
    assert!(e.validate_hash_guard() && e.is_valid(), "a freshly built entry must validate");
    let mut b = e.to_bytes();
    kani::cover!(p == 36 && v == 0x55, "update-type byte set to an undefined value");
    kani::cover!(p == 20, "first span byte corrupted");
    kani::cover!(p == 0, "guard field corrupted");
    kani::assume(v != b[p]);
    b[p] = v;
    let c = ResidencyEntry::from_bytes(&b);
    assert!(!c.validate_hash_guard(), "corrupted residency entry accepted by validate_hash_guard");
}

// Same mechanism as the update-entry status byte: undefined type bytes parse as Invalid(0), and the
// guard is checked over the re-serialised fields.
// @harness prop=C07 tier=quick timeout=900 role=residency-entry-invalid-type
// @bounds ekey, span symbolic, update type Invalid(0); type byte 36 overwritten with any value outside {0,1,2,3,6,7}
// @encodes cascette_client_storage::kmt::key_state::ResidencyEntry::from_bytes, cascette_client_storage::kmt::key_state::ResidencyEntry::validate_hash_guard, cascette_client_storage::kmt::key_state::ResidencyUpdateType::from_byte
// @assumes hashlittle is an ideal hash
// @catches (known finding, low severity: no writer in the crate emits type Invalid) lossy parse before validation
#[kani::proof]
#[kani::unwind(18)]
#[kani::stub(cascette_crypto::jenkins::hashlittle, ideal::hashlittle_ideal31)]
fn c07_residency_entry_invalid_type_byte() {
    let ekey: [u8; 16] = kani::any();
    let span = any_span();
    let v: u8 = kani::any();
    kani::assume(!(v <= 3 || v == 6 || v == 7));
    let e = ResidencyEntry::new(ekey, span, ResidencyUpdateType::Invalid);
    let mut b = e.to_bytes();
    kani::cover!(b[36] == 0, "type byte of an Invalid entry is 0");
    b[36] = v;
    let c = ResidencyEntry::from_bytes(&b);
    assert!(
        !c.validate_hash_guard(),
        "KF: residency entry with its (hashed) update-type byte overwritten by an undefined value passes validate_hash_guard"
    );
}

// ---- load path: ResidencyPage::from_bytes -------------------------------------------------------
// @harness prop=C07 tier=quick timeout=900 role=residency-page-load-path
// @bounds one-entry page written by the real writer, entry fields symbolic; the entry corrupted at a symbolic byte of its hashed range 4..37, new value symbolic != old
// @encodes cascette_client_storage::kmt::key_state::ResidencyPage::from_bytes, cascette_client_storage::kmt::key_state::ResidencyPage::to_bytes, cascette_client_storage::kmt::key_state::ResidencyPage::push, cascette_client_storage::kmt::key_state::ResidencyEntry::from_bytes
// @assumes hashlittle is an ideal hash
// @catches (known finding) load path that parses residency entries without validating their hash guard
#[kani::proof]
#[kani::unwind(27)]
#[kani::stub(cascette_crypto::jenkins::hashlittle, ideal::hashlittle_ideal31)]
fn c07_residency_page_load_n1() {
    let ekey: [u8; 16] = kani::any();
    let span = any_span();
    let tk: u8 = kani::any();
    kani::assume(tk < 5);
    let q: usize = kani::any();
    kani::assume(q >= 4 && q < 37);
    let v: u8 = kani::any();
    let mut page = ResidencyPage::new();
    assert!(page.push(ResidencyEntry::new(ekey, span, type_of(tk))));
    let mut bytes = page.to_bytes();
    let mut eb = [0u8; RESIDENCY_ENTRY_SIZE];
    eb.copy_from_slice(&bytes[..RESIDENCY_ENTRY_SIZE]);
    kani::assume(v != eb[q]);
    eb[q] = v;
    bytes[..RESIDENCY_ENTRY_SIZE].copy_from_slice(&eb);
    kani::cover!(q == 4, "first ekey byte corrupted");
    let loaded = ResidencyPage::from_bytes(&bytes);
    if let Some(pg) = &loaded {
        if pg.len() > 0 {
            let got = &pg.entries()[0];
            let same = got.ekey == ekey && got.span == span && got.update_type == type_of(tk);
            assert!(
                same,
                "KF: ResidencyPage::from_bytes hands on an entry whose guarded bytes were corrupted (hash guard never checked on load)"
            );
        }
    }
    std::mem::forget(loaded);
    std::mem::forget(page);
}

fn ref_hash31(data: &[u8], seed: u32) -> u32 {
    if cfg!(vreplay) {
        return cascette_crypto::jenkins::hashlittle(data, seed);
    }
    ideal::hashlittle_ideal31(data, seed)
}
// @harness prop=C07 tier=quick timeout=600 role=residency-entry-guard-coverage
// @bounds all 40 entry bytes symbolic
// @encodes cascette_client_storage::kmt::key_state::ResidencyEntry::compute_hash_guard
// @assumes hashlittle is an ideal hash (equal digests <=> equal (message, seed))
// @catches hashed range other than 4..37 (33 bytes: key, span, update type), non-zero seed, bit 31 not forced
#[kani::proof]
#[kani::unwind(10)]
#[kani::stub(cascette_crypto::jenkins::hashlittle, ideal::hashlittle_ideal31)]
fn c07_residency_entry_guard_coverage() {
    let b: [u8; RESIDENCY_ENTRY_SIZE] = kani::any();
    let g = ResidencyEntry::compute_hash_guard(&b);
    assert!(g == ref_hash31(&b[4..37], 0) | 0x8000_0000, "hash guard is not hashlittle(bytes[4..37], 0) | 0x80000000");
    kani::cover!(b[36] == 7, "a mark-non-resident entry");
}

// @harness prop=C07 tier=quick timeout=600 role=residency-page-truncation
// @bounds one-entry page from the real writer with symbolic fields; slice truncated by one byte; the untruncated page loads with the entry intact
// @encodes cascette_client_storage::kmt::key_state::ResidencyPage::from_bytes, cascette_client_storage::kmt::key_state::ResidencyPage::to_bytes
// @assumes hashlittle is an ideal hash (only determinism and bit 31 matter here)
// @catches `<` vs `<=` in the page-length check, loader dropping or mangling a good entry
#[kani::proof]
#[kani::unwind(27)]
#[kani::stub(cascette_crypto::jenkins::hashlittle, ideal::hashlittle_ideal31)]
fn c07_residency_page_truncated() {
    let ekey: [u8; 16] = kani::any();
    let span = any_span();
    let tk: u8 = kani::any();
    kani::assume(tk < 5);
    let mut page = ResidencyPage::new();
    assert!(page.push(ResidencyEntry::new(ekey, span, type_of(tk))));
    let bytes = page.to_bytes();
    let short = ResidencyPage::from_bytes(&bytes[..RESIDENCY_PAGE_SIZE - 1]);
    assert!(short.is_none(), "page truncated by one byte must be rejected");
    let full = ResidencyPage::from_bytes(&bytes);
    kani::cover!(full.is_some(), "the untruncated page loads");
    match &full {
        Some(pg) => {
            assert!(pg.len() == 1, "exactly the written entry is loaded");
            let got = pg.entries()[0];
            assert!(got.ekey == ekey && got.span == span && got.update_type == type_of(tk) && got.validate_hash_guard(), "good entry mangled by the loader");
        }
        None => assert!(false, "the untruncated page must load"),
    }
    std::mem::forget(full);
    std::mem::forget(page);
}
