// C07 — KMT V8 residency entries (40 bytes, Jenkins hash guard over bytes 4..37) and pages.
use crate::ideal;
use cascette_client_storage::kmt::key_state::{
    RESIDENCY_ENTRY_SIZE, RESIDENCY_PAGE_SIZE, ResidencyEntry, ResidencyPage, ResidencySpan, ResidencyUpdateType,
};

// the five update types the residency database writes / defines as non-empty
fn type_of(k: u8) -> ResidencyUpdateType {
    match k {
        0 => ResidencyUpdateType::Set,
        1 => ResidencyUpdateType::Create,
        2 => ResidencyUpdateType::Delete,
        3 => ResidencyUpdateType::MarkResident,
        _ => ResidencyUpdateType::MarkNonResident,
    }
}
fn any_span() -> ResidencySpan {
    ResidencySpan { offset: kani::any(), length: kani::any(), reserved1: kani::any(), reserved2: kani::any() }
}

// @harness prop=C07 tier=quick timeout=900 role=residency-entry-single-byte
// @bounds ekey (16 bytes), span (4 x i32), update type (Set/Create/Delete/MarkResident/MarkNonResident) symbolic; corruption position p in 0..=36 (guard field 0..4 and the whole hashed range 4..37 incl. the update-type byte) symbolic, new value symbolic != old (any byte value, also undefined update types)
// @encodes cascette_client_storage::kmt::key_state::ResidencyEntry::new, cascette_client_storage::kmt::key_state::ResidencyEntry::to_bytes, cascette_client_storage::kmt::key_state::ResidencyEntry::from_bytes, cascette_client_storage::kmt::key_state::ResidencyEntry::compute_hash_guard, cascette_client_storage::kmt::key_state::ResidencyEntry::validate_hash_guard, cascette_client_storage::kmt::key_state::ResidencySpan::to_bytes, cascette_client_storage::kmt::key_state::ResidencySpan::from_bytes, cascette_client_storage::kmt::key_state::ResidencyUpdateType::from_byte
// @assumes hashlittle is an ideal hash (31 surviving bits injective); original update type is not Invalid(0) (see c07_residency_entry_invalid_type_byte)
// @catches hashed range shortened/shifted (4..36 drops the type byte, span bytes uncovered), guard not compared / compared partially, span field endianness mismatch between reader and writer
#[kani::proof]
#[kani::unwind(18)]
#[kani::stub(cascette_crypto::jenkins::hashlittle, ideal::hashlittle_ideal31)]
fn c07_residency_entry_single_byte() {
    let ekey: [u8; 16] = kani::any();
    let span = any_span();
    let tk: u8 = kani::any();
    kani::assume(tk < 5);
    let p: usize = kani::any();
    kani::assume(p < 37);
    let v: u8 = kani::any();
    let e = ResidencyEntry::new(ekey, span, type_of(tk));
    assert!(e.validate_hash_guard() && e.is_valid(), "a freshly built entry must validate");
    let mut b = e.to_bytes();
    kani::cover!(p == 36 && v == 0x55, "update-type byte set to an undefined value");
    kani::cover!(p == 20, "first span byte corrupted");
    kani::cover!(p == 0, "guard field corrupted");
    kani::assume(v != b[p]);
    b[p] = v;
    let c = ResidencyEntry::from_bytes(&b);
    assert!(!c.validate_hash_guard(), "corrupted residency entry accepted by validate_hash_guard");
}

// Same mechanism as the update-entry status byte: undefined type bytes parse as Invalid(0), and the
// guard is checked over the re-serialised fields.
// @harness prop=C07 tier=quick timeout=900 role=residency-entry-invalid-type
// @bounds ekey, span symbolic, update type Invalid(0); type byte 36 overwritten with any value outside {0,1,2,3,6,7}
// @encodes cascette_client_storage::kmt::key_state::ResidencyEntry::from_bytes, cascette_client_storage::kmt::key_state::ResidencyEntry::validate_hash_guard, cascette_client_storage::kmt::key_state::ResidencyUpdateType::from_byte
// @assumes hashlittle is an ideal hash
// @catches (known finding, low severity: no writer in the crate emits type Invalid) lossy parse before validation
#[kani::proof]
#[kani::unwind(18)]
#[kani::stub(cascette_crypto::jenkins::hashlittle, ideal::hashlittle_ideal31)]
fn c07_residency_entry_invalid_type_byte() {
    let ekey: [u8; 16] = kani::any();
    let span = any_span();
    let v: u8 = kani::any();
    kani::assume(!(v <= 3 || v == 6 || v == 7));
    let e = ResidencyEntry::new(ekey, span, ResidencyUpdateType::Invalid);
    let mut b = e.to_bytes();
    kani::cover!(b[36] == 0, "type byte of an Invalid entry is 0");
    b[36] = v;
    let c = ResidencyEntry::from_bytes(&b);
    assert!(
        !c.validate_hash_guard(),
        "KF: residency entry with its (hashed) update-type byte overwritten by an undefined value passes validate_hash_guard"
    );
}

// ---- load path: ResidencyPage::from_bytes -------------------------------------------------------
// Contract (since /repo 69dcb3e): the corrupted slot and every later slot are absent, earlier entries intact.
macro_rules! residency_page_load {
    ($name:ident, $n:expr, $k:expr) => {
        #[kani::proof]
        #[kani::unwind(27)]
        #[kani::stub(cascette_crypto::jenkins::hashlittle, ideal::hashlittle_ideal31)]
        fn $name() {
            const N: usize = $n;
            const K: usize = $k;
            let ekeys: [[u8; 16]; N] = kani::any();
            let spans: [[i32; 4]; N] = kani::any();
            let tks: [u8; N] = kani::any();
            let q: usize = kani::any();
            kani::assume(q < 37);
            let v: u8 = kani::any();
            let mut page = ResidencyPage::new();
            let mut i = 0;
            while i < N {
                kani::assume(tks[i] < 5);
                let sp = ResidencySpan { offset: spans[i][0], length: spans[i][1], reserved1: spans[i][2], reserved2: spans[i][3] };
                assert!(page.push(ResidencyEntry::new(ekeys[i], sp, type_of(tks[i]))));
                i += 1;
            }
            let mut bytes = page.to_bytes();
            let mut eb = [0u8; RESIDENCY_ENTRY_SIZE];
            eb.copy_from_slice(&bytes[K * RESIDENCY_ENTRY_SIZE..(K + 1) * RESIDENCY_ENTRY_SIZE]);
            kani::cover!(q == 4, "first ekey byte corrupted");
            kani::cover!(q == 36 && v == 0x55, "update-type byte overwritten with an undefined value");
            kani::cover!(q == 3, "guard field corrupted");
            kani::assume(v != eb[q]);
            eb[q] = v;
            bytes[K * RESIDENCY_ENTRY_SIZE..(K + 1) * RESIDENCY_ENTRY_SIZE].copy_from_slice(&eb);
            let loaded = ResidencyPage::from_bytes(&bytes);
            match &loaded {
                None => assert!(K == 0, "entries in front of the corrupted slot must still be loaded"),
                Some(pg) => {
                    assert!(K > 0, "a page whose first entry is corrupted must not load");
                    assert!(pg.len() == K, "the corrupted entry and every later slot of the page must be absent");
                    let mut j = 0;
                    while j < K {
                        let got = pg.entries()[j];
                        let sp = ResidencySpan { offset: spans[j][0], length: spans[j][1], reserved1: spans[j][2], reserved2: spans[j][3] };
                        assert!(
                            got.ekey == ekeys[j] && got.span == sp && got.update_type == type_of(tks[j]) && got.validate_hash_guard(),
                            "an entry in front of the corrupted slot was altered or dropped"
                        );
                        j += 1;
                    }
                }
            }
            std::mem::forget(loaded);
            std::mem::forget(page);
        }
    };
}
// @family prop=C07 tier=quick timeout=900 role=residency-page-load-path
// @bounds page with N entries written by the real writer (name: n<N>[_k<K>]; c07_residency_page_load_n1 = N 1, K 0), ekey / span / 5 update types symbolic; entry K corrupted at a symbolic byte p in 0..=36 (guard field and hashed range, any new value != old incl. undefined update-type bytes)
// @encodes cascette_client_storage::kmt::key_state::ResidencyPage::from_bytes, cascette_client_storage::kmt::key_state::ResidencyPage::to_bytes, cascette_client_storage::kmt::key_state::ResidencyPage::push, cascette_client_storage::kmt::key_state::ResidencyEntry::from_bytes, cascette_client_storage::kmt::key_state::ResidencyEntry::compute_hash_guard
// @assumes hashlittle is an ideal hash (31 surviving bits injective)
// @catches load path without guard validation, guard recomputed over re-serialised fields, later slots handed on after a bad one, good entries in front dropped
residency_page_load!(c07_residency_page_load_n1, 1, 0);
residency_page_load!(c07_residency_page_load_n2_k0, 2, 0);
residency_page_load!(c07_residency_page_load_n2_k1, 2, 1);
// @end

fn ref_hash31(data: &[u8], seed: u32) -> u32 {
    if cfg!(vreplay) {
        return cascette_crypto::jenkins::hashlittle(data, seed);
    }
    ideal::hashlittle_ideal31(data, seed)
}
// @harness prop=C07 tier=quick timeout=600 role=residency-entry-guard-coverage
// @bounds all 40 entry bytes symbolic
// @encodes cascette_client_storage::kmt::key_state::ResidencyEntry::compute_hash_guard
// @assumes hashlittle is an ideal hash (equal digests <=> equal (message, seed))
// @catches hashed range other than 4..37 (33 bytes: key, span, update type), non-zero seed, bit 31 not forced
#[kani::proof]
#[kani::unwind(10)]
#[kani::stub(cascette_crypto::jenkins::hashlittle, ideal::hashlittle_ideal31)]
fn c07_residency_entry_guard_coverage() {
    let b: [u8; RESIDENCY_ENTRY_SIZE] = kani::any();
    let g = ResidencyEntry::compute_hash_guard(&b);
    assert!(g == ref_hash31(&b[4..37], 0) | 0x8000_0000, "hash guard is not hashlittle(bytes[4..37], 0) | 0x80000000");
    kani::cover!(b[36] == 7, "a mark-non-resident entry");
}

// @harness prop=C07 tier=quick timeout=600 role=residency-page-truncation
// @bounds one-entry page from the real writer with symbolic fields; slice truncated by one byte; the untruncated page loads with the entry intact
// @encodes cascette_client_storage::kmt::key_state::ResidencyPage::from_bytes, cascette_client_storage::kmt::key_state::ResidencyPage::to_bytes
// @assumes hashlittle is an ideal hash (only determinism and bit 31 matter here)
// @catches `<` vs `<=` in the page-length check, loader dropping or mangling a good entry
#[kani::proof]
#[kani::unwind(27)]
#[kani::stub(cascette_crypto::jenkins::hashlittle, ideal::hashlittle_ideal31)]
fn c07_residency_page_truncated() {
    let ekey: [u8; 16] = kani::any();
    let span = any_span();
    let tk: u8 = kani::any();
    kani::assume(tk < 5);
    let mut page = ResidencyPage::new();
    assert!(page.push(ResidencyEntry::new(ekey, span, type_of(tk))));
    let bytes = page.to_bytes();
    let short = ResidencyPage::from_bytes(&bytes[..RESIDENCY_PAGE_SIZE - 1]);
    assert!(short.is_none(), "page truncated by one byte must be rejected");
    let full = ResidencyPage::from_bytes(&bytes);
    kani::cover!(full.is_some(), "the untruncated page loads");
    match &full {
        Some(pg) => {
            assert!(pg.len() == 1, "exactly the written entry is loaded");
            let got = pg.entries()[0];
            assert!(got.ekey == ekey && got.span == span && got.update_type == type_of(tk) && got.validate_hash_guard(), "good entry mangled by the loader");
        }
        None => assert!(false, "the untruncated page must load"),
    }
    std::mem::forget(full);
    std::mem::forget(page);
}
