// C08 — local .idx records that go through binrw: 18-byte IndexEntry (from_packed / to_packed),
// IndexHeaderV2 (16 bytes, little-endian), GuardedBlockHeader (8 bytes).
use crate::stubs::*;
use binrw::{BinRead, BinReaderExt, BinWrite, BinWriterExt};
use cascette_client_storage::index::{GuardedBlockHeader, IndexEntry, IndexHeaderV2};
use std::io::Cursor;

fn eprint_nop(_args: core::fmt::Arguments<'_>) {}

// binrw::Error has recursive drop glue (Backtrace -> Box<Error>, EnumErrors -> Vec<(&str, Error)>); once an
// Err value has passed a control-flow merge CBMC explores every variant to the unwind depth and runs
// out of memory.  IndexEntry::to_packed drops such an error internally whenever the encoder *could*
// fail, i.e. whenever archive_id is symbolic.  The harnesses therefore drive the write side through
// the derived `BinWrite::write_be` (same code to_packed calls; the Err is handed to the harness and
// forgotten) with a fully symbolic id, and `to_packed` itself with concrete ids (error branch decided).
// A Vec written by a writer that may fail has a length CBMC treats as symbolic; parsing it directly
// makes the reader's error branch (and with it the binrw::Error drop glue) reachable for symex.  The
// bytes are therefore moved into a fixed array once the length has been asserted.
fn to_arr18(w: &Vec<u8>) -> [u8; 18] {
    let mut a = [0u8; 18];
    if w.len() == 18 {
        a.copy_from_slice(&w[..18]);
    }
    a
}

fn write_entry(e: &IndexEntry, out: &mut Vec<u8>) -> bool {
    let mut wc = Cursor::new(out);
    let wr = e.write_be(&mut wc);
    let ok = wr.is_ok();
    std::mem::forget(wr);
    ok
}

// @harness prop=C08 tier=quick timeout=900 role=index-entry-bytes
// @bounds every 18-byte string (plus one trailing byte that must be ignored); from_packed accepts iff the 9 key bytes are not all zero
// @encodes cascette_client_storage::index::IndexEntry::from_packed, cascette_client_storage::index::IndexEntry::read_options, cascette_client_storage::index::IndexEntry::write_options, cascette_client_storage::index::parse_archive_location, cascette_client_storage::index::write_archive_location
// @assumes std::fmt::format -> empty string (error text only); write side = the derived BinWrite impl that to_packed wraps
// @catches 10/30-bit location packing asymmetry between parse_archive_location and write_archive_location, size endianness (LE inside a BE record), wrong shift/mask, empty-key rule
#[kani::proof]
#[kani::unwind(11)]
#[kani::stub(std::fmt::format, fmt_format_empty)]
fn c08_index_entry_bytes_fixed_point() {
    let b: [u8; 19] = kani::any();
    let i: usize = kani::any();
    kani::assume(i < 18);
    let mut key_zero = true;
    let mut k = 0;
    while k < 9 {
        key_zero &= b[k] == 0;
        k += 1;
    }
    let r = IndexEntry::from_packed(&b, 9, 30, 32);
    assert!(r.is_ok() == !key_zero, "accepted iff the key is not all zero");
    kani::cover!(r.is_ok(), "accepted entry");
    if let Ok(e) = &r {
        assert!(e.archive_id() == ((b[9] as u16) << 2 | (b[10] >> 6) as u16), "archive id = byte 9 and the top 2 bits of byte 10");
        assert!(e.archive_offset() == u32::from_be_bytes([b[10] & 0x3F, b[11], b[12], b[13]]), "offset = low 30 bits, big-endian");
        assert!(e.size == u32::from_le_bytes([b[14], b[15], b[16], b[17]]), "size is little-endian");
        let mut w = Vec::new();
        assert!(write_entry(e, &mut w), "a parsed entry must serialise");
        assert!(w.len() == 18, "packed entry is 18 bytes");
        let wa = to_arr18(&w);
        assert!(wa[i] == b[i], "write(read(b)) != b");
        let r2 = IndexEntry::from_packed(&wa, 9, 30, 32);
        match &r2 {
            Ok(e2) => assert!(e2.key == e.key && e2.archive_id() == e.archive_id() && e2.archive_offset() == e.archive_offset() && e2.size == e.size, "entry changes on re-read"),
            Err(_) => assert!(false, "own serialisation must parse"),
        }
        kani::cover!(e.archive_id() == 1023 && e.archive_offset() == 0x3FFF_FFFF, "maximal location");
        std::mem::forget(r2);
        std::mem::forget(w);
    }
    std::mem::forget(r);
}

// @harness prop=C08 tier=quick timeout=900 role=index-entry-fields
// @bounds key (9 bytes, not all zero), archive_id (whole u16 range), archive_offset 0..2^30, size symbolic; short input (17 bytes) rejected
// @encodes cascette_client_storage::index::IndexEntry::new, cascette_client_storage::index::IndexEntry::write_options, cascette_client_storage::index::IndexEntry::from_packed, cascette_client_storage::index::write_archive_location, cascette_client_storage::index::parse_archive_location
// @assumes std::fmt::format -> empty string (error text only); write side = the derived BinWrite impl that to_packed wraps
// @catches write_archive_location refusing or mangling ids in 256..=1023 (u8 conversion before the shift) or accepting ids above 1023, offset bits leaking into the id, id bits leaking into the offset
#[kani::proof]
#[kani::unwind(11)]
#[kani::stub(std::fmt::format, fmt_format_empty)]
fn c08_index_entry_fields_round_trip() {
    let key: [u8; 9] = kani::any();
    let id: u16 = kani::any();
    let off: u32 = kani::any();
    kani::assume(off < 1 << 30);
    let size: u32 = kani::any();
    let mut key_zero = true;
    let mut k = 0;
    while k < 9 {
        key_zero &= key[k] == 0;
        k += 1;
    }
    kani::assume(!key_zero);
    let v = IndexEntry::new(key, id, off, size);
    let mut w = Vec::new();
    let ok = write_entry(&v, &mut w);
    assert!(ok == (id <= 1023), "the encoder accepts exactly the 10-bit archive ids");
    kani::cover!(id == 1023 && off == 0x3FFF_FFFF, "maximal location");
    kani::cover!(id == 256, "first id needing the high byte's top bits");
    kani::cover!(id == 1024, "first id outside the range is refused");
    if ok {
        assert!(w.len() == 18);
        let wa = to_arr18(&w);
        assert!(wa[9] == (id >> 2) as u8 && wa[10] == ((id & 3) as u8) << 6 | (off >> 24) as u8, "id split: high 8 bits, low 2 bits on top of the offset");
        let r = IndexEntry::from_packed(&wa, 9, 30, 32);
        match &r {
            Ok(e) => {
                assert!(e.key == key && e.size == size, "key/size not preserved");
                assert!(e.archive_id() == id, "archive id not preserved");
                assert!(e.archive_offset() == off, "archive offset not preserved");
            }
            Err(_) => assert!(false, "own serialisation must parse"),
        }
        let short = IndexEntry::from_packed(&wa[..17], 9, 30, 32);
        assert!(short.is_err(), "17-byte input must be rejected");
        std::mem::forget(short);
        std::mem::forget(r);
    }
    std::mem::forget(w);
}

// to_packed itself, archive id concrete per harness (the encoder's error branch is then decided).
macro_rules! index_entry_to_packed {
    ($name:ident, $id:expr) => {
        #[kani::proof]
        #[kani::unwind(19)]
        #[kani::stub(std::fmt::format, fmt_format_empty)]
        #[kani::stub(std::io::_eprint, eprint_nop)]
        fn $name() {
            const ID: u16 = $id;
            let key: [u8; 9] = kani::any();
            let off: u32 = kani::any();
            kani::assume(off < 1 << 30);
            let size: u32 = kani::any();
            kani::assume(key[0] != 0);
            let i: usize = kani::any();
            kani::assume(i < 18);
            let v = IndexEntry::new(key, ID, off, size);
            let w = v.to_packed(9, 30, 32);
            assert!(w.len() == 18, "to_packed returns 18 bytes");
            let mut spec = [0u8; 18];
            spec[..9].copy_from_slice(&key);
            spec[9] = (ID >> 2) as u8;
            let packed = ((ID as u32 & 3) << 30) | off;
            spec[10..14].copy_from_slice(&packed.to_be_bytes());
            spec[14..18].copy_from_slice(&size.to_le_bytes());
            kani::cover!(off == 0x3FFF_FFFF, "maximal offset");
            let wa = to_arr18(&w);
            let r = IndexEntry::from_packed(&wa, 9, 30, 32);
            if ID <= 1023 {
                assert!(wa[i] == spec[i], "to_packed differs from the 9+5+4 layout");
                match &r {
                    Ok(e) => assert!(e.key == key && e.archive_id() == ID && e.archive_offset() == off && e.size == size, "read(write(v)) != v"),
                    Err(_) => assert!(false, "own serialisation must parse"),
                }
            } else {
                let back = match &r {
                    Ok(e) => e.key == key && e.archive_id() == ID,
                    Err(_) => false,
                };
                assert!(back, "KF: IndexEntry with archive_id > 1023 is serialised by to_packed as 18 zero bytes (encoder error swallowed) and cannot be read back");
            }
            std::mem::forget(r);
            std::mem::forget(w);
        }
    };
}
// @family prop=C08 tier=quick timeout=900 role=index-entry-to-packed
// @bounds archive id concrete per harness (name: id<value>; 0, 3, 4, 255, 256, 1023), key (first byte non-zero), offset 0..2^30, size symbolic
// @encodes cascette_client_storage::index::IndexEntry::to_packed, cascette_client_storage::index::IndexEntry::from_packed, cascette_client_storage::index::write_archive_location
// @assumes std::fmt::format -> empty string, std::io::_eprint -> no-op (warning text only)
// @catches to_packed taking its all-zero fallback for a valid entry, wrong layout, id/offset packing
index_entry_to_packed!(c08_index_entry_to_packed_id0, 0);
index_entry_to_packed!(c08_index_entry_to_packed_id3, 3);
index_entry_to_packed!(c08_index_entry_to_packed_id4, 4);
index_entry_to_packed!(c08_index_entry_to_packed_id255, 255);
index_entry_to_packed!(c08_index_entry_to_packed_id256, 256);
index_entry_to_packed!(c08_index_entry_to_packed_id1023, 1023);
// @end

// Out of the documented range (not a harness: with a failing encoder to_packed drops a binrw::Error,
// whose recursive drop glue does not finish in CBMC — measured: timeout 900 s even for the concrete
// id 1024): IndexEntry::new accepts any u16 id; the encoder refuses ids above 1023 (proved in
// c08_index_entry_fields_round_trip), to_packed swallows that error, prints a warning and returns
// 18 zero bytes, i.e. an "empty" record that the loader silently skips.

// ---- IndexHeaderV2 / GuardedBlockHeader -----------------------------------------------------------
// @harness prop=C08 tier=quick timeout=900 role=index-header-v2
// @bounds every 16-byte header string and every 8-byte guarded-block header string (binrw accepts all)
// @encodes cascette_client_storage::index::IndexHeaderV2::read_options, cascette_client_storage::index::IndexHeaderV2::write_options, cascette_client_storage::index::GuardedBlockHeader::read_options, cascette_client_storage::index::GuardedBlockHeader::write_options
// @assumes std::fmt::format -> empty string
// @catches field order / width / endianness differences between the derived reader and writer (e.g. segment_size written BE), a field skipped by one side
#[kani::proof]
#[kani::unwind(11)]
#[kani::stub(std::fmt::format, fmt_format_empty)]
fn c08_index_header_v2_fixed_point() {
    let b: [u8; 16] = kani::any();
    let g: [u8; 8] = kani::any();
    let i: usize = kani::any();
    kani::assume(i < 16);
    let mut c = Cursor::new(&b[..]);
    let r: binrw::BinResult<IndexHeaderV2> = c.read_le();
    kani::cover!(r.is_ok(), "header parses");
    match &r {
        Ok(h) => {
            assert!(h.version == u16::from_le_bytes([b[0], b[1]]) && h.bucket == b[2] && h.extra_bytes == b[3]);
            assert!(h.encoded_size_length == b[4] && h.storage_offset_length == b[5] && h.ekey_length == b[6] && h.file_offset_bits == b[7]);
            assert!(h.segment_size == u64::from_le_bytes([b[8], b[9], b[10], b[11], b[12], b[13], b[14], b[15]]), "segment size is little-endian");
            let mut out = Vec::new();
            let mut wc = Cursor::new(&mut out);
            let wr = wc.write_le(h);
            assert!(wr.is_ok(), "header must serialise");
            std::mem::forget(wr);
            assert!(out.len() == 16 && out[i] == b[i], "write(read(b)) != b");
            std::mem::forget(out);
        }
        Err(_) => assert!(false, "16 bytes must parse as IndexHeaderV2"),
    }
    std::mem::forget(r);

    let mut c = Cursor::new(&g[..]);
    let r: binrw::BinResult<GuardedBlockHeader> = c.read_le();
    match &r {
        Ok(h) => {
            assert!(h.block_size == u32::from_le_bytes([g[0], g[1], g[2], g[3]]) && h.block_hash == u32::from_le_bytes([g[4], g[5], g[6], g[7]]));
            let mut out = Vec::new();
            let mut wc = Cursor::new(&mut out);
            let wr = wc.write_le(h);
            assert!(wr.is_ok());
            std::mem::forget(wr);
            assert!(out.len() == 8 && out[i % 8] == g[i % 8], "guarded block header: write(read(b)) != b");
            std::mem::forget(out);
        }
        Err(_) => assert!(false, "8 bytes must parse as GuardedBlockHeader"),
    }
    std::mem::forget(r);
}
