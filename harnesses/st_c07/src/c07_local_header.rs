// C07 — 30-byte local entry header: checksum_a = hashlittle(bytes 0..22, seed), checksum_b = XOR
// lanes over bytes 0..26 rotated by the header's offset.
use crate::ideal;
use cascette_client_storage::storage::local_header::{LOCAL_HEADER_SIZE, LocalHeader};

const MAX_OFF: usize = 1 << 62;

// Single-byte corruption anywhere in the 30 bytes.  The XOR lanes of checksum_b alone detect every
// single-byte change of bytes 0..26 and the stored checksum_b bytes detect themselves, so this holds
// for ANY deterministic hash: quick tier = hashlittle as a plain uninterpreted function (no
// injectivity assumed), thorough tier = the real Jenkins code, no stub at all.
macro_rules! local_header_single_byte {
    ($name:ident $(, #[$stub:meta])?) => {
        #[kani::proof]
        #[kani::unwind(28)]
        $(#[$stub])?
        fn $name() {
            let key: [u8; 16] = kani::any();
            let blte: u32 = kani::any();
            kani::assume(blte <= u32::MAX - LOCAL_HEADER_SIZE as u32);
            let off: usize = kani::any();
            kani::assume(off <= MAX_OFF);
            let p: usize = kani::any();
            kani::assume(p < LOCAL_HEADER_SIZE);
            let v: u8 = kani::any();
            let h = LocalHeader::new(key, blte, off);
            let mut b = h.to_bytes();
            kani::cover!(p == 0 && off % 4 == 3, "first key byte, rotated lanes");
            kani::cover!(p == 29, "last checksum_b byte");
            kani::assume(v != b[p]);
            b[p] = v;
            match LocalHeader::from_bytes(&b) {
                Some(c) => assert!(!c.validate_checksums(off), "single-byte corruption of a local header accepted"),
                None => {}
            }
        }
    };
}
// @harness prop=C07 tier=quick timeout=900 role=local-header-single-byte
// @bounds encoding key (16 bytes), blte_size (u32 <= 0xFFFFFFFF-30), base offset (usize <= 2^62) symbolic; corruption position p in 0..30 symbolic, new value symbolic != old
// @encodes cascette_client_storage::storage::local_header::LocalHeader::new, cascette_client_storage::storage::local_header::LocalHeader::to_bytes, cascette_client_storage::storage::local_header::LocalHeader::from_bytes, cascette_client_storage::storage::local_header::LocalHeader::validate_checksums, cascette_client_storage::storage::local_header::LocalHeader::compute_checksum_a, cascette_client_storage::storage::local_header::LocalHeader::compute_checksum_b
// @assumes hashlittle replaced by a plain uninterpreted function (sound over-approximation of any deterministic hash; no injectivity); base offset <= 2^62 (a file offset)
// @catches checksum_b range shortened (a byte of 0..26 uncovered), checksum_b not compared or compared partially, lane index ignoring the base offset on one side only, a field parsed from the wrong byte
local_header_single_byte!(c07_local_header_single_byte, #[kani::stub(cascette_crypto::jenkins::hashlittle, ideal::hashlittle_uf32)]);

// @harness prop=C07 tier=thorough timeout=3000 mem=16 role=local-header-single-byte-real-hash
// @bounds as c07_local_header_single_byte
// @encodes cascette_client_storage::storage::local_header::LocalHeader::new, cascette_client_storage::storage::local_header::LocalHeader::from_bytes, cascette_client_storage::storage::local_header::LocalHeader::validate_checksums, cascette_client_storage::storage::local_header::LocalHeader::compute_checksum_a, cascette_client_storage::storage::local_header::LocalHeader::compute_checksum_b, cascette_crypto::jenkins::hashlittle
// @assumes none (real Jenkins hash, no stub); base offset <= 2^62
// @catches as c07_local_header_single_byte, without any hash model
local_header_single_byte!(c07_local_header_single_byte_real_hash);

// Valid header validates, and a slice one byte short is rejected.
// @harness prop=C07 tier=quick timeout=900 role=local-header-valid-and-truncated
// @bounds key, blte_size, base offset symbolic as above
// @encodes cascette_client_storage::storage::local_header::LocalHeader::new, cascette_client_storage::storage::local_header::LocalHeader::from_bytes, cascette_client_storage::storage::local_header::LocalHeader::validate_checksums
// @assumes hashlittle is an ideal hash (only determinism is used here)
// @catches validator that rejects good headers (checksum computed over different bytes by writer and validator), length check off by one
#[kani::proof]
#[kani::unwind(28)]
#[kani::stub(cascette_crypto::jenkins::hashlittle, ideal::hashlittle_ideal32)]
fn c07_local_header_valid_and_truncated() {
    let key: [u8; 16] = kani::any();
    let blte: u32 = kani::any();
    kani::assume(blte <= u32::MAX - LOCAL_HEADER_SIZE as u32);
    let off: usize = kani::any();
    kani::assume(off <= MAX_OFF);
    let h = LocalHeader::new(key, blte, off);
    assert!(h.validate_checksums(off), "freshly built header must validate");
    let b = h.to_bytes();
    assert!(LocalHeader::from_bytes(&b[..LOCAL_HEADER_SIZE - 1]).is_none(), "29-byte slice must be rejected");
    let c = LocalHeader::from_bytes(&b);
    kani::cover!(c.is_some(), "full header parses");
    match c {
        Some(c) => assert!(c.validate_checksums(off), "re-parsed header must validate"),
        None => assert!(false, "full header must parse"),
    }
}

// Arbitrary (multi-byte) corruption of the hashed fields 0..22 with both stored checksums intact:
// checksum_b can be preserved (same delta twice in one lane), so checksum_a must do the work.
// @harness prop=C07 tier=quick timeout=900 role=local-header-fields-ideal-hash
// @bounds key, blte_size, base offset symbolic; bytes 0..22 replaced by 22 symbolic bytes differing from the original in at least one position; stored checksums untouched
// @encodes cascette_client_storage::storage::local_header::LocalHeader::validate_checksums, cascette_client_storage::storage::local_header::LocalHeader::compute_checksum_a, cascette_client_storage::storage::local_header::LocalHeader::from_bytes
// @assumes hashlittle is an ideal hash (uninterpreted, injective on the recorded (message, seed) pairs)
// @catches checksum_a not compared, computed over a shorter range (e.g. 0..16 = key only, size/flags unprotected), seed or range differing between writer and validator
#[kani::proof]
#[kani::unwind(28)]
#[kani::stub(cascette_crypto::jenkins::hashlittle, ideal::hashlittle_ideal32)]
fn c07_local_header_fields_ideal_hash() {
    let key: [u8; 16] = kani::any();
    let blte: u32 = kani::any();
    kani::assume(blte <= u32::MAX - LOCAL_HEADER_SIZE as u32);
    let off: usize = kani::any();
    kani::assume(off <= MAX_OFF);
    let nb: [u8; 22] = kani::any();
    let d: usize = kani::any();
    kani::assume(d < 22);
    let h = LocalHeader::new(key, blte, off);
    let mut b = h.to_bytes();
    kani::assume(nb[d] != b[d]);
    // the interesting region: corruption that the XOR lanes cannot see
    let mut x = [0u8; 4];
    let mut i = 0;
    while i < 22 {
        x[i & 3] ^= nb[i] ^ b[i];
        i += 1;
    }
    kani::cover!(x[0] == 0 && x[1] == 0 && x[2] == 0 && x[3] == 0, "corruption invisible to checksum_b");
    let mut i = 0;
    while i < 22 {
        b[i] = nb[i];
        i += 1;
    }
    match LocalHeader::from_bytes(&b) {
        Some(c) => assert!(!c.validate_checksums(off), "corrupted header fields accepted (checksum_a must catch what the XOR lanes miss)"),
        None => {}
    }
}

// What the two checksums cover, against an independent statement of the layout: checksum_a is the
// hash of exactly bytes 0..22 with seed 0x3D6BE971; checksum_b XORs exactly bytes 0..26 into lane
// (base_offset + i) mod 4.  (The corruption harnesses cannot see a coverage change that another
// check happens to compensate, e.g. checksum_b skipping a byte of the stored checksum_a.)
fn ref_hash(data: &[u8], seed: u32) -> u32 {
    if cfg!(vreplay) {
        return cascette_crypto::jenkins::hashlittle(data, seed);
    }
    ideal::hashlittle_ideal32(data, seed)
}
// @harness prop=C07 tier=quick timeout=900 role=local-header-checksum-coverage
// @bounds all 30 header bytes and the base offset (<= 2^62) symbolic
// @encodes cascette_client_storage::storage::local_header::LocalHeader::compute_checksum_a, cascette_client_storage::storage::local_header::LocalHeader::compute_checksum_b
// @assumes hashlittle is an ideal hash (equal digests <=> equal (message, seed)), so digest equality pins the hashed range and the seed
// @catches checksum_a over a different range or seed, checksum_b range 0..26 shortened/extended, lane rotation wrong (e.g. `i & 3` without the base offset, or 3 lanes)
#[kani::proof]
#[kani::unwind(28)]
#[kani::stub(cascette_crypto::jenkins::hashlittle, ideal::hashlittle_ideal32)]
fn c07_local_header_checksum_coverage() {
    let b: [u8; LOCAL_HEADER_SIZE] = kani::any();
    let off: usize = kani::any();
    kani::assume(off <= MAX_OFF);
    let lane: usize = kani::any();
    kani::assume(lane < 4);
    let a = LocalHeader::compute_checksum_a(&b);
    assert!(a == ref_hash(&b[..22], 0x3D6B_E971), "checksum_a is not hashlittle(bytes[0..22], 0x3D6BE971)");
    let cb = LocalHeader::compute_checksum_b(&b, off).to_le_bytes();
    let mut x = 0u8;
    let mut i = 0;
    while i < 26 {
        if (off % 4 + i) % 4 == lane {
            x ^= b[i];
        }
        i += 1;
    }
    assert!(cb[lane] == x, "checksum_b lane is not the XOR of bytes 0..26 at positions (base + i) mod 4");
    kani::cover!(off % 4 == 1 && lane == 0, "rotated lanes");
}

// ---- load path (no harness) ------------------------------------------------------------------------
// LocalHeader::validate_checksums has no caller outside the unit tests: SegmentHeader::from_bytes
// (storage/segment.rs) and the archive read path (storage/archive_file.rs, which skips the 30 bytes
// when "BLTE" follows) take local headers as read.  A harness over SegmentHeader::zeroed() ->
// to_bytes -> corrupt -> from_bytes was tried and dropped: 32 LocalHeader::new calls cost > 15 min of
// symbolic execution (with an uninterpreted hash: symex 836 s, then a counterexample in 0.07 s, i.e.
// the loader hands the corrupted header on; with the real hash: not finished in 900 s).
