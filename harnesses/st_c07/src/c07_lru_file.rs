// C07 — `.lru` checkpoint file: 28-byte header (MD5 of the whole file with the hash field zeroed)
// + N x 20-byte entries.  serialize (real writer) -> corruption -> deserialize (real loader).
use crate::ideal;
// (two crates named `md5` are linked: md5 0.8 and md-5 0.10; the stub target is named through a `use`)
use md5::compute as md5_compute_real;
use cascette_client_storage::lru::lru_file::{
    LRU_ENTRY_SIZE, LRU_HEADER_SIZE, LruFileEntry, LruFileHeader, deserialize, serialize,
};

fn any_entry() -> LruFileEntry {
    LruFileEntry { prev: kani::any(), next: kani::any(), ekey: kani::any(), flags: kani::any() }
}

macro_rules! lru_single_byte {
    ($name:ident, $n:expr, $unw:expr) => {
        #[kani::proof]
        #[kani::unwind($unw)]
        #[kani::stub(md5_compute_real, ideal::md5_compute_ideal)]
        fn $name() {
            const N: usize = $n;
            const LEN: usize = LRU_HEADER_SIZE + N * LRU_ENTRY_SIZE;
            let header = LruFileHeader { version: kani::any(), hash: kani::any(), mru_head: kani::any(), lru_tail: kani::any() };
            kani::assume(header.version <= 1);
            // (array of at least one element, sliced to N: iterating a zero-length *array* leaves the
            // slice iterator's end test undecided for CBMC and the writer's loop unrolls to the bound)
            let mut es_all = [LruFileEntry::empty(); if N == 0 { 1 } else { N }];
            let mut i = 0;
            while i < N {
                es_all[i] = any_entry();
                i += 1;
            }
            let es = &es_all[..N];
            let p: usize = kani::any();
            kani::assume(p < LEN);
            let v: u8 = kani::any();

            let mut data = serialize(&header, es);
            assert!(data.len() == LEN, "serialized length = header + n entries");
            kani::cover!(p == 1, "version high byte corrupted");
            kani::cover!(p == 19, "last byte of the stored hash corrupted");
            kani::cover!(p == LEN - 1, "last byte of the file corrupted");
            kani::assume(v != data[p]);
            data[p] = v;
            let r = deserialize(&data);
            assert!(r.is_none(), "corrupted .lru file accepted by deserialize");
            std::mem::forget(r);
            std::mem::forget(data);
        }
    };
}
// @family prop=C07 tier=quick timeout=900 role=lru-file-single-byte
// @bounds header (version 0/1, head, tail) and N entries (prev, next, 9-byte key, flags) symbolic, N in the name (0,1,2); corruption position p anywhere in the file (version, reserved, stored hash, head/tail, every entry byte incl. padding) symbolic, new value symbolic != old
// @encodes cascette_client_storage::lru::lru_file::serialize, cascette_client_storage::lru::lru_file::deserialize, cascette_client_storage::lru::lru_file::LruFileHeader::from_bytes, cascette_client_storage::lru::lru_file::LruFileHeader::to_bytes, cascette_client_storage::lru::lru_file::LruFileEntry::to_bytes, cascette_client_storage::lru::lru_file::validate_file_size
// @assumes md5::compute is an ideal hash (uninterpreted, injective on the recorded messages incl. their length, all 128 digest bits)
// @catches hash computed over the header only / over a prefix, hash compared on a prefix of the 16 bytes, hash check skipped or done on the wrong buffer, hash field not zeroed consistently
lru_single_byte!(c07_lru_file_single_byte_n0, 0, 18);
lru_single_byte!(c07_lru_file_single_byte_n1, 1, 18);
lru_single_byte!(c07_lru_file_single_byte_n2, 2, 18);
// @end

// Truncation (by one byte and by one whole entry) and extension (by one byte, by one entry).
// @harness prop=C07 tier=quick timeout=900 role=lru-file-truncate-extend
// @bounds 2-entry file with symbolic content; cut by 1 byte, cut by 20 bytes (a well-formed shorter file), extended by 1 symbolic byte and by 20 symbolic bytes
// @encodes cascette_client_storage::lru::lru_file::serialize, cascette_client_storage::lru::lru_file::deserialize, cascette_client_storage::lru::lru_file::validate_file_size
// @assumes md5::compute is an ideal hash (injective incl. message length)
// @catches size check `>=`/modulus wrong, hash computed over a length taken from the header instead of the data, trailing entries ignored by the hash
#[kani::proof]
#[kani::unwind(18)]
#[kani::stub(md5_compute_real, ideal::md5_compute_ideal)]
fn c07_lru_file_truncate_extend() {
    const LEN: usize = LRU_HEADER_SIZE + 2 * LRU_ENTRY_SIZE;
    let header = LruFileHeader { version: kani::any(), hash: kani::any(), mru_head: kani::any(), lru_tail: kani::any() };
    kani::assume(header.version <= 1);
    let es = [any_entry(), any_entry()];
    let ext: [u8; LRU_ENTRY_SIZE] = kani::any();
    let data = serialize(&header, &es);
    let ok = deserialize(&data);
    kani::cover!(ok.is_some(), "the unmodified file loads");
    assert!(ok.is_some(), "the unmodified file must load");
    let r1 = deserialize(&data[..LEN - 1]);
    assert!(r1.is_none(), "file cut by one byte accepted");
    let r2 = deserialize(&data[..LEN - LRU_ENTRY_SIZE]);
    assert!(r2.is_none(), "file cut by one entry accepted");
    let mut big = [0u8; LEN + LRU_ENTRY_SIZE];
    big[..LEN].copy_from_slice(&data);
    big[LEN..].copy_from_slice(&ext);
    let r3 = deserialize(&big[..LEN + 1]);
    assert!(r3.is_none(), "file extended by one byte accepted");
    let r4 = deserialize(&big);
    assert!(r4.is_none(), "file extended by one entry accepted");
    std::mem::forget((ok, r1, r2, r3, r4));
    std::mem::forget(data);
}
