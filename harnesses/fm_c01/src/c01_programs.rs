// C01 — BLTE builder programs: decode(build(program)) == concatenation of the added payloads, and the
// chunk table next to the data is truthful.  One harness per concrete sequence of builder-call kinds
// (payload lengths and chunk size concrete per harness), every datum symbolic.
use crate::stubs::*;
use crate::uf::Uf;
use cascette_crypto::arc4::{Arc4Cipher, Arc4Error, verif_access as ax};
use cascette_crypto::salsa20::{Salsa20Cipher, verif_access as sx};
use cascette_crypto::{ContentKey, TactKey, TactKeyStore};
use cascette_formats::blte::{BlteBuilder, BlteFile, ChunkData, CompressionMode, EncryptionSpec, HeaderFlags};

// ---- environment models ----------------------------------------------------------------------------
// Salsa20 block function = uninterpreted function of the 16-word input block (first 16 keystream
// bytes; the programs below never encrypt more than 4 bytes per chunk).  `Salsa20Cipher::new` (state
// layout, IV length check, block index XOR) and `apply_keystream` stay real.
pub static mut SALSA: Uf<8, 2, 16> = Uf::new();
pub fn uf_generate_keystream(c: &mut Salsa20Cipher) {
    let st = sx::state(c);
    let mut w = [0u64; 8];
    let mut i = 0;
    while i < 8 {
        w[i] = st[2 * i] as u64 | (st[2 * i + 1] as u64) << 32;
        i += 1;
    }
    let o = unsafe { SALSA.apply(w, [u64::MAX; 2]) };
    let mut ks = [0u8; 64];
    let (a, b) = (o[0].to_le_bytes(), o[1].to_le_bytes());
    let mut i = 0;
    while i < 8 {
        ks[i] = a[i];
        ks[8 + i] = b[i];
        i += 1;
    }
    let ctr = ((st[9] as u64) << 32 | st[8] as u64).wrapping_add(1);
    let mut st2 = st;
    st2[8] = ctr as u32;
    st2[9] = (ctr >> 32) as u32;
    *c = sx::from_parts(st2, ks, 0);
}

// ARC4: the keystream is an uninterpreted function of the 16-byte key (RC4 has no IV / block index);
// `new` stashes 16 keystream bytes in the S array, `next_keystream_byte` hands them out in order.
// `encrypt` / `decrypt` stay real.
pub static mut ARC4: Uf<2, 2, 16> = Uf::new();
pub fn uf_arc4_new(key: &[u8]) -> Result<Arc4Cipher, Arc4Error> {
    if key.is_empty() || key.len() > 256 {
        return Err(Arc4Error::InvalidKeyLength(key.len()));
    }
    assert!(key.len() == 16, "ARC4 model: BLTE always passes the 16-byte TACT key");
    let mut w = [0u64; 2];
    let mut i = 0;
    while i < 16 {
        w[i / 8] |= (key[i] as u64) << (8 * (i % 8));
        i += 1;
    }
    let o = unsafe { ARC4.apply(w, [u64::MAX; 2]) };
    let mut s = [0u8; 256];
    let (a, b) = (o[0].to_le_bytes(), o[1].to_le_bytes());
    let mut i = 0;
    while i < 8 {
        s[i] = a[i];
        s[8 + i] = b[i];
        i += 1;
    }
    Ok(ax::from_parts(s, 0, 0))
}
pub fn uf_arc4_next(c: &mut Arc4Cipher) -> u8 {
    let (s, i, j) = ax::parts(c);
    assert!(i < 16, "ARC4 model: more than 16 keystream bytes requested");
    let b = s[i as usize];
    *c = ax::from_parts(s, i + 1, j);
    b
}

// MD5 (chunk checksums) = uninterpreted function of (length, bytes) for inputs <= 24 bytes.
pub static mut MD5: Uf<4, 2, 24> = Uf::new();
pub fn uf_content_key(data: &[u8]) -> ContentKey {
    assert!(data.len() <= 24, "MD5 model: input longer than 24 bytes");
    let mut w = [0u64; 4];
    w[0] = data.len() as u64;
    let mut i = 0;
    while i < data.len() {
        w[1 + i / 8] |= (data[i] as u64) << (8 * (i % 8));
        i += 1;
    }
    let o = unsafe { MD5.apply(w, [u64::MAX; 2]) };
    let mut d = [0u8; 16];
    let (a, b) = (o[0].to_le_bytes(), o[1].to_le_bytes());
    let mut i = 0;
    while i < 8 {
        d[i] = a[i];
        d[8 + i] = b[i];
        i += 1;
    }
    ContentKey::from_bytes(d)
}

// Third-party codecs (modes Z and 4 are outside the claim).  In a correct container the inner mode byte
// of a decrypted chunk is 'N', so the decoders are unreachable; reaching one is reported as a failed check
// (and ends the path) instead of symbolically executing inflate / LZ4 on symbolic bytes.
pub fn lz4_decompress_reached(_input: &[u8], _min: usize) -> Result<Vec<u8>, lz4_flex::block::DecompressError> {
    panic!("mode-N program reached the LZ4 decoder (inner mode byte of a decrypted chunk is not 'N')")
}
pub fn zlib_new_reached<R>(_r: R) -> flate2::read::ZlibDecoder<R> {
    panic!("mode-N program reached the zlib decoder (inner mode byte of a decrypted chunk is not 'N')")
}

// Key store: two-slot association list instead of the std HashMap (insert-or-overwrite / lookup).
pub static mut SLOTS: [(bool, u64, [u8; 16]); 2] = [(false, 0, [0; 16]); 2];
pub fn ks_add(_s: &mut TactKeyStore, key: TactKey) {
    unsafe {
        if SLOTS[0].0 && SLOTS[0].1 == key.id {
            SLOTS[0].2 = key.key;
        } else if SLOTS[1].0 && SLOTS[1].1 == key.id {
            SLOTS[1].2 = key.key;
        } else if !SLOTS[0].0 {
            SLOTS[0] = (true, key.id, key.key);
        } else {
            assert!(!SLOTS[1].0, "key store model: more than two keys");
            SLOTS[1] = (true, key.id, key.key);
        }
    }
}
pub fn ks_get(_s: &TactKeyStore, id: u64) -> Option<&[u8; 16]> {
    unsafe {
        if SLOTS[0].0 && SLOTS[0].1 == id {
            Some(&SLOTS[0].2)
        } else if SLOTS[1].0 && SLOTS[1].1 == id {
            Some(&SLOTS[1].2)
        } else {
            None
        }
    }
}

// ---- program interpreter ---------------------------------------------------------------------------
#[derive(Clone, Copy, PartialEq, Eq)]
pub enum K {
    /// add_data with no builder-level encryption (without_encryption() first)
    Dn,
    /// add_data under with_encryption(spec A, key A)
    De,
    /// add_mixed_data(.., None)
    Mn,
    /// add_mixed_data(.., Some((spec B, key B)))
    Me,
    /// add_encrypted_data(.., spec B, key B, block_index = chunk position [+ hi << 32])
    X,
    /// add_chunk(ChunkData::new(payload, None))
    C,
}

pub struct Sym<const T: usize> {
    pub pay: [u8; T],
    pub name_a: u64,
    pub name_b: u64,
    pub iv_a: [u8; 4],
    pub iv_b: [u8; 4],
    pub ty_a: u8,
    pub ty_b: u8,
    pub key_a: [u8; 16],
    pub key_b: [u8; 16],
    pub hi: u32,
    /// observed output byte index / checksum byte index ("for all" as symbolic indices)
    pub i: usize,
    pub j: usize,
}
impl<const T: usize> Sym<T> {
    /// Draws every symbolic input of a program harness (before any stub can draw).
    pub fn any(ty_a: u8, ty_b: u8) -> Self {
        let s = Sym {
            pay: kani::any(),
            name_a: kani::any(),
            name_b: kani::any(),
            iv_a: kani::any(),
            iv_b: kani::any(),
            ty_a,
            ty_b,
            key_a: kani::any(),
            key_b: kani::any(),
            hi: kani::any(),
            i: kani::any(),
            j: kani::any(),
        };
        kani::assume(s.j < 16);
        kani::assume(s.name_a != s.name_b);
        s
    }
    pub fn spec_a(&self) -> EncryptionSpec {
        EncryptionSpec { key_name: self.name_a, iv: self.iv_a, encryption_type: self.ty_a }
    }
    pub fn spec_b(&self) -> EncryptionSpec {
        EncryptionSpec { key_name: self.name_b, iv: self.iv_b, encryption_type: self.ty_b }
    }
}

pub struct Prog {
    pub b: Option<BlteBuilder>,
    pub off: usize,
    /// number of chunks added so far under the documented chunking rule (len <= cs: one chunk, else ceil(len/cs))
    pub pos: usize,
    pub cs: usize,
    pub builder_err: bool,
    /// decode parse(serialise(file)) instead of the built value
    pub via_bytes: bool,
}

impl Prog {
    pub fn new(cs: usize) -> Self {
        Prog {
            b: Some(BlteBuilder::new().with_chunk_size_unchecked(cs)),
            off: 0,
            pos: 0,
            cs,
            builder_err: false,
            via_bytes: false,
        }
    }
    fn nchunks(&self, len: usize) -> usize {
        if len <= self.cs { 1 } else { (len + self.cs - 1) / self.cs }
    }
    pub fn step<const T: usize>(&mut self, s: &Sym<T>, kind: K, len: usize) {
        let b = match self.b.take() {
            Some(b) => b,
            None => return,
        };
        let data = &s.pay[self.off..self.off + len];
        let r = match kind {
            K::Dn => b.without_encryption().add_data(data),
            K::De => {
                b.with_encryption(s.spec_a(), s.key_a).add_data(data)
            }
            K::Mn => b.add_mixed_data(data, None),
            K::Me => {
                b.add_mixed_data(data, Some((s.spec_b(), s.key_b)))
            }
            K::X => {
                // the decoder uses the chunk position as block index; only its low 32 bits reach the cipher
                let bi = self.pos | (s.hi as usize) << 32;
                b.add_encrypted_data(data, s.spec_b(), s.key_b, bi)
            }
            K::C => match ChunkData::new(data.to_vec(), CompressionMode::None) {
                Ok(c) => Ok(b.add_chunk(c)),
                Err(e) => Err(e),
            },
        };
        self.pos += if kind == K::X || kind == K::C { 1 } else { self.nchunks(len) };
        self.off += len;
        match r {
            Ok(b) => self.b = Some(b),
            Err(e) => {
                self.builder_err = true;
                std::mem::forget(e);
            }
        }
    }

    /// build, check the chunk table, decode, compare with the concatenated payloads.
    pub fn finish<const T: usize>(mut self, s: &Sym<T>) {
        assert!(!self.builder_err, "builder rejected a program of plain / validly encrypted chunks");
        let b = match self.b.take() {
            Some(b) => b,
            None => return,
        };
        let file = match b.build() {
            Ok(f) => f,
            Err(e) => {
                std::mem::forget(e);
                assert!(false, "build() failed for a non-empty program");
                return;
            }
        };
        check_table(&file, s);

        let mut store = TactKeyStore::empty();
        store.add(TactKey::new(s.name_a, s.key_a));
        store.add(TactKey::new(s.name_b, s.key_b));
        let file = if self.via_bytes {
            use cascette_formats::CascFormat;
            let bytes = match CascFormat::build(&file) {
                Ok(v) => v,
                Err(e) => {
                    std::mem::forget(e);
                    assert!(false, "serialisation of the built container failed");
                    return;
                }
            };
            check_wire(&bytes, &file);
            let parsed = match <BlteFile as CascFormat>::parse(&bytes) {
                Ok(p) => p,
                Err(e) => {
                    std::mem::forget(e);
                    assert!(false, "serialised container does not parse");
                    return;
                }
            };
            std::mem::forget(bytes);
            std::mem::forget(file);
            parsed
        } else {
            file
        };
        let out = file.decompress_with_keys(&store);
        let (ok, same_len, same_byte) = match &out {
            Ok(v) => {
                let i = s.i;
                (true, v.len() == T, v.len() != T || i >= T || v[i] == s.pay[i])
            }
            Err(_) => (false, false, false),
        };
        kani::cover!(ok && same_len, "decode succeeded with the right length");
        assert!(ok, "decoder rejected a container the builder produced");
        assert!(same_len, "decoded length differs from the total payload length");
        assert!(same_byte, "decoded bytes differ from the concatenation of the added payloads");
        std::mem::forget(out);
        std::mem::forget(store);
        std::mem::forget(file);
    }
}

/// Wire layout of the serialised container against the built value (independent of the parser):
/// "BLTE", big-endian header_size, [0x0F, 24-bit BE count, per chunk BE32 sizes + checksum], chunk bytes.
pub fn check_wire(bytes: &[u8], file: &BlteFile) {
    let n = file.chunks.len();
    assert!(bytes.len() >= 8 && bytes[0] == b'B' && bytes[1] == b'L' && bytes[2] == b'T' && bytes[3] == b'E', "magic");
    let hs = u32::from_be_bytes([bytes[4], bytes[5], bytes[6], bytes[7]]) as usize;
    assert!(hs == file.header.header_size as usize, "header_size on the wire");
    let mut off = 8;
    if hs != 0 {
        assert!(hs == 12 + 24 * n && bytes.len() >= hs, "header_size must cover the table");
        assert!(bytes[8] == 0x0F && bytes[9] == 0 && bytes[10] == 0 && bytes[11] as usize == n, "flags + 24-bit big-endian chunk count");
        let mut k = 0;
        while k < n {
            let e = 12 + 24 * k;
            let cs = u32::from_be_bytes([bytes[e], bytes[e + 1], bytes[e + 2], bytes[e + 3]]) as usize;
            assert!(cs == 1 + file.chunks[k].data.len(), "compressed_size on the wire");
            k += 1;
        }
        off = hs;
    }
    let mut k = 0;
    while k < n {
        let c = &file.chunks[k];
        assert!(bytes.len() >= off + 1 + c.data.len(), "chunk bytes missing");
        assert!(bytes[off] == mode_letter(c.mode), "mode byte on the wire");
        if c.data.len() > 0 {
            assert!(bytes[off + 1] == c.data[0] && bytes[off + c.data.len()] == c.data[c.data.len() - 1], "chunk bytes on the wire");
        }
        off += 1 + c.data.len();
        k += 1;
    }
    assert!(off == bytes.len(), "trailing or missing bytes after the last chunk");
}

fn mode_letter(m: CompressionMode) -> u8 {
    match m {
        CompressionMode::None => 0x4E,
        CompressionMode::ZLib => 0x5A,
        CompressionMode::LZ4 => 0x34,
        CompressionMode::Encrypted => 0x45,
        #[allow(deprecated)]
        CompressionMode::Frame => 0x46,
    }
}

/// Chunk-table truthfulness on the built value.
pub fn check_table<const T: usize>(file: &BlteFile, s: &Sym<T>) {
    let n = file.chunks.len();
    assert!(n >= 1, "built file without chunks");
    assert!(file.header.magic[0] == b'B' && file.header.magic[1] == b'L' && file.header.magic[2] == b'T' && file.header.magic[3] == b'E', "magic");
    if file.header.header_size == 0 {
        assert!(n == 1 && file.header.extended.is_none(), "single-chunk header on a multi-chunk file");
        assert!(file.chunks[0].mode != CompressionMode::Encrypted, "encrypted chunk without a chunk table");
        return;
    }
    let ext = match &file.header.extended {
        Some(e) => e,
        None => {
            assert!(false, "header_size > 0 without a chunk table");
            return;
        }
    };
    assert!(ext.flags == HeaderFlags::Standard, "standard table format expected");
    assert!(ext.chunk_count as usize == n && ext.chunk_infos.len() == n, "chunk count in the table differs from the number of chunks");
    assert!(file.header.header_size as usize == 12 + 24 * n, "header_size must be 8 + 4 + 24 * chunks");
    let j = s.j;
    let mut k = 0;
    while k < n {
        let c = &file.chunks[k];
        let info = &ext.chunk_infos[k];
        assert!(info.compressed_size as usize == 1 + c.data.len(), "table compressed_size != mode byte + stored bytes");
        let mut stored = Vec::with_capacity(1 + c.data.len());
        stored.push(mode_letter(c.mode));
        stored.extend_from_slice(&c.data);
        let h = ContentKey::from_data(&stored);
        assert!(info.checksum[j] == h.as_bytes()[j], "table checksum != MD5(mode byte + stored bytes)");
        assert!(info.decompressed_checksum.is_none(), "standard table carries no second checksum");
        assert!(c.verify_checksum(&info.checksum), "verify_checksum rejects the chunk's own table entry");
        match c.mode {
            CompressionMode::None => {
                assert!(info.decompressed_size as usize == c.data.len(), "table decompressed_size != payload bytes of a plain chunk");
            }
            CompressionMode::Encrypted => {
                // wire layout of the encrypted-chunk header (independent of the decoder)
                let d = &c.data;
                assert!(d.len() >= 16, "encrypted chunk shorter than header + inner mode byte");
                // 15-byte header + inner mode byte 'N' + payload: the table records what the chunk decodes to
                assert!(info.decompressed_size as usize == d.len() - 16, "table decompressed_size of an encrypted chunk != payload bytes it decodes to");
                assert!(d[0] == 8 && d[9] == 4, "encrypted chunk header: key-name size 8, IV size 4");
                let name = u64::from_le_bytes([d[1], d[2], d[3], d[4], d[5], d[6], d[7], d[8]]);
                let is_a = name == s.name_a && d[10] == s.iv_a[0] && d[11] == s.iv_a[1] && d[12] == s.iv_a[2] && d[13] == s.iv_a[3] && d[14] == s.ty_a;
                let is_b = name == s.name_b && d[10] == s.iv_b[0] && d[11] == s.iv_b[1] && d[12] == s.iv_b[2] && d[13] == s.iv_b[3] && d[14] == s.ty_b;
                assert!(is_a || is_b, "encrypted chunk header does not carry the key name / IV / type it was given");
            }
            _ => assert!(false, "mode N program produced a compressed chunk"),
        }
        std::mem::forget(stored);
        k += 1;
    }
}

/// Salsa20 / ARC4 type bytes (concrete per harness: a symbolic type makes the builder's Result, and with it every Vec length, path-dependent)
pub const S: u8 = 0x53;
pub const A: u8 = 0x41;

macro_rules! blte_prog_bytes {
    ($name:ident, $cs:expr, $ta:ident $tb:ident, [$( $kind:ident $len:expr ),+]) => {
        #[kani::proof]
        #[kani::unwind(26)]
        #[kani::stub(cascette_crypto::salsa20::Salsa20Cipher::generate_keystream, uf_generate_keystream)]
        #[kani::stub(cascette_crypto::arc4::Arc4Cipher::new, uf_arc4_new)]
        #[kani::stub(cascette_crypto::arc4::Arc4Cipher::next_keystream_byte, uf_arc4_next)]
        #[kani::stub(cascette_crypto::md5::ContentKey::from_data, uf_content_key)]
        #[kani::stub(cascette_crypto::keys::TactKeyStore::add, ks_add)]
        #[kani::stub(cascette_crypto::keys::TactKeyStore::get, ks_get)]
        #[kani::stub(std::hash::RandomState::new, fixed_random_state)]
        #[kani::stub(std::fmt::format, fmt_format_empty)]
        #[kani::stub(lz4_flex::block::decompress_safe::decompress, lz4_decompress_reached)]
        #[kani::stub(flate2::read::ZlibDecoder::new, zlib_new_reached)]
        fn $name() {
            const T: usize = 0 $(+ $len)+;
            let s: Sym<T> = Sym::any($ta, $tb);
            let mut p = Prog::new($cs);
            p.via_bytes = true;
            $( p.step(&s, K::$kind, $len); )+
            p.finish(&s);
        }
    };
}

macro_rules! blte_prog {
    ($name:ident, $cs:expr, $ta:ident $tb:ident, [$( $kind:ident $len:expr ),+]) => {
        #[kani::proof]
        #[kani::unwind(26)]
        #[kani::stub(cascette_crypto::salsa20::Salsa20Cipher::generate_keystream, uf_generate_keystream)]
        #[kani::stub(cascette_crypto::arc4::Arc4Cipher::new, uf_arc4_new)]
        #[kani::stub(cascette_crypto::arc4::Arc4Cipher::next_keystream_byte, uf_arc4_next)]
        #[kani::stub(cascette_crypto::md5::ContentKey::from_data, uf_content_key)]
        #[kani::stub(cascette_crypto::keys::TactKeyStore::add, ks_add)]
        #[kani::stub(cascette_crypto::keys::TactKeyStore::get, ks_get)]
        #[kani::stub(std::hash::RandomState::new, fixed_random_state)]
        #[kani::stub(std::fmt::format, fmt_format_empty)]
        #[kani::stub(lz4_flex::block::decompress_safe::decompress, lz4_decompress_reached)]
        #[kani::stub(flate2::read::ZlibDecoder::new, zlib_new_reached)]
        fn $name() {
            const T: usize = 0 $(+ $len)+;
            let s: Sym<T> = Sym::any($ta, $tb);
            let mut p = Prog::new($cs);
            $( p.step(&s, K::$kind, $len); )+
            p.finish(&s);
        }
    };
}

// @family prop=C01 tier=quick timeout=600 role=builder-program-1call
// @bounds one builder call; kind letters: dn = add_data plain (after without_encryption), de = add_data under with_encryption(spec A), mn / me = add_mixed_data(None / Some(spec B)), x = add_encrypted_data(spec B, explicit block index), c = add_chunk(ChunkData::new(.., None)); digit = payload length of that call; cs<k> = chunk size; payload bytes, two distinct key names, both IVs, both 16-byte keys, high 32 bits of the explicit block index, observed output index: all symbolic
// @encodes cascette_formats::blte::BlteBuilder::add_data, cascette_formats::blte::BlteBuilder::add_mixed_data, cascette_formats::blte::BlteBuilder::add_encrypted_data, cascette_formats::blte::BlteBuilder::add_chunk, cascette_formats::blte::BlteBuilder::with_encryption, cascette_formats::blte::BlteBuilder::without_encryption, cascette_formats::blte::BlteBuilder::with_chunk_size_unchecked, cascette_formats::blte::BlteBuilder::build, cascette_formats::blte::BlteBuilder::create_encrypted_chunk, cascette_formats::blte::BlteBuilder::create_encrypted_chunk_with_params, cascette_formats::blte::BlteBuilder::build_inner_payload, cascette_formats::blte::encrypt_chunk_with_key, cascette_formats::blte::decrypt_chunk_with_keys, cascette_formats::blte::decompress_chunk, cascette_formats::blte::BlteFile::decompress_with_keys, cascette_formats::blte::BlteHeader::multi_chunk_with_flags, cascette_formats::blte::BlteHeader::single_chunk, cascette_formats::blte::ChunkInfo::from_chunk_data, cascette_formats::blte::ChunkData::new, cascette_formats::blte::ChunkData::from_compressed, cascette_formats::blte::ChunkData::compressed_data, cascette_formats::blte::ChunkData::verify_checksum, cascette_formats::blte::ChunkData::decompress, cascette_crypto::salsa20::Salsa20Cipher::new, cascette_crypto::salsa20::Salsa20Cipher::apply_keystream, cascette_crypto::salsa20::encrypt_salsa20, cascette_crypto::salsa20::decrypt_salsa20, cascette_crypto::arc4::Arc4Cipher::encrypt, cascette_crypto::arc4::Arc4Cipher::decrypt
// @assumes Salsa20 block function = uninterpreted function of the 16-word state (first 16 keystream bytes; C09 proves the real one), Salsa20Cipher::new / apply_keystream real; ARC4 keystream = uninterpreted function of the 16-byte key (KSA/PRGA proved in C09), encrypt/decrypt real; MD5 = uninterpreted function of (length, bytes <= 24); TactKeyStore add/get = two-slot association list instead of std HashMap; fmt::format off; compression mode N only (zlib / LZ4 decoders are outside: reaching one is a failed check); cipher type per chunk spec concrete per harness (name suffix: s = Salsa20, a = ARC4; first letter spec A used by with_encryption, second spec B used by add_mixed_data / add_encrypted_data); explicit block index of add_encrypted_data = chunk position + arbitrary high 32 bits; CBMC field sensitivity for heap objects <= 1024 bytes; Kani assertion-reachability bookkeeping off
// @catches wrong block index handed to the cipher (restart at 0, off by one, local instead of global position), key / IV / type of the wrong spec, dropped / duplicated / misordered chunk at the chunk-size boundary (<= vs <, last partial chunk), inner mode byte missing or re-interpreted (payload starting with N/Z/4/E/F), < 17 length check off by one, swapped table sizes, checksum over the wrong bytes, wrong header_size / chunk count, single-chunk header chosen for encrypted or multi-chunk content
blte_prog!(c01_prog_dn0_cs1, 1, S S, [Dn 0]);
blte_prog!(c01_prog_dn1_cs1, 1, S S, [Dn 1]);
blte_prog!(c01_prog_dn3_cs1, 1, S S, [Dn 3]);
blte_prog!(c01_prog_dn3_cs2, 2, S S, [Dn 3]);
blte_prog!(c01_prog_dn3_cs3, 3, S S, [Dn 3]);
blte_prog!(c01_prog_de1_cs1_s, 1, S S, [De 1]);
blte_prog!(c01_prog_de2_cs1_s, 1, S S, [De 2]);
blte_prog!(c01_prog_de3_cs2_s, 2, S S, [De 3]);
blte_prog!(c01_prog_de3_cs3_a, 3, A S, [De 3]);
blte_prog!(c01_prog_mn3_cs2, 2, S S, [Mn 3]);
blte_prog!(c01_prog_me1_cs1_s, 1, S S, [Me 1]);
blte_prog!(c01_prog_me3_cs1_s, 1, S S, [Me 3]);
blte_prog!(c01_prog_me3_cs2_a, 2, S A, [Me 3]);
blte_prog!(c01_prog_x1_s, 1, S S, [X 1]);
blte_prog!(c01_prog_x3_a, 1, S A, [X 3]);
blte_prog!(c01_prog_c0, 1, S S, [C 0]);
blte_prog!(c01_prog_c3, 1, S S, [C 3]);
blte_prog!(c01_prog_empty_de0, 1, S S, [De 0]);
blte_prog!(c01_prog_empty_me0, 1, S S, [Me 0]);
blte_prog!(c01_prog_empty_x0_arc4, 1, S A, [X 0]);
// @end

// @family prop=C01 tier=quick timeout=600 role=builder-program-2calls
// @bounds two builder calls (every ordered pair of kinds except plain/plain renamings, incl. add_data under with_encryption at chunk position > 0 and empty payloads under encryption); kind letters: dn = add_data plain (after without_encryption), de = add_data under with_encryption(spec A), mn / me = add_mixed_data(None / Some(spec B)), x = add_encrypted_data(spec B, explicit block index), c = add_chunk(ChunkData::new(.., None)); digit = payload length of that call; cs<k> = chunk size; payload bytes, two distinct key names, both IVs, both 16-byte keys, high 32 bits of the explicit block index, observed output index: all symbolic
// @encodes cascette_formats::blte::BlteBuilder::add_data, cascette_formats::blte::BlteBuilder::add_mixed_data, cascette_formats::blte::BlteBuilder::add_encrypted_data, cascette_formats::blte::BlteBuilder::add_chunk, cascette_formats::blte::BlteBuilder::with_encryption, cascette_formats::blte::BlteBuilder::without_encryption, cascette_formats::blte::BlteBuilder::with_chunk_size_unchecked, cascette_formats::blte::BlteBuilder::build, cascette_formats::blte::BlteBuilder::create_encrypted_chunk, cascette_formats::blte::BlteBuilder::create_encrypted_chunk_with_params, cascette_formats::blte::BlteBuilder::build_inner_payload, cascette_formats::blte::encrypt_chunk_with_key, cascette_formats::blte::decrypt_chunk_with_keys, cascette_formats::blte::decompress_chunk, cascette_formats::blte::BlteFile::decompress_with_keys, cascette_formats::blte::BlteHeader::multi_chunk_with_flags, cascette_formats::blte::BlteHeader::single_chunk, cascette_formats::blte::ChunkInfo::from_chunk_data, cascette_formats::blte::ChunkData::new, cascette_formats::blte::ChunkData::from_compressed, cascette_formats::blte::ChunkData::compressed_data, cascette_formats::blte::ChunkData::verify_checksum, cascette_formats::blte::ChunkData::decompress, cascette_crypto::salsa20::Salsa20Cipher::new, cascette_crypto::salsa20::Salsa20Cipher::apply_keystream, cascette_crypto::salsa20::encrypt_salsa20, cascette_crypto::salsa20::decrypt_salsa20, cascette_crypto::arc4::Arc4Cipher::encrypt, cascette_crypto::arc4::Arc4Cipher::decrypt
// @assumes Salsa20 block function = uninterpreted function of the 16-word state (first 16 keystream bytes; C09 proves the real one), Salsa20Cipher::new / apply_keystream real; ARC4 keystream = uninterpreted function of the 16-byte key (KSA/PRGA proved in C09), encrypt/decrypt real; MD5 = uninterpreted function of (length, bytes <= 24); TactKeyStore add/get = two-slot association list instead of std HashMap; fmt::format off; compression mode N only (zlib / LZ4 decoders are outside: reaching one is a failed check); cipher type per chunk spec concrete per harness (name suffix: s = Salsa20, a = ARC4; first letter spec A used by with_encryption, second spec B used by add_mixed_data / add_encrypted_data); explicit block index of add_encrypted_data = chunk position + arbitrary high 32 bits; CBMC field sensitivity for heap objects <= 1024 bytes; Kani assertion-reachability bookkeeping off
// @catches wrong block index handed to the cipher (restart at 0, off by one, local instead of global position), key / IV / type of the wrong spec, dropped / duplicated / misordered chunk at the chunk-size boundary (<= vs <, last partial chunk), inner mode byte missing or re-interpreted (payload starting with N/Z/4/E/F), < 17 length check off by one, swapped table sizes, checksum over the wrong bytes, wrong header_size / chunk count, single-chunk header chosen for encrypted or multi-chunk content
blte_prog!(c01_prog_dn2_mn1_cs1, 1, S S, [Dn 2, Mn 1]);
blte_prog!(c01_prog_dn2_me1_cs1, 1, S S, [Dn 2, Me 1]);
blte_prog!(c01_prog_dn2_x1_cs1, 1, S S, [Dn 2, X 1]);
blte_prog!(c01_prog_de2_dn1_cs1, 1, S S, [De 2, Dn 1]);
blte_prog!(c01_prog_de2_mn1_cs1, 1, S S, [De 2, Mn 1]);
blte_prog!(c01_prog_de2_me1_cs1, 1, S S, [De 2, Me 1]);
blte_prog!(c01_prog_de2_x1_cs1, 1, S S, [De 2, X 1]);
blte_prog!(c01_prog_de2_c1_cs1, 1, S S, [De 2, C 1]);
blte_prog!(c01_prog_mn2_me1_cs1, 1, S S, [Mn 2, Me 1]);
blte_prog!(c01_prog_mn2_x1_cs1, 1, S S, [Mn 2, X 1]);
blte_prog!(c01_prog_mn2_c1_cs1, 1, S S, [Mn 2, C 1]);
blte_prog!(c01_prog_me2_dn1_cs1, 1, S S, [Me 2, Dn 1]);
blte_prog!(c01_prog_me2_mn1_cs1, 1, S S, [Me 2, Mn 1]);
blte_prog!(c01_prog_me2_me1_cs1, 1, S S, [Me 2, Me 1]);
blte_prog!(c01_prog_me2_x1_cs1, 1, S S, [Me 2, X 1]);
blte_prog!(c01_prog_me2_c1_cs1, 1, S S, [Me 2, C 1]);
blte_prog!(c01_prog_x1_dn1_cs1, 1, S S, [X 1, Dn 1]);
blte_prog!(c01_prog_x1_mn1_cs1, 1, S S, [X 1, Mn 1]);
blte_prog!(c01_prog_x1_me1_cs1, 1, S S, [X 1, Me 1]);
blte_prog!(c01_prog_x1_x1_cs1, 1, S S, [X 1, X 1]);
blte_prog!(c01_prog_x1_c1_cs1, 1, S S, [X 1, C 1]);
blte_prog!(c01_prog_c1_dn1_cs1, 1, S S, [C 1, Dn 1]);
blte_prog!(c01_prog_c1_me1_cs1, 1, S S, [C 1, Me 1]);
blte_prog!(c01_prog_c1_x1_cs1, 1, S S, [C 1, X 1]);
blte_prog!(c01_prog_c1_me3_cs2, 2, S S, [C 1, Me 3]);
blte_prog!(c01_prog_me1_mn3_cs1, 1, S S, [Me 1, Mn 3]);
blte_prog!(c01_prog_de2_de1_cs1_arc4, 1, A A, [De 2, De 1]);
blte_prog!(c01_prog_x1_me2_cs1_arc4b, 1, S A, [X 1, Me 2]);
blte_prog!(c01_prog_de2_de1_cs1, 1, S S, [De 2, De 1]);
blte_prog!(c01_prog_me2_de1_cs1, 1, S S, [Me 2, De 1]);
blte_prog!(c01_prog_c1_de1_cs1, 1, S S, [C 1, De 1]);
blte_prog!(c01_prog_dn2_de1_cs1, 1, S S, [Dn 2, De 1]);
blte_prog!(c01_prog_mn2_de1_cs1, 1, S S, [Mn 2, De 1]);
blte_prog!(c01_prog_x1_de1_cs1, 1, S S, [X 1, De 1]);
blte_prog!(c01_prog_empty_dn1_me0, 1, S S, [Dn 1, Me 0]);
// @end

// @family prop=C01 tier=thorough timeout=3000 mem=24 role=builder-program-3calls
// @bounds three builder calls; kind letters: dn = add_data plain (after without_encryption), de = add_data under with_encryption(spec A), mn / me = add_mixed_data(None / Some(spec B)), x = add_encrypted_data(spec B, explicit block index), c = add_chunk(ChunkData::new(.., None)); digit = payload length of that call; cs<k> = chunk size; payload bytes, two distinct key names, both IVs, both 16-byte keys, high 32 bits of the explicit block index, observed output index: all symbolic
// @encodes cascette_formats::blte::BlteBuilder::add_data, cascette_formats::blte::BlteBuilder::add_mixed_data, cascette_formats::blte::BlteBuilder::add_encrypted_data, cascette_formats::blte::BlteBuilder::add_chunk, cascette_formats::blte::BlteBuilder::with_encryption, cascette_formats::blte::BlteBuilder::without_encryption, cascette_formats::blte::BlteBuilder::with_chunk_size_unchecked, cascette_formats::blte::BlteBuilder::build, cascette_formats::blte::BlteBuilder::create_encrypted_chunk, cascette_formats::blte::BlteBuilder::create_encrypted_chunk_with_params, cascette_formats::blte::BlteBuilder::build_inner_payload, cascette_formats::blte::encrypt_chunk_with_key, cascette_formats::blte::decrypt_chunk_with_keys, cascette_formats::blte::decompress_chunk, cascette_formats::blte::BlteFile::decompress_with_keys, cascette_formats::blte::BlteHeader::multi_chunk_with_flags, cascette_formats::blte::BlteHeader::single_chunk, cascette_formats::blte::ChunkInfo::from_chunk_data, cascette_formats::blte::ChunkData::new, cascette_formats::blte::ChunkData::from_compressed, cascette_formats::blte::ChunkData::compressed_data, cascette_formats::blte::ChunkData::verify_checksum, cascette_formats::blte::ChunkData::decompress, cascette_crypto::salsa20::Salsa20Cipher::new, cascette_crypto::salsa20::Salsa20Cipher::apply_keystream, cascette_crypto::salsa20::encrypt_salsa20, cascette_crypto::salsa20::decrypt_salsa20, cascette_crypto::arc4::Arc4Cipher::encrypt, cascette_crypto::arc4::Arc4Cipher::decrypt
// @assumes Salsa20 block function = uninterpreted function of the 16-word state (first 16 keystream bytes; C09 proves the real one), Salsa20Cipher::new / apply_keystream real; ARC4 keystream = uninterpreted function of the 16-byte key (KSA/PRGA proved in C09), encrypt/decrypt real; MD5 = uninterpreted function of (length, bytes <= 24); TactKeyStore add/get = two-slot association list instead of std HashMap; fmt::format off; compression mode N only (zlib / LZ4 decoders are outside: reaching one is a failed check); cipher type per chunk spec concrete per harness (name suffix: s = Salsa20, a = ARC4; first letter spec A used by with_encryption, second spec B used by add_mixed_data / add_encrypted_data); explicit block index of add_encrypted_data = chunk position + arbitrary high 32 bits; CBMC field sensitivity for heap objects <= 1024 bytes; Kani assertion-reachability bookkeeping off
// @catches wrong block index handed to the cipher (restart at 0, off by one, local instead of global position), key / IV / type of the wrong spec, dropped / duplicated / misordered chunk at the chunk-size boundary (<= vs <, last partial chunk), inner mode byte missing or re-interpreted (payload starting with N/Z/4/E/F), < 17 length check off by one, swapped table sizes, checksum over the wrong bytes, wrong header_size / chunk count, single-chunk header chosen for encrypted or multi-chunk content
blte_prog!(c01_prog3_me2_me1_me1_cs1, 1, S S, [Me 2, Me 1, Me 1]);
blte_prog!(c01_prog3_me2_me1_x1_cs1, 1, S S, [Me 2, Me 1, X 1]);
blte_prog!(c01_prog3_me2_me1_c1_cs1, 1, S S, [Me 2, Me 1, C 1]);
blte_prog!(c01_prog3_me2_x1_me1_cs1, 1, S S, [Me 2, X 1, Me 1]);
blte_prog!(c01_prog3_me2_x1_x1_cs1, 1, S S, [Me 2, X 1, X 1]);
blte_prog!(c01_prog3_me2_x1_c1_cs1, 1, S S, [Me 2, X 1, C 1]);
blte_prog!(c01_prog3_me2_c1_me1_cs1, 1, S S, [Me 2, C 1, Me 1]);
blte_prog!(c01_prog3_me2_c1_x1_cs1, 1, S S, [Me 2, C 1, X 1]);
blte_prog!(c01_prog3_me2_c1_c1_cs1, 1, S S, [Me 2, C 1, C 1]);
blte_prog!(c01_prog3_x1_me1_me1_cs1, 1, S S, [X 1, Me 1, Me 1]);
blte_prog!(c01_prog3_x1_me1_x1_cs1, 1, S S, [X 1, Me 1, X 1]);
blte_prog!(c01_prog3_x1_me1_c1_cs1, 1, S S, [X 1, Me 1, C 1]);
blte_prog!(c01_prog3_x1_x1_me1_cs1, 1, S S, [X 1, X 1, Me 1]);
blte_prog!(c01_prog3_x1_x1_x1_cs1, 1, S S, [X 1, X 1, X 1]);
blte_prog!(c01_prog3_x1_x1_c1_cs1, 1, S S, [X 1, X 1, C 1]);
blte_prog!(c01_prog3_x1_c1_me1_cs1, 1, S S, [X 1, C 1, Me 1]);
blte_prog!(c01_prog3_x1_c1_x1_cs1, 1, S S, [X 1, C 1, X 1]);
blte_prog!(c01_prog3_x1_c1_c1_cs1, 1, S S, [X 1, C 1, C 1]);
blte_prog!(c01_prog3_c1_me1_me1_cs1, 1, S S, [C 1, Me 1, Me 1]);
blte_prog!(c01_prog3_c1_me1_x1_cs1, 1, S S, [C 1, Me 1, X 1]);
blte_prog!(c01_prog3_c1_me1_c1_cs1, 1, S S, [C 1, Me 1, C 1]);
blte_prog!(c01_prog3_c1_x1_me1_cs1, 1, S S, [C 1, X 1, Me 1]);
blte_prog!(c01_prog3_c1_x1_x1_cs1, 1, S S, [C 1, X 1, X 1]);
blte_prog!(c01_prog3_c1_x1_c1_cs1, 1, S S, [C 1, X 1, C 1]);
blte_prog!(c01_prog3_c1_c1_me1_cs1, 1, S S, [C 1, C 1, Me 1]);
blte_prog!(c01_prog3_c1_c1_x1_cs1, 1, S S, [C 1, C 1, X 1]);
blte_prog!(c01_prog3_de2_me1_x1_cs1_ss, 1, S S, [De 2, Me 1, X 1]);
blte_prog!(c01_prog3_de1_c1_me2_cs1_sa, 1, S A, [De 1, C 1, Me 2]);
blte_prog!(c01_prog3_dn2_me1_mn2_cs1_ss, 1, S S, [Dn 2, Me 1, Mn 2]);
blte_prog!(c01_prog3_mn1_x1_dn3_cs2_ss, 2, S S, [Mn 1, X 1, Dn 3]);
blte_prog!(c01_prog3_de3_x1_me3_cs2_as, 2, A S, [De 3, X 1, Me 3]);
blte_prog!(c01_prog3_dn3_mn3_c3_cs3_ss, 3, S S, [Dn 3, Mn 3, C 3]);
blte_prog!(c01_prog3_me1_c1_de1_cs1, 1, S S, [Me 1, C 1, De 1]);
// @end


// ---- hand-written harnesses on top of the same models -------------------------------------------------
macro_rules! blte_harness {
    ($name:ident, $body:block) => {
        #[kani::proof]
        #[kani::unwind(26)]
        #[kani::stub(cascette_crypto::salsa20::Salsa20Cipher::generate_keystream, uf_generate_keystream)]
        #[kani::stub(cascette_crypto::arc4::Arc4Cipher::new, uf_arc4_new)]
        #[kani::stub(cascette_crypto::arc4::Arc4Cipher::next_keystream_byte, uf_arc4_next)]
        #[kani::stub(cascette_crypto::md5::ContentKey::from_data, uf_content_key)]
        #[kani::stub(cascette_crypto::keys::TactKeyStore::add, ks_add)]
        #[kani::stub(cascette_crypto::keys::TactKeyStore::get, ks_get)]
        #[kani::stub(std::hash::RandomState::new, fixed_random_state)]
        #[kani::stub(std::fmt::format, fmt_format_empty)]
        #[kani::stub(lz4_flex::block::decompress_safe::decompress, lz4_decompress_reached)]
        #[kani::stub(flate2::read::ZlibDecoder::new, zlib_new_reached)]
        fn $name() $body
    };
}

// @harness prop=C01 tier=quick timeout=600 role=table-decompressed-size-encrypted
// @bounds one add_mixed_data(Some(spec B Salsa20)) call with a 2-byte symbolic payload, chunk size 3; keys / IVs symbolic
// @encodes cascette_formats::blte::BlteBuilder::create_encrypted_chunk_with_params, cascette_formats::blte::ChunkInfo::from_chunk_data, cascette_formats::blte::BlteHeader::multi_chunk_with_flags
// @assumes same models as the builder-program families
// @catches encrypted chunk's table decompressed_size counting the inner mode byte (payload + 1) or the cipher header
blte_harness!(c01_table_decompressed_size_encrypted, {
    let s: Sym<2> = Sym::any(S, S);
    let b = BlteBuilder::new().with_chunk_size_unchecked(3);
    let b = match b.add_mixed_data(&s.pay[0..2], Some((s.spec_b(), s.key_b))) {
        Ok(b) => b,
        Err(e) => {
            std::mem::forget(e);
            assert!(false, "builder rejected a valid call");
            return;
        }
    };
    let file = match b.build() {
        Ok(f) => f,
        Err(e) => {
            std::mem::forget(e);
            assert!(false, "build failed");
            return;
        }
    };
    let mut store = TactKeyStore::empty();
    store.add(TactKey::new(s.name_b, s.key_b));
    let out = file.decompress_with_keys(&store);
    let decoded_len = match &out {
        Ok(v) => v.len(),
        Err(_) => {
            assert!(false, "decode failed");
            return;
        }
    };
    assert!(decoded_len == 2, "decoded length");
    let ext = match &file.header.extended {
        Some(e) => e,
        None => {
            assert!(false, "encrypted content must carry a chunk table");
            return;
        }
    };
    kani::cover!(ext.chunk_infos.len() == 1, "one table entry");
    assert!(ext.chunk_infos[0].decompressed_size as usize == decoded_len, "chunk table decompressed_size of an encrypted chunk is not the number of bytes the chunk decodes to");
    std::mem::forget(out);
    std::mem::forget(store);
    std::mem::forget(file);
});

// @harness prop=C01 tier=quick timeout=600 role=kf-explicit-block-index
// @bounds one add_encrypted_data call (Salsa20) as the first builder call, 1-byte symbolic payload, explicit block_index ANY usize; keys / IV symbolic
// @encodes cascette_formats::blte::BlteBuilder::add_encrypted_data, cascette_formats::blte::BlteFile::decompress_with_keys
// @assumes same models as the builder-program families
// @catches EXPECTED TO FAIL on the unchanged tree (genuine defect): assertion 'KF: add_encrypted_data accepts a block_index ...' — the builder neither rejects nor corrects an index the decoder will not use (decoder always uses the chunk position)
blte_harness!(c01_kf_explicit_block_index_mismatch, {
    let s: Sym<1> = Sym::any(S, S);
    let bi: usize = kani::any();
    let b = BlteBuilder::new();
    let r = b.add_encrypted_data(&s.pay[0..1], s.spec_b(), s.key_b, bi);
    let b = match r {
        Ok(b) => b,
        Err(e) => {
            std::mem::forget(e);
            return; // rejecting is allowed
        }
    };
    let file = match b.build() {
        Ok(f) => f,
        Err(e) => {
            std::mem::forget(e);
            return;
        }
    };
    let mut store = TactKeyStore::empty();
    store.add(TactKey::new(s.name_b, s.key_b));
    let out = file.decompress_with_keys(&store);
    let good = match &out {
        Ok(v) => v.len() == 1 && v[0] == s.pay[0],
        Err(_) => false,
    };
    kani::cover!(good, "index 0 round-trips");
    if bi as u32 == 0 {
        assert!(good, "block index equal to the chunk position (mod 2^32) must round-trip");
    }
    assert!(good, "KF: add_encrypted_data accepts a block_index different from the chunk's position; the container it returns does not decode to the added bytes");
    std::mem::forget(out);
    std::mem::forget(store);
    std::mem::forget(file);
});

// @harness prop=C01 tier=quick timeout=600 role=header-chunk-count-be24-write
// @bounds chunk_count symbolic 0..=2^24-1 written by the real header writer (table emptied so that only the count field varies)
// @encodes cascette_formats::blte::BlteHeader::write_options, cascette_formats::blte::header::ExtendedHeader::write_options, cascette_formats::blte::BlteHeader::multi_chunk
// @assumes MD5 model as above; the reading direction (#[br(map)] closure inside the binrw derive) needs >= 256 table entries to distinguish a wrong shift and is outside
// @catches wrong shift / byte order of the 24-bit chunk count, flags byte misplaced, header_size not big-endian
blte_harness!(c01_header_chunk_count_be24_write, {
    use binrw::BinWrite;
    let count: u32 = kani::any();
    let hs: u32 = kani::any();
    kani::assume(count <= 0xFF_FFFF);
    let chunks = vec![ChunkData::new(Vec::new(), CompressionMode::None).unwrap()];
    let mut h = match cascette_formats::blte::BlteHeader::multi_chunk(&chunks) {
        Ok(h) => h,
        Err(e) => {
            std::mem::forget(e);
            assert!(false, "multi_chunk failed");
            return;
        }
    };
    h.header_size = hs;
    if let Some(e) = h.extended.as_mut() {
        e.chunk_count = count;
        let old = std::mem::take(&mut e.chunk_infos);
        std::mem::forget(old);
    }
    let mut bytes: Vec<u8> = Vec::new();
    let mut cur = std::io::Cursor::new(&mut bytes);
    let r = h.write_options(&mut cur, binrw::Endian::Big, ());
    assert!(r.is_ok(), "header write failed");
    std::mem::forget(r);
    assert!(bytes.len() == 12, "magic + header_size + flags + 24-bit count");
    assert!(bytes[0] == b'B' && bytes[1] == b'L' && bytes[2] == b'T' && bytes[3] == b'E', "magic");
    assert!(bytes[4] == (hs >> 24) as u8 && bytes[5] == (hs >> 16) as u8 && bytes[6] == (hs >> 8) as u8 && bytes[7] == hs as u8, "header_size must be big-endian");
    assert!(bytes[8] == 0x0F, "standard table flag");
    assert!(bytes[9] == (count >> 16) as u8 && bytes[10] == (count >> 8) as u8 && bytes[11] == count as u8, "chunk count must be 24-bit big-endian");
    kani::cover!(count == 0x01_0203, "all three count bytes distinct");
    std::mem::forget(bytes);
    std::mem::forget(h);
    std::mem::forget(chunks);
});

// @harness prop=C01 tier=quick timeout=600 role=unknown-cipher-type-rejected
// @bounds encryption type byte symbolic outside {0x53, 0x41}; 1-byte payload; both encrypting entry points
// @encodes cascette_formats::blte::encrypt_chunk_with_key, cascette_formats::blte::BlteBuilder::add_encrypted_data, cascette_formats::blte::BlteBuilder::add_data
// @assumes same models as the builder-program families
// @catches an unknown cipher type silently producing a plaintext / undecodable chunk instead of an error
blte_harness!(c01_unknown_cipher_type_rejected, {
    let s: Sym<1> = Sym::any(S, S);
    let ty: u8 = kani::any();
    kani::assume(ty != 0x53 && ty != 0x41);
    let spec = EncryptionSpec { key_name: s.name_a, iv: s.iv_a, encryption_type: ty };
    let r1 = BlteBuilder::new().add_encrypted_data(&s.pay[0..1], spec, s.key_a, 0);
    assert!(r1.is_err(), "add_encrypted_data accepted an unknown encryption type");
    let r2 = BlteBuilder::new().with_encryption(spec, s.key_a).add_data(&s.pay[0..1]);
    assert!(r2.is_err(), "add_data under with_encryption accepted an unknown encryption type");
    kani::cover!(ty == 0x45, "type byte 'E'");
    std::mem::forget(r1);
    std::mem::forget(r2);
});

// Only single-chunk (table-less) containers are registered: with a chunk table the parser does not finish
// (measured: [Dn 3] cs 1 = 3 plain chunks and [De 2] cs 1 = 2 encrypted chunks both killed at 900 s in symex:
// binrw-derived ExtendedHeader / Vec<ChunkInfo> reader).  Multi-chunk and encrypted containers are therefore
// decoded from the built value (families above) and their table is checked on the value.
// @family prop=C01 tier=quick timeout=900 role=serialise-parse-decode
// @bounds builder programs as in the builder-program families (same naming), decoded from parse(serialise(built file)) instead of the built value; the serialised bytes are also compared with the wire layout (magic, big-endian header_size, flags, 24-bit count, per-chunk big-endian sizes, mode byte + chunk bytes, total length)
// @encodes cascette_formats::blte::BlteFile::build, cascette_formats::blte::BlteFile::parse, cascette_formats::blte::BlteFile::read_options, cascette_formats::blte::BlteFile::write_options, cascette_formats::blte::BlteHeader::read_options, cascette_formats::blte::BlteHeader::write_options, cascette_formats::blte::ChunkData::read_options, cascette_formats::blte::ChunkData::write_options, cascette_formats::blte::ChunkInfo::read_options, cascette_formats::blte::ChunkInfo::write_options, cascette_formats::blte::BlteFile::decompress_with_keys, cascette_formats::blte::BlteBuilder::build
// @assumes same models as the builder-program families
// @catches chunk written without its mode byte, table sizes written little-endian or swapped, header_size not matching the table, single-chunk remainder read short / long, chunk boundaries taken from the wrong table field
blte_prog_bytes!(c01_bytes_dn1_cs1, 1, S S, [Dn 1]);
blte_prog_bytes!(c01_bytes_dn3_cs3, 3, S S, [Dn 3]);
// @end
