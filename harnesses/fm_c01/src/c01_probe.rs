use crate::stubs::*;
use cascette_formats::blte::{BlteBuilder, BlteFile, ChunkData, CompressionMode};

pub fn lz4_decompress_err(_input: &[u8], _min: usize) -> Result<Vec<u8>, lz4_flex::block::DecompressError> {
    Err(lz4_flex::block::DecompressError::ExpectedAnotherByte)
}
pub fn zio_read_eof<R, D>(_obj: &mut R, _data: &mut D, _dst: &mut [u8]) -> std::io::Result<usize> {
    Ok(0)
}

#[kani::proof]
#[kani::unwind(8)]
#[kani::stub(std::fmt::format, fmt_format_empty)]
#[kani::stub(lz4_flex::block::decompress_safe::decompress, lz4_decompress_err)]
#[kani::stub(flate2::zio::read, zio_read_eof)]
fn probe_a() {
    let pay: [u8; 1] = kani::any();
    let b = BlteBuilder::new().with_chunk_size_unchecked(1);
    let b = match b.add_data(&pay[0..1]) { Ok(b) => b, Err(_) => return };
    let file = match b.build() { Ok(f) => f, Err(_) => return };
    assert!(file.chunks.len() == 1);
    assert!(file.header.header_size == 0);
    let out = file.decompress().unwrap();
    assert!(out.len() == 1 && out[0] == pay[0]);
    std::mem::forget(out);
    std::mem::forget(file);
}

#[inline(never)]
fn spin(lim: usize) -> usize { let mut i = 0; while i < lim { i += 1; } i }
#[inline(never)]
fn spin2(lim: usize) -> usize { let mut i = 0; while i < lim { i += 1; } i }
#[inline(never)]
fn spin3(lim: usize) -> usize { let mut i = 0; while i < lim { i += 1; } i }

#[kani::proof]
#[kani::unwind(8)]
#[kani::stub(std::fmt::format, fmt_format_empty)]
fn probe_b() {
    let pay: [u8; 1] = kani::any();
    let mut v: Vec<ChunkData> = Vec::new();
    v.push(ChunkData::new(pay.to_vec(), CompressionMode::None).unwrap());
    let a = spin(if v[0].mode == CompressionMode::None { 1 } else { 5 });
    let b = spin2(if v[0].data.len() == 1 { 1 } else { 5 });
    let c = spin3(if v.iter().any(|c| c.mode == CompressionMode::Encrypted) { 5 } else { 1 });
    assert!(a + b + c == 3);
    std::mem::forget(v);
}
