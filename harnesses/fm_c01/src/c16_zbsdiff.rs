// C16 — ZBSDIFF: apply(old, build(old, new)) == new for the simple and chunked builders, memory and
// streaming patcher agree, any patch yields output of the header's length or an error.
use crate::stubs::*;
use cascette_formats::zbsdiff::{
    ControlBlock, ControlEntry, ZbsdiffBuilder, ZbsdiffError, ZbsdiffPatcher, ZbsdiffResult, apply_patch_memory,
};
use std::io::Cursor;

// zlib is a third-party input-length loop: both wrappers become the identity copy (flate2 round-trips).
pub fn zlib_identity(data: &[u8]) -> ZbsdiffResult<Vec<u8>> {
    Ok(data.to_vec())
}

#[derive(Clone, Copy, PartialEq, Eq)]
pub enum B {
    Simple,
    Chunked,
    Optimized,
}

pub fn roundtrip<const OL: usize, const NL: usize>(kind: B, mb: usize, streaming: bool) {
    let old: [u8; OL] = kani::any();
    let new: [u8; NL] = kani::any();
    let i: usize = kani::any();
    let b = ZbsdiffBuilder::new(old.to_vec(), new.to_vec()).with_max_diff_block_size(mb);
    let built = match kind {
        B::Simple => b.build_simple_patch(),
        B::Chunked => b.build_chunked_patch(),
        B::Optimized => b.build_optimized_patch(),
    };
    let patch = match built {
        Ok(p) => p,
        Err(e) => {
            std::mem::forget(e);
            if NL == 0 {
                assert!(false, "KF: builder fails on empty new content (no control entry is generated, the control block is rejected as empty)");
            }
            assert!(false, "builder failed on a valid (old, new) pair");
            return;
        }
    };
    // header: "ZBSDIFF1", control size, diff size, output size (little-endian i64 each)
    assert!(patch.len() >= 32, "patch shorter than its header");
    let osz = i64::from_le_bytes([patch[24], patch[25], patch[26], patch[27], patch[28], patch[29], patch[30], patch[31]]);
    assert!(osz == NL as i64, "header output_size differs from the new content's length");
    assert!(patch[0] == b'Z' && patch[1] == b'B' && patch[2] == b'S' && patch[3] == b'D' && patch[4] == b'I' && patch[5] == b'F' && patch[6] == b'F' && patch[7] == b'1', "signature");

    let out = apply_patch_memory(&old, &patch);
    match &out {
        Ok(v) => {
            assert!(v.len() == NL, "applying the generated patch yields a wrong-length result");
            assert!(i >= NL || v[i] == new[i], "applying the generated patch does not reproduce the new content");
        }
        Err(_) => assert!(false, "generated patch does not apply to the old content it was built from"),
    }
    kani::cover!(out.is_ok(), "patch built and applied");
    if streaming {
        let p = ZbsdiffPatcher::new(Cursor::new(&old[..]), NL).with_buffer_size(1) /* clamped to the 1 KiB minimum; a symbolic size makes the patcher's scratch Vec a symbolic-size heap object */;
        let out2 = p.apply_patch_from_data(&patch);
        match &out2 {
            Ok(v) => {
                assert!(v.len() == NL, "streaming patcher yields a wrong-length result");
                assert!(i >= NL || v[i] == new[i], "streaming patcher differs from the new content");
            }
            Err(_) => assert!(false, "streaming patcher rejects a patch the memory patcher applies"),
        }
        std::mem::forget(out2);
    }
    std::mem::forget(out);
    std::mem::forget(patch);
    std::mem::forget(b);
}

macro_rules! c16_rt {
    ($name:ident, $kind:ident, $ol:expr, $nl:expr, $mb:expr, $stream:expr, $unwind:expr) => {
        #[kani::proof]
        #[kani::unwind($unwind)]
        #[kani::stub(cascette_formats::zbsdiff::utils::compress_zlib, zlib_identity)]
        #[kani::stub(cascette_formats::zbsdiff::utils::decompress_zlib, zlib_identity)]
        #[kani::stub(std::fmt::format, fmt_format_empty)]
        fn $name() {
            roundtrip::<$ol, $nl>(B::$kind, $mb, $stream);
        }
    };
}

// Only the simple builder is registered: build_chunked_patch on symbolic bytes does not finish (|old|=|new|=1,
// max_diff_block_size 1: CBMC out of memory after 645 s; |old|=2,|new|=1: > 600 s in symex) because the match
// length, hence every Vec length and the control-entry count, is data dependent and each `?` drags in the
// recursive binrw::Error drop glue.  The suffix-array builder (divsufsort) was not attempted for the same reason.
// @family prop=C16 tier=quick timeout=600 role=build-apply-roundtrip
// @bounds |old| and |new| concrete per harness (name: o<|old|>_n<|new|>), every byte symbolic; max_diff_block_size concrete (mb<k>); streaming patcher buffer = the 1 KiB minimum (with_buffer_size clamps; splitting a block across buffers needs > 1024 bytes: outside); observed byte index symbolic
// @encodes cascette_formats::zbsdiff::ZbsdiffBuilder::build_simple_patch, cascette_formats::zbsdiff::ZbsdiffBuilder::build_patch_internal, cascette_formats::zbsdiff::ControlBlock::with_entries, cascette_formats::zbsdiff::ControlBlock::to_compressed, cascette_formats::zbsdiff::ControlBlock::from_compressed, cascette_formats::zbsdiff::utils::offtin, cascette_formats::zbsdiff::utils::offtout, cascette_formats::zbsdiff::ZbsdiffHeader::validate, cascette_formats::zbsdiff::apply_patch_memory, cascette_formats::zbsdiff::patcher::apply_patch_with_data, cascette_formats::zbsdiff::ZbsdiffPatcher::apply_patch_from_data, cascette_formats::zbsdiff::ZbsdiffPatcher::apply_patch
// @assumes compress_zlib / decompress_zlib = identity copy (flate2 round-trips; 4-line wrappers); fmt::format off; CBMC field sensitivity for heap objects <= 1024 bytes
// @catches diff byte computed with the wrong operand order, extra bytes dropped or duplicated, control sizes swapped, seek applied to the wrong position, header sizes swapped / output_size wrong, sign-magnitude encoding broken, memory and streaming patcher disagreeing
c16_rt!(c16_simple_o0_n0, Simple, 0, 0, 3, true, 40);
c16_rt!(c16_simple_o0_n1, Simple, 0, 1, 3, true, 40);
c16_rt!(c16_simple_o1_n0, Simple, 1, 0, 3, true, 40);
c16_rt!(c16_simple_o0_n3, Simple, 0, 3, 3, true, 40);
c16_rt!(c16_simple_o3_n0, Simple, 3, 0, 3, true, 40);
c16_rt!(c16_simple_o1_n1, Simple, 1, 1, 3, true, 40);
c16_rt!(c16_simple_o2_n3, Simple, 2, 3, 3, true, 40);
c16_rt!(c16_simple_o3_n2, Simple, 3, 2, 3, true, 40);
c16_rt!(c16_simple_o3_n3, Simple, 3, 3, 3, true, 40);
// @end

// ---- bsdiff sign-magnitude integers (kernel level, through the cfg(kani) shim) -----------------------
// ControlBlock::{to_compressed, from_compressed} with a symbolic entry do not finish (symex 211 s + solver
// > 190 s, killed at 400 s: every `?` carries the recursive binrw::Error drop glue), so the integer codec
// is checked directly; the simple-builder round trips above run it on concrete-shaped entries.
use cascette_formats::zbsdiff::verif_utils as zu;

fn sm_bytes(v: i64) -> [u8; 8] {
    // specification: 63-bit magnitude little-endian, bit 63 = sign
    let mag = v.unsigned_abs() & 0x7FFF_FFFF_FFFF_FFFF;
    (mag | if v < 0 { 1u64 << 63 } else { 0 }).to_le_bytes()
}

// @harness prop=C16 tier=quick timeout=300 role=sign-magnitude-codec
// @bounds every i64 except i64::MIN for offtout; every 8-byte pattern for offtin (incl. negative zero)
// @encodes cascette_formats::zbsdiff::utils::offtout, cascette_formats::zbsdiff::utils::offtin
// @catches two's complement instead of sign-magnitude, sign bit in the wrong byte / not masked off the magnitude, big-endian
#[kani::proof]
#[kani::unwind(10)]
fn c16_sign_magnitude_codec() {
    let v: i64 = kani::any();
    let raw: [u8; 8] = kani::any();
    kani::assume(v != i64::MIN);
    let b = zu::offtout(v);
    let want = sm_bytes(v);
    let mut k = 0;
    while k < 8 {
        assert!(b[k] == want[k], "offtout is not 63-bit magnitude little-endian + sign bit 63");
        k += 1;
    }
    assert!(zu::offtin(b) == v, "offtin(offtout(v)) != v");
    // decoder on arbitrary bytes
    let u = u64::from_le_bytes(raw);
    let mag = (u & 0x7FFF_FFFF_FFFF_FFFF) as i64;
    let want_v = if u >> 63 == 1 { -mag } else { mag };
    assert!(zu::offtin(raw) == want_v, "offtin differs from the sign-magnitude specification");
    kani::cover!(v < 0, "negative value");
    kani::cover!(u == 1u64 << 63, "negative zero");
}

// @harness prop=C16 tier=quick timeout=300 role=regression-offtout-i64-min
// @bounds every i64 including i64::MIN
// @encodes cascette_formats::zbsdiff::utils::offtout, cascette_formats::zbsdiff::utils::offtin
// @catches regression of fix ed75ef7: offtout must not panic for any i64 (i64::MIN used to negate with overflow), and every value except i64::MIN (which has no sign-magnitude encoding and is rejected by ControlEntry::validate) must read back unchanged
#[kani::proof]
#[kani::unwind(10)]
fn c16_kf_offtout_i64_min() {
    let v: i64 = kani::any();
    let b = zu::offtout(v);
    if v != i64::MIN {
        assert!(zu::offtin(b) == v, "offtout/offtin do not round-trip a representable value");
    }
    kani::cover!(v == i64::MIN, "i64::MIN reaches offtout without a panic");
}

// ---- hand-made patches: concrete structure, symbolic bytes ----------------------------------------------
// The simple builder never references `old` (everything is extra data), so the diff / seek arithmetic of
// both patchers and the final size check are exercised on patches assembled here through the real writers
// (ZbsdiffHeader::write_options, ControlBlock::to_compressed, compress_zlib = identity).
use cascette_formats::zbsdiff::{ZBSDIFF1_SIGNATURE, ZbsdiffHeader, compress_zlib};

/// `ctrl` = (diff_size, extra_size, seek) per entry; `delta` is added to the true output length in the header.
pub fn handmade<const OL: usize, const DL: usize, const EL: usize>(ctrl: &[(i64, i64, i64)], delta: i64) {
    use binrw::BinWrite;
    let old: [u8; OL] = kani::any();
    let diff: [u8; DL] = kani::any();
    let extra: [u8; EL] = kani::any();
    let i: usize = kani::any();

    // reference bspatch (textbook): out = old[pos..] + diff bytes, then extra bytes, then pos += seek;
    // reads outside the old file yield 0
    let mut want = [0u8; 8];
    let (mut n, mut dp, mut ep, mut pos) = (0usize, 0usize, 0usize, 0i64);
    let mut k = 0;
    while k < ctrl.len() {
        let (d, e, sk) = ctrl[k];
        let mut t = 0;
        while t < d {
            let ob = if pos >= 0 && (pos as usize) < OL { old[pos as usize] } else { 0 };
            want[n] = ob.wrapping_add(diff[dp]);
            n += 1;
            dp += 1;
            pos += 1;
            t += 1;
        }
        let mut t = 0;
        while t < e {
            want[n] = extra[ep];
            n += 1;
            ep += 1;
            t += 1;
        }
        pos += sk;
        if pos < 0 {
            pos = 0; // both patchers saturate at the start of the old file
        }
        k += 1;
    }
    let actual = n;
    let out_size = actual as i64 + delta;

    // assemble the patch with the real writers
    let mut entries = Vec::new();
    let mut k = 0;
    while k < ctrl.len() {
        entries.push(ControlEntry::new(ctrl[k].0, ctrl[k].1, ctrl[k].2));
        k += 1;
    }
    let blk = match ControlBlock::with_entries(entries) {
        Ok(b) => b,
        Err(e) => {
            std::mem::forget(e);
            assert!(false, "valid control entries rejected");
            return;
        }
    };
    let (cc, dc, ec) = match (blk.to_compressed(), compress_zlib(&diff), compress_zlib(&extra)) {
        (Ok(a), Ok(b), Ok(c)) => (a, b, c),
        other => {
            std::mem::forget(other);
            assert!(false, "block serialisation failed");
            return;
        }
    };
    let header = ZbsdiffHeader { signature: ZBSDIFF1_SIGNATURE, control_size: cc.len() as i64, diff_size: dc.len() as i64, output_size: out_size };
    let mut patch: Vec<u8> = Vec::new();
    {
        let mut cur = Cursor::new(&mut patch);
        let r = header.write_options(&mut cur, binrw::Endian::Little, ());
        assert!(r.is_ok(), "header write failed");
        std::mem::forget(r);
    }
    patch.extend_from_slice(&cc);
    patch.extend_from_slice(&dc);
    patch.extend_from_slice(&ec);
    // (native replay runs the real zlib, so the identity-sized layout only holds under the stubs)
    assert!(cfg!(vreplay) || patch.len() == 32 + 24 * ctrl.len() + DL + EL, "patch layout: 32-byte header + 24 bytes per control entry + blocks");

    let mem = apply_patch_memory(&old, &patch);
    let stream = ZbsdiffPatcher::new(Cursor::new(&old[..]), out_size as usize).with_buffer_size(1).apply_patch_from_data(&patch);
    if delta == 0 {
        match &mem {
            Ok(v) => {
                assert!(v.len() == actual, "memory patcher: result length differs from the header's output_size");
                assert!(i >= actual || v[i] == want[i], "memory patcher: result differs from the bspatch model");
            }
            Err(_) => assert!(false, "memory patcher rejects a well-formed patch"),
        }
        match &stream {
            Ok(v) => {
                assert!(v.len() == actual, "streaming patcher: result length differs from the header's output_size");
                assert!(i >= actual || v[i] == want[i], "streaming patcher: result differs from the bspatch model");
            }
            Err(_) => assert!(false, "streaming patcher rejects a well-formed patch"),
        }
    } else {
        assert!(mem.is_err(), "memory patcher returned Ok although the produced length differs from the header's output_size");
        assert!(stream.is_err(), "streaming patcher returned Ok although the produced length differs from the expected output size");
    }
    // one witness per harness (only one of the two branches above is live for a given delta)
    let witness = if delta == 0 { mem.is_ok() && stream.is_ok() && actual >= 1 && i == actual - 1 } else { mem.is_err() && stream.is_err() };
    kani::cover!(witness, "both patchers succeed with the last byte observed / both reject the wrong size");
    std::mem::forget(mem);
    std::mem::forget(stream);
    std::mem::forget(patch);
    std::mem::forget((cc, dc, ec));
    std::mem::forget(blk);
}

macro_rules! c16_hm {
    ($name:ident, $ol:expr, $dl:expr, $el:expr, [$( ($d:expr, $e:expr, $s:expr) ),+], $delta:expr) => {
        #[kani::proof]
        #[kani::unwind(8)]
        #[kani::stub(cascette_formats::zbsdiff::utils::compress_zlib, zlib_identity)]
        #[kani::stub(cascette_formats::zbsdiff::utils::decompress_zlib, zlib_identity)]
        #[kani::stub(std::fmt::format, fmt_format_empty)]
        fn $name() {
            handmade::<$ol, $dl, $el>(&[$( ($d, $e, $s) ),+], $delta);
        }
    };
}

// @family prop=C16 tier=quick timeout=600 role=handmade-patch-apply
// @bounds patch structure concrete per harness (a: old 1, {diff 1}; b: old 2, {diff 2, extra 1}; c: old 3, {diff 1, seek +1},{diff 1, extra 1} — second diff reads the LAST old byte; n: old 2, {diff 2, seek -2},{diff 1, extra 1} — negative seek; z: old 1, {diff 2} — diff block running past the end of old reads 0); every old / diff / extra byte symbolic; header output_size = true length + delta (name suffix: ok = 0, short = -1, long = +1); observed byte index symbolic
// @encodes cascette_formats::zbsdiff::apply_patch_memory, cascette_formats::zbsdiff::patcher::apply_patch_with_data, cascette_formats::zbsdiff::ZbsdiffPatcher::apply_patch_from_data, cascette_formats::zbsdiff::ZbsdiffPatcher::apply_patch, cascette_formats::zbsdiff::ZbsdiffPatcher::apply_diff_block, cascette_formats::zbsdiff::ZbsdiffPatcher::copy_extra_block, cascette_formats::zbsdiff::ZbsdiffPatcher::read_old_chunk, cascette_formats::zbsdiff::ZbsdiffPatcher::apply_seek_offset, cascette_formats::zbsdiff::ZbsdiffPatcher::get_old_file_size, cascette_formats::zbsdiff::ControlBlock::from_compressed, cascette_formats::zbsdiff::ControlBlock::to_compressed, cascette_formats::zbsdiff::ZbsdiffHeader::validate, cascette_formats::zbsdiff::utils::read_old_byte_at, cascette_formats::zbsdiff::utils::apply_diff_byte
// @assumes compress_zlib / decompress_zlib = identity copy; fmt::format off; streaming buffer = 1 KiB minimum; the streaming patcher is given the header's output_size as its expected size
// @catches old-file bound off by one in either patcher (last old byte read as 0), diff added with the wrong operand / subtracted, seek applied before the extra block or with the wrong sign, old position not advanced by the diff length, final size check < or > instead of != (over-long or short result accepted), memory and streaming patcher disagreeing
c16_hm!(c16_handmade_a_ok, 1, 1, 0, [(1, 0, 0)], 0);
c16_hm!(c16_handmade_b_ok, 2, 2, 1, [(2, 1, 0)], 0);
c16_hm!(c16_handmade_c_ok, 3, 2, 1, [(1, 0, 1), (1, 1, 0)], 0);
c16_hm!(c16_handmade_n_ok, 2, 3, 1, [(2, 0, -2), (1, 1, 0)], 0);
c16_hm!(c16_handmade_z_ok, 1, 2, 0, [(2, 0, 0)], 0);
c16_hm!(c16_handmade_a_short, 1, 1, 0, [(1, 0, 0)], -1);
c16_hm!(c16_handmade_a_long, 1, 1, 0, [(1, 0, 0)], 1);
c16_hm!(c16_handmade_b_short, 2, 2, 1, [(2, 1, 0)], -1);
c16_hm!(c16_handmade_b_long, 2, 2, 1, [(2, 1, 0)], 1);
c16_hm!(c16_handmade_c_short, 3, 2, 1, [(1, 0, 1), (1, 1, 0)], -1);
c16_hm!(c16_handmade_c_long, 3, 2, 1, [(1, 0, 1), (1, 1, 0)], 1);
// @end
