// C16 — ZBSDIFF: apply(old, build(old, new)) == new for the simple and chunked builders, memory and
// streaming patcher agree, any patch yields output of the header's length or an error.
use crate::stubs::*;
use cascette_formats::zbsdiff::{
    ControlBlock, ControlEntry, ZbsdiffBuilder, ZbsdiffError, ZbsdiffPatcher, ZbsdiffResult, apply_patch_memory,
};
use std::io::Cursor;

// zlib is a third-party input-length loop: both wrappers become the identity copy (flate2 round-trips).
pub fn zlib_identity(data: &[u8]) -> ZbsdiffResult<Vec<u8>> {
    Ok(data.to_vec())
}

#[derive(Clone, Copy, PartialEq, Eq)]
pub enum B {
    Simple,
    Chunked,
    Optimized,
}

pub fn roundtrip<const OL: usize, const NL: usize>(kind: B, mb: usize, streaming: bool) {
    let old: [u8; OL] = kani::any();
    let new: [u8; NL] = kani::any();
    let bs: usize = kani::any();
    let i: usize = kani::any();
    let b = ZbsdiffBuilder::new(old.to_vec(), new.to_vec()).with_max_diff_block_size(mb);
    let built = match kind {
        B::Simple => b.build_simple_patch(),
        B::Chunked => b.build_chunked_patch(),
        B::Optimized => b.build_optimized_patch(),
    };
    let patch = match built {
        Ok(p) => p,
        Err(e) => {
            std::mem::forget(e);
            if NL == 0 {
                assert!(false, "KF: builder fails on empty new content (no control entry is generated, the control block is rejected as empty)");
            }
            assert!(false, "builder failed on a valid (old, new) pair");
            return;
        }
    };
    // header: "ZBSDIFF1", control size, diff size, output size (little-endian i64 each)
    assert!(patch.len() >= 32, "patch shorter than its header");
    let osz = i64::from_le_bytes([patch[24], patch[25], patch[26], patch[27], patch[28], patch[29], patch[30], patch[31]]);
    assert!(osz == NL as i64, "header output_size differs from the new content's length");
    assert!(patch[0] == b'Z' && patch[1] == b'B' && patch[2] == b'S' && patch[3] == b'D' && patch[4] == b'I' && patch[5] == b'F' && patch[6] == b'F' && patch[7] == b'1', "signature");

    let out = apply_patch_memory(&old, &patch);
    match &out {
        Ok(v) => {
            assert!(v.len() == NL, "applying the generated patch yields a wrong-length result");
            assert!(i >= NL || v[i] == new[i], "applying the generated patch does not reproduce the new content");
        }
        Err(_) => assert!(false, "generated patch does not apply to the old content it was built from"),
    }
    kani::cover!(out.is_ok(), "patch built and applied");
    if streaming {
        let p = ZbsdiffPatcher::new(Cursor::new(&old[..]), NL).with_buffer_size(bs);
        let out2 = p.apply_patch_from_data(&patch);
        match &out2 {
            Ok(v) => {
                assert!(v.len() == NL, "streaming patcher yields a wrong-length result");
                assert!(i >= NL || v[i] == new[i], "streaming patcher differs from the new content");
            }
            Err(_) => assert!(false, "streaming patcher rejects a patch the memory patcher applies"),
        }
        std::mem::forget(out2);
    }
    std::mem::forget(out);
    std::mem::forget(patch);
    std::mem::forget(b);
}

macro_rules! c16_rt {
    ($name:ident, $kind:ident, $ol:expr, $nl:expr, $mb:expr, $stream:expr, $unwind:expr) => {
        #[kani::proof]
        #[kani::unwind($unwind)]
        #[kani::stub(cascette_formats::zbsdiff::utils::compress_zlib, zlib_identity)]
        #[kani::stub(cascette_formats::zbsdiff::utils::decompress_zlib, zlib_identity)]
        #[kani::stub(std::fmt::format, fmt_format_empty)]
        fn $name() {
            roundtrip::<$ol, $nl>(B::$kind, $mb, $stream);
        }
    };
}

// @family prop=C16 tier=quick timeout=600 role=build-apply-roundtrip
// @bounds |old| and |new| concrete per harness (name: o<|old|>_n<|new|>), every byte symbolic; max_diff_block_size concrete (mb<k>); streaming patcher buffer size symbolic (clamped to >= 1024 by with_buffer_size); observed byte index symbolic
// @encodes cascette_formats::zbsdiff::ZbsdiffBuilder::build_simple_patch, cascette_formats::zbsdiff::ZbsdiffBuilder::build_chunked_patch, cascette_formats::zbsdiff::ZbsdiffBuilder::find_matching_chunk, cascette_formats::zbsdiff::ZbsdiffBuilder::find_extra_chunk_size, cascette_formats::zbsdiff::ZbsdiffBuilder::build_patch_internal, cascette_formats::zbsdiff::ControlBlock::with_entries, cascette_formats::zbsdiff::ControlBlock::to_compressed, cascette_formats::zbsdiff::ControlBlock::from_compressed, cascette_formats::zbsdiff::utils::offtin, cascette_formats::zbsdiff::utils::offtout, cascette_formats::zbsdiff::ZbsdiffHeader::validate, cascette_formats::zbsdiff::apply_patch_memory, cascette_formats::zbsdiff::patcher::apply_patch_with_data, cascette_formats::zbsdiff::ZbsdiffPatcher::apply_patch_from_data, cascette_formats::zbsdiff::ZbsdiffPatcher::apply_patch
// @assumes compress_zlib / decompress_zlib = identity copy (flate2 round-trips; 4-line wrappers); fmt::format off; CBMC field sensitivity for heap objects <= 1024 bytes
// @catches diff byte computed with the wrong operand order, extra bytes dropped or duplicated, control sizes swapped, seek applied to the wrong position, header sizes swapped / output_size wrong, sign-magnitude encoding broken, memory and streaming patcher disagreeing
c16_rt!(c16_simple_o0_n0, Simple, 0, 0, 3, true, 40);
// @end
