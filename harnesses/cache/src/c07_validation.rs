// C07 — content-addressed validation hook: `Md5ValidationHooks::validate_content` reports data as
// valid iff its MD5 equals the requested content key.  This is the decision every validating cache
// read (`ContentAddressedCache::get_validated`, `MultiLayerCacheImpl::get_with_validation`) relies
// on; the caches themselves (DashMap / tokio) are outside, the hook is a plain async fn that a
// one-poll executor drives.  MD5 is an IDEAL hash (uninterpreted, injective on the recorded
// inputs), the clock is a constant.
use crate::uf::Uf;
use cascette_cache::validation::{Md5ValidationHooks, ValidationHooks};
use cascette_crypto::ContentKey;
use md5_plain;
use std::future::Future;
use std::task::{Context, Poll, Waker};

static mut H: Uf<2, 2, 4> = Uf::new();

fn pack(data: &[u8]) -> [u64; 2] {
    // length-tagged packing of <= 7 bytes: different byte strings give different words
    let mut w = 0u64;
    let mut i = 0;
    while i < 7 {
        if i < data.len() {
            w |= (data[i] as u64) << (8 * i);
        }
        i += 1;
    }
    [w, data.len() as u64]
}

fn ideal_md5_words(data: &[u8]) -> [u64; 2] {
    if cfg!(vreplay) {
        let d = md5_plain::compute(data).0;
        let mut lo = [0u8; 8];
        let mut hi = [0u8; 8];
        lo.copy_from_slice(&d[..8]);
        hi.copy_from_slice(&d[8..]);
        return [u64::from_le_bytes(lo), u64::from_le_bytes(hi)];
    }
    unsafe { H.apply_injective(pack(data), [u64::MAX; 2]) }
}

// stub for md5::compute
fn ideal_md5_compute<T: AsRef<[u8]>>(data: T) -> md5_plain::Digest {
    let w = ideal_md5_words(data.as_ref());
    let mut d = [0u8; 16];
    d[..8].copy_from_slice(&w[0].to_le_bytes());
    d[8..].copy_from_slice(&w[1].to_le_bytes());
    md5_plain::Digest(d)
}

fn fixed_instant() -> std::time::Instant {
    // Instant is { secs: i64, nanos: u32 } on this target; any valid value will do
    unsafe { core::mem::transmute::<(i64, u32, u32), std::time::Instant>((1, 0, 0)) }
}

fn block_on<F: Future>(f: F) -> Option<F::Output> {
    let mut f = std::pin::pin!(f);
    let mut cx = Context::from_waker(Waker::noop());
    match f.as_mut().poll(&mut cx) {
        Poll::Ready(v) => Some(v),
        Poll::Pending => None,
    }
}

macro_rules! validate_content_h {
    ($name:ident, $len:expr) => {
        #[kani::proof]
        #[kani::unwind(18)]
        #[kani::stub(md5_plain::compute, ideal_md5_compute)]
        #[kani::stub(std::time::Instant::now, fixed_instant)]
        fn $name() {
            // all harness inputs first (concrete playback feeds values in draw order)
            let stored: [u8; $len] = kani::any(); // what was put (defines the key)
            let served: [u8; $len] = kani::any(); // what the backing store returns now
            let shorter: bool = kani::any(); // ... or a truncation of it by one byte
            let hooks = Md5ValidationHooks::new();
            let w = ideal_md5_words(&stored);
            let mut kb = [0u8; 16];
            kb[..8].copy_from_slice(&w[0].to_le_bytes());
            kb[8..].copy_from_slice(&w[1].to_le_bytes());
            let key = ContentKey::from_bytes(kb);
            let n = if shorter && $len > 0 { $len - 1 } else { $len };
            let r = block_on(hooks.validate_content(&key, &served[..n]));
            let res = match r {
                Some(Ok(v)) => v,
                _ => {
                    assert!(false, "validate_content did not complete with Ok");
                    return;
                }
            };
            let mut same = n == $len;
            let mut i = 0;
            while i < $len {
                if i < n {
                    same &= stored[i] == served[i];
                }
                i += 1;
            }
            assert!(res.is_valid == same, "validation verdict differs from 'served bytes are exactly the bytes the key was computed from'");
            assert!(res.content_size == n, "reported size is not the size of the validated data");
            kani::cover!(same, "unaltered data accepted");
            kani::cover!(!same && n == $len, "same-length alteration rejected");
        }
    };
}
// @family prop=C07 tier=quick timeout=900 role=md5-validation-hook
// @bounds stored and served content of the fixed length in the name (1, 2, 5 bytes), every byte symbolic; served content optionally truncated by one byte (so zero-length data against a non-empty key is included)
// @encodes cascette_cache::validation::Md5ValidationHooks::validate_content
// @assumes md5::compute is an ideal hash (uninterpreted, injective on the inputs of the run); Instant::now constant; the async fn is driven by a one-poll executor; the caches calling the hook (DashMap/tokio) are outside
// @catches a shortcut that reports some data valid without comparing the digest (empty data, large data), comparing a digest prefix only, comparing against the wrong key
validate_content_h!(c07_md5_validation_hook_len1, 1);
validate_content_h!(c07_md5_validation_hook_len2, 2);
validate_content_h!(c07_md5_validation_hook_len5, 5);
// @end
