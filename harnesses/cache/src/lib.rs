// Kani harnesses for cascette-cache (C09 accelerated helpers, C20 path kernels).
#![allow(dead_code, unused_imports, static_mut_refs)]

#[cfg(kani)]
#[path = "../../common/uf.rs"]
pub mod uf;

#[cfg(kani)]
mod c09_simd;
#[cfg(kani)]
mod c07_validation;
