// C09 — hardware-accelerated compare / search / fill / copy helpers return exactly what the
// portable fallbacks (and std) return, for EVERY CpuFeatures subset (symbolic flags, not just the
// host's), with buffer lengths symbolic around the 16/32-byte vector widths.
use cascette_cache::simd::{CpuFeatures, SimdHashOperations, SimdMemoryOps};
use std::cmp::Ordering;

fn any_features() -> CpuFeatures {
    CpuFeatures {
        sse2: kani::any(),
        sse4_1: kani::any(),
        avx2: kani::any(),
        avx512: kani::any(),
    }
}

fn ord(o: Ordering) -> i8 {
    match o {
        Ordering::Less => -1,
        Ordering::Equal => 0,
        Ordering::Greater => 1,
    }
}

// reference lexicographic compare, loop-free per position via "first difference" quantifier:
// a < b  iff  exists i: a[..i]==b[..i] and a[i]<b[i]; implemented as a bounded scan.
fn ref_cmp<const N: usize>(a: &[u8; N], b: &[u8; N], len: usize) -> i8 {
    let mut i = 0;
    while i < N {
        if i < len && a[i] != b[i] {
            return if a[i] < b[i] { -1 } else { 1 };
        }
        i += 1;
    }
    0
}

macro_rules! memcmp_h {
    ($name:ident, $n:expr) => {
        #[kani::proof]
        #[kani::unwind(70)]
        fn $name() {
            const N: usize = $n;
            let f = any_features();
            let a: [u8; N] = kani::any();
            let b: [u8; N] = kani::any();
            let la: usize = kani::any();
            let lb: usize = kani::any();
            kani::assume(la <= N && lb <= N);
            let got = ord(f.vectorized_memcmp(&a[..la], &b[..lb]));
            let got2 = ord(f.simd_memcmp(&a[..la], &b[..lb]));
            let scalar = ord(CpuFeatures::none().vectorized_memcmp(&a[..la], &b[..lb]));
            assert!(got == scalar, "vectorized_memcmp differs from the portable fallback");
            assert!(got2 == got, "simd_memcmp differs from vectorized_memcmp");
            if la == lb {
                assert!(got == ref_cmp(&a, &b, la), "equal-length compare differs from lexicographic order");
            }
            kani::cover!(f.avx2 && la == lb && la == N && got != 0, "AVX2 path finds a difference");
            kani::cover!(!f.avx2 && f.sse2 && la == lb && la == N && got == 0, "SSE2 path, equal buffers");
        }
    };
}
// @family prop=C09 tier=quick timeout=900 role=simd-memcmp
// @bounds both buffers of symbolic length 0..=N (N in the name: 33 covers one AVX2 vector + tail, 2 SSE2 vectors + tail), all bytes symbolic, all 16 CpuFeatures subsets
// @encodes cascette_cache::simd::CpuFeatures::vectorized_memcmp, cascette_cache::simd::simd_memcmp_avx2, cascette_cache::simd::simd_memcmp_sse2, cascette_cache::simd::CpuFeatures::simd_memcmp
// @catches wrong mask constant, trailing/leading zero mix-up, tail start off by a vector, signed byte compare
memcmp_h!(c09_simd_memcmp_le33, 33);
// @end
// @family prop=C09 tier=thorough timeout=3000 mem=24 role=simd-memcmp-long
// @bounds as above with N = 66 (two AVX2 vectors + tail)
// @encodes cascette_cache::simd::CpuFeatures::vectorized_memcmp
memcmp_h!(c09_simd_memcmp_le66, 66);
// @end

// memmem: haystack length and all bytes symbolic; needle length fixed per harness (4 is the
// shortest needle that enters the vector paths), feature set fixed per harness.
macro_rules! memmem_h {
    ($name:ident, $h:expr, $n:expr, $sse2:expr, $avx2:expr) => {
        #[kani::proof]
        #[kani::unwind(36)]
        fn $name() {
            const H: usize = $h;
            const NL: usize = $n;
            let f = CpuFeatures { sse2: $sse2, sse4_1: kani::any(), avx2: $avx2, avx512: kani::any() };
            let hay: [u8; H] = kani::any();
            let nee: [u8; NL] = kani::any();
            let lh: usize = kani::any();
            kani::assume(lh <= H);
            let got = f.vectorized_memmem(&hay[..lh], &nee[..]);
            // specification: the smallest p with hay[p..p+NL] == needle, else None
            match got {
                Some(p) => {
                    assert!(p + NL <= lh, "match position out of range");
                    let t: usize = kani::any();
                    kani::assume(t < NL);
                    assert!(hay[p + t] == nee[t], "reported position is not a match");
                    // no earlier match: any q < p must differ somewhere
                    let q: usize = kani::any();
                    kani::assume(q < p);
                    let mut same = true;
                    let mut t = 0;
                    while t < NL {
                        same &= hay[q + t] == nee[t];
                        t += 1;
                    }
                    assert!(!same, "an earlier match was skipped");
                }
                None => {
                    // no match anywhere
                    let q: usize = kani::any();
                    kani::assume(q <= H && q + NL <= lh);
                    let mut same = true;
                    let mut t = 0;
                    while t < NL {
                        same &= hay[q + t] == nee[t];
                        t += 1;
                    }
                    assert!(!same, "existing match not found");
                }
            }
            kani::cover!(got.is_some() && got != Some(0) && lh == H, "later match in a full-length haystack");
            kani::cover!(got.is_none() && lh == H, "no match in a full-length haystack");
        }
    };
}
// @family prop=C09 tier=quick timeout=1200 mem=24 role=simd-memmem
// @bounds haystack length 0..=H symbolic (H in the name), needle length fixed (name), all bytes symbolic; feature set per harness: sse2-only / avx2 / none
// @encodes cascette_cache::simd::CpuFeatures::vectorized_memmem, cascette_cache::simd::simd_memmem_avx2, cascette_cache::simd::simd_memmem_sse2
// @catches candidate past the end accepted, tail scan starting one vector late, later match reported before an earlier one, match in the tail missed
memmem_h!(c09_simd_memmem_sse2_h18_n4, 18, 4, true, false);
memmem_h!(c09_simd_memmem_avx2_h34_n4, 34, 4, true, true);
memmem_h!(c09_simd_memmem_scalar_h10_n3, 10, 3, false, false);
// @end

// @harness prop=C09 tier=quick timeout=900 role=simd-memset-memcpy
// @bounds destination/source lengths 0..=35 symbolic, all CpuFeatures subsets
// @encodes cascette_cache::simd::CpuFeatures::simd_memset, cascette_cache::simd::CpuFeatures::simd_memcpy, cascette_cache::simd::simd_memset_avx2, cascette_cache::simd::simd_memset_sse2, cascette_cache::simd::simd_memcpy_avx2, cascette_cache::simd::simd_memcpy_sse2
// @catches tail not filled, write past len, copy of max instead of min length
#[kani::proof]
#[kani::unwind(38)]
fn c09_simd_memset_memcpy_le35() {
    const N: usize = 35;
    let f = any_features();
    let orig: [u8; N] = kani::any();
    let src: [u8; N] = kani::any();
    let ld: usize = kani::any();
    let ls: usize = kani::any();
    let v: u8 = kani::any();
    kani::assume(ld <= N && ls <= N);
    let t: usize = kani::any();
    kani::assume(t < N);

    let mut d = orig;
    f.simd_memset(&mut d[..ld], v);
    assert!(d[t] == if t < ld { v } else { orig[t] }, "simd_memset result differs from fill");

    let mut d = orig;
    f.simd_memcpy(&mut d[..ld], &src[..ls]);
    let m = if ld < ls { ld } else { ls };
    assert!(d[t] == if t < m { src[t] } else { orig[t] }, "simd_memcpy result differs from copy of min(len)");
    kani::cover!(f.avx2 && ld == 35, "AVX2 path with tail");
    kani::cover!(!f.avx2 && f.sse2 && ld == 17 && ls == 35, "SSE2 path with tail");
}

// @harness prop=C09 tier=quick timeout=900 role=simd-batch-mem-equal
// @bounds 2 pairs, lengths 0..=34 symbolic, all CpuFeatures subsets
// @encodes cascette_cache::simd::CpuFeatures::batch_mem_equal, cascette_cache::simd::batch_mem_equal_avx2, cascette_cache::simd::batch_mem_equal_sse2
// @catches difference in the tail ignored, length mismatch treated as equal, result order
#[kani::proof]
#[kani::unwind(38)]
fn c09_simd_batch_mem_equal_le34() {
    const N: usize = 34;
    let f = any_features();
    let a: [u8; N] = kani::any();
    let b: [u8; N] = kani::any();
    let (la, lb): (usize, usize) = (kani::any(), kani::any());
    kani::assume(la <= N && lb <= N);
    let c: [u8; 3] = kani::any();
    let d: [u8; 3] = kani::any();
    let pairs: [(&[u8], &[u8]); 2] = [(&a[..la], &b[..lb]), (&c[..], &d[..])];
    let got = f.batch_mem_equal(&pairs);
    assert!(got.len() == 2, "one result per pair");
    let want0 = la == lb && ref_cmp(&a, &b, la) == 0;
    let want1 = c[0] == d[0] && c[1] == d[1] && c[2] == d[2];
    assert!(got[0] == want0, "batch_mem_equal[0] differs from slice equality");
    assert!(got[1] == want1, "batch_mem_equal[1] differs from slice equality");
    kani::cover!(f.avx2 && la == 34 && lb == 34 && !want0, "AVX2: unequal 34-byte pair");
    kani::cover!(f.sse2 && !f.avx2 && la == 34 && lb == 34 && want0, "SSE2: equal 34-byte pair");
    std::mem::forget(got);
}
