// I/O trace model for crash-consistency checks (C06).
//
// The real save routine runs symbolically; every std::fs operation it performs is replaced (by
// #[kani::stub]) with a recorder that (a) may fail nondeterministically (I/O fault injection, short
// writes) and (b) updates a small trace state.  The harness then asserts the ATOMIC-REPLACE
// PROTOCOL on the trace, which is a sufficient condition for "a crash at any instant leaves the
// old or the new file" under POSIX semantics (rename is atomic; data of a file is durable once
// fsync returned; anything written but not fsynced may be lost, truncated or zero-filled):
//
//   I1  the final path is never created/truncated/written in place;
//   I2  when `rename(tmp -> final)` is issued, every write to that tmp file has succeeded, the file
//       has been fsynced AFTER its last write, and no operation on it has failed;
//   I3  no write reaches the renamed file after the rename (nothing buffered is flushed late);
//   I4  the routine reports Ok only if the rename succeeded, and a failed attempt never renames.
//
// Crash points: before the rename the final path still names the old file (I1); the rename is
// atomic; after it the final path names a file whose complete content was durable before the
// rename (I2) and is never modified again (I3).  Hence every crash point yields old or new.

use std::fs::File;
use std::io;
use std::os::fd::{AsRawFd, FromRawFd};
use std::path::Path;

pub const MAXF: usize = 4;
pub const FD_BASE: i32 = 100;

#[derive(Clone, Copy)]
pub struct FileRec {
    pub kind: u8, // 0 other, 1 final path, 2 temp path
    pub written: usize,
    pub writes: usize,
    pub synced_after_last_write: bool,
    pub ever_synced: bool,
    pub failed: bool,
    pub renamed_to_final: bool,
    pub write_after_rename: bool,
    pub removed: bool,
}

pub struct Fs {
    pub nfiles: usize,
    pub files: [FileRec; MAXF],
    pub faults: bool,          // inject failures
    pub fault_budget: usize,   // at most this many injected failures
    pub short_budget: usize,   // at most this many short writes
    pub final_created: bool,   // I1 violation witness
    pub renames_ok: usize,
    pub rename_violation: bool, // I2 violation witness
    pub rename_src_missing: bool,
    pub ops: usize,
    pub final_path: &'static [u8],
}

const EMPTY: FileRec = FileRec {
    kind: 0,
    written: 0,
    writes: 0,
    synced_after_last_write: false,
    ever_synced: false,
    failed: false,
    renamed_to_final: false,
    write_after_rename: false,
    removed: false,
};

pub static mut FS: Fs = Fs {
    nfiles: 0,
    files: [EMPTY; MAXF],
    faults: false,
    fault_budget: 0,
    short_budget: 0,
    final_created: false,
    renames_ok: 0,
    rename_violation: false,
    rename_src_missing: false,
    ops: 0,
    final_path: b"",
};

// loop-free (the global unwind bound must stay tiny: binrw::Error has recursive drop glue)
fn byte_at(b: &[u8], i: usize) -> u8 {
    if i < b.len() { b[i] } else { 0 }
}
fn classify(p: &Path) -> u8 {
    let b = p.as_os_str().as_encoded_bytes();
    let f = unsafe { FS.final_path };
    assert!(f.len() <= 8, "fs trace model: final path longer than 8 bytes");
    if b.len() == f.len()
        && byte_at(b, 0) == byte_at(f, 0)
        && byte_at(b, 1) == byte_at(f, 1)
        && byte_at(b, 2) == byte_at(f, 2)
        && byte_at(b, 3) == byte_at(f, 3)
        && byte_at(b, 4) == byte_at(f, 4)
        && byte_at(b, 5) == byte_at(f, 5)
        && byte_at(b, 6) == byte_at(f, 6)
        && byte_at(b, 7) == byte_at(f, 7)
    {
        return 1;
    }
    if b.len() >= 4 && b[b.len() - 4] == b'.' && b[b.len() - 3] == b't' && b[b.len() - 2] == b'm' && b[b.len() - 1] == b'p' {
        return 2;
    }
    0
}

fn inject() -> bool {
    unsafe {
        FS.ops += 1;
        if FS.faults && FS.fault_budget > 0 && kani::any::<bool>() {
            FS.fault_budget -= 1;
            return true;
        }
    }
    false
}

fn err() -> io::Error {
    io::Error::from(io::ErrorKind::Other)
}

fn fid_of(fd: i32) -> usize {
    let k = (fd - FD_BASE) as usize;
    assert!(k < MAXF, "unknown file descriptor");
    k
}

/// newest not-removed temp file record
fn latest_temp() -> Option<usize> {
    unsafe {
        let n = FS.nfiles;
        if n > 3 && FS.files[3].kind == 2 && !FS.files[3].removed {
            return Some(3);
        }
        if n > 2 && FS.files[2].kind == 2 && !FS.files[2].removed {
            return Some(2);
        }
        if n > 1 && FS.files[1].kind == 2 && !FS.files[1].removed {
            return Some(1);
        }
        if n > 0 && FS.files[0].kind == 2 && !FS.files[0].removed {
            return Some(0);
        }
    }
    None
}

// ---- stubs ------------------------------------------------------------------------------------
pub fn file_create<P: AsRef<Path>>(path: P) -> io::Result<File> {
    let kind = classify(path.as_ref());
    if kind == 1 {
        unsafe { FS.final_created = true };
    }
    if inject() {
        return Err(err());
    }
    unsafe {
        assert!(FS.nfiles < MAXF, "fs trace: too many files");
        let k = FS.nfiles;
        FS.files[k] = EMPTY;
        FS.files[k].kind = kind;
        FS.nfiles += 1;
        Ok(File::from_raw_fd(FD_BASE + k as i32))
    }
}

fn do_write(fd: i32, len: usize) -> io::Result<usize> {
    let k = fid_of(fd);
    unsafe {
        if FS.files[k].renamed_to_final {
            FS.files[k].write_after_rename = true;
        }
        if inject() {
            FS.files[k].failed = true;
            return Err(err());
        }
        if len == 0 {
            return Ok(0);
        }
        // short writes allowed (at most `short_budget` of them, so write_all loops stay bounded)
        let mut n: usize = len;
        if FS.faults && FS.short_budget > 0 && kani::any::<bool>() {
            FS.short_budget -= 1;
            n = kani::any();
            kani::assume(n >= 1 && n <= len);
        }
        FS.files[k].written += n;
        FS.files[k].writes += 1;
        FS.files[k].synced_after_last_write = false;
        Ok(n)
    }
}

pub fn file_write(f: &mut File, buf: &[u8]) -> io::Result<usize> {
    do_write(f.as_raw_fd(), buf.len())
}
pub fn fileref_write<'a>(f: &mut &'a File, buf: &[u8]) -> io::Result<usize>
where
    'a: 'a,
{
    do_write(f.as_raw_fd(), buf.len())
}
pub fn file_flush(_f: &mut File) -> io::Result<()> {
    Ok(())
}
pub fn fileref_flush<'a>(_f: &mut &'a File) -> io::Result<()>
where
    'a: 'a,
{
    Ok(())
}

fn do_seek(fd: i32, pos: io::SeekFrom) -> io::Result<u64> {
    let k = fid_of(fd);
    unsafe {
        let w = FS.files[k].written as u64;
        // the model is append-only: only position queries / no-op seeks are supported
        let ok = match pos {
            io::SeekFrom::Current(0) | io::SeekFrom::End(0) => true,
            io::SeekFrom::Start(n) => n == w,
            _ => false,
        };
        assert!(ok, "fs trace model: repositioning seek is not modelled");
        Ok(w)
    }
}
pub fn file_seek(f: &mut File, pos: io::SeekFrom) -> io::Result<u64> {
    do_seek(f.as_raw_fd(), pos)
}
pub fn fileref_seek<'a>(f: &mut &'a File, pos: io::SeekFrom) -> io::Result<u64>
where
    'a: 'a,
{
    do_seek(f.as_raw_fd(), pos)
}

pub fn file_sync_all(f: &File) -> io::Result<()> {
    let k = fid_of(f.as_raw_fd());
    unsafe {
        if inject() {
            FS.files[k].failed = true;
            return Err(err());
        }
        FS.files[k].synced_after_last_write = true;
        FS.files[k].ever_synced = true;
    }
    Ok(())
}

pub fn fs_rename<P: AsRef<Path>, Q: AsRef<Path>>(from: P, to: Q) -> io::Result<()> {
    let (kf, kt) = (classify(from.as_ref()), classify(to.as_ref()));
    if inject() {
        return Err(err());
    }
    if kt == 1 {
        unsafe {
            match if kf == 2 { latest_temp() } else { None } {
                None => FS.rename_src_missing = true,
                Some(k) => {
                    let r = FS.files[k];
                    if r.failed || !r.synced_after_last_write || r.writes == 0 {
                        FS.rename_violation = true; // I2
                    }
                    FS.files[k].renamed_to_final = true;
                    FS.renames_ok += 1;
                }
            }
        }
    }
    Ok(())
}

pub fn fs_remove_file<P: AsRef<Path>>(path: P) -> io::Result<()> {
    let k = classify(path.as_ref());
    if k == 1 {
        unsafe { FS.final_created = true }; // deleting the only good copy is as bad as truncating it
    }
    if k == 2 {
        if let Some(t) = latest_temp() {
            unsafe {
                if !FS.files[t].renamed_to_final {
                    FS.files[t].removed = true;
                }
            }
        }
    }
    Ok(())
}

pub fn fs_create_dir_all<P: AsRef<Path>>(_path: P) -> io::Result<()> {
    if inject() {
        return Err(err());
    }
    Ok(())
}

/// Drop of the descriptor: nothing to do in the model (the real one calls close(2)).
pub fn ownedfd_drop(_fd: &mut std::os::fd::OwnedFd) {}

// ---- harness side -----------------------------------------------------------------------------
pub fn reset(final_path: &'static [u8], faults: bool, fault_budget: usize) {
    unsafe {
        FS.nfiles = 0;
        FS.faults = faults;
        FS.fault_budget = fault_budget;
        FS.short_budget = if faults { 2 } else { 0 };
        FS.final_created = false;
        FS.renames_ok = 0;
        FS.rename_violation = false;
        FS.rename_src_missing = false;
        FS.ops = 0;
        FS.final_path = final_path;
    }
}

/// Asserts I1–I4 given the routine's result.
pub fn assert_atomic_replace(result_ok: bool) {
    unsafe {
        assert!(!FS.final_created, "I1: the final path was created/truncated/removed in place");
        assert!(!FS.rename_src_missing, "I2: rename onto the final path from something that is not a live temp file");
        assert!(!FS.rename_violation, "I2: renamed a temp file that was not completely written and fsynced (or after a failed operation)");
        // unrolled (MAXF = 4): the global unwind bound of C06 harnesses must stay tiny
        assert!(!(0 < FS.nfiles && FS.files[0].write_after_rename), "I3: data written to the file after it was renamed into place");
        assert!(!(1 < FS.nfiles && FS.files[1].write_after_rename), "I3: data written to the file after it was renamed into place");
        assert!(!(2 < FS.nfiles && FS.files[2].write_after_rename), "I3: data written to the file after it was renamed into place");
        assert!(!(3 < FS.nfiles && FS.files[3].write_after_rename), "I3: data written to the file after it was renamed into place");
        if result_ok {
            assert!(FS.renames_ok >= 1, "I4: reported success without a successful rename");
        }
        assert!(FS.renames_ok <= 1, "I4: more than one rename onto the final path");
    }
}
