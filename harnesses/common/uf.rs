// Uninterpreted-function tables (Ackermann encoding) for Kani stubs.
//
// `Uf<NI, NO, N>` records up to N (input words, output words) pairs.  `apply(i)` returns fresh
// `kani::any()` words constrained to equal the output of every earlier call with equal input.  This is a sound over-approximation of *any* deterministic function: whatever the
// solver proves with the table holds for the real function.  Overflowing the table is an
// assertion failure (never a silent truncation).  Words are u64 so that one type serves all
// users; comparisons are word-wise (no memcmp).
//
// Discipline (needed for concrete playback): a harness draws all of *its* `kani::any()`
// inputs before the first call that can reach a UF stub.

#[allow(dead_code)]
pub struct Uf<const NI: usize, const NO: usize, const N: usize> {
    pub n: usize,
    pub inp: [[u64; NI]; N],
    pub out: [[u64; NO]; N],
}

#[allow(dead_code)]
impl<const NI: usize, const NO: usize, const N: usize> Uf<NI, NO, N> {
    pub const fn new() -> Self {
        Self {
            n: 0,
            inp: [[0; NI]; N],
            out: [[0; NO]; N],
        }
    }

    #[inline(never)]
    fn same(a: &[u64; NI], b: &[u64; NI]) -> bool {
        let mut eq = true;
        let mut j = 0;
        while j < NI {
            eq &= a[j] == b[j];
            j += 1;
        }
        eq
    }

    /// `mask[j]` bounds the j-th output word (e.g. 0xFFFF_FFFF for a u32 output).
    pub fn apply(&mut self, i: [u64; NI], mask: [u64; NO]) -> [u64; NO] {
        self.apply_opt(i, mask, false)
    }

    /// Ideal-hash flavour: additionally injective on the recorded inputs.
    pub fn apply_injective(&mut self, i: [u64; NI], mask: [u64; NO]) -> [u64; NO] {
        self.apply_opt(i, mask, true)
    }

    // Every call appends one row (so `n` and all indices stay concrete for the solver); the
    // fresh output is constrained to agree with every earlier row that has the same input.
    fn apply_opt(&mut self, i: [u64; NI], mask: [u64; NO], injective: bool) -> [u64; NO] {
        assert!(self.n < N, "UF table overflow: raise N");
        let mut o = [0u64; NO];
        let mut j = 0;
        while j < NO {
            let v: u64 = kani::any();
            o[j] = v & mask[j];
            j += 1;
        }
        let mut k = 0;
        while k < self.n {
            let mut oeq = true;
            let mut j = 0;
            while j < NO {
                oeq &= self.out[k][j] == o[j];
                j += 1;
            }
            if Self::same(&self.inp[k], &i) {
                kani::assume(oeq);
            } else if injective {
                kani::assume(!oeq);
            }
            k += 1;
        }
        self.inp[self.n] = i;
        self.out[self.n] = o;
        self.n += 1;
        o
    }
}
