// Uninterpreted-function tables (Ackermann encoding) for Kani stubs.
//
// `Uf<NI, NO, N>` records up to N (input words, output words) pairs.  `apply(i)` returns fresh
// `kani::any()` words constrained to equal the output of every earlier call with equal input.  This is a sound over-approximation of *any* deterministic function: whatever the
// solver proves with the table holds for the real function.  Overflowing the table is an
// assertion failure (never a silent truncation).  Words are u64 so that one type serves all
// users; comparisons are word-wise (no memcmp).
//
// Discipline (needed for concrete playback): a harness draws all of *its* `kani::any()`
// inputs before the first call that can reach a UF stub.

#[allow(dead_code)]
pub struct Uf<const NI: usize, const NO: usize, const N: usize> {
    pub n: usize,
    pub inp: [[u64; NI]; N],
    pub out: [[u64; NO]; N],
}

#[allow(dead_code)]
impl<const NI: usize, const NO: usize, const N: usize> Uf<NI, NO, N> {
    pub const fn new() -> Self {
        Self {
            n: 0,
            inp: [[0; NI]; N],
            out: [[0; NO]; N],
        }
    }

    #[inline(never)]
    fn same(a: &[u64; NI], b: &[u64; NI]) -> bool {
        let mut eq = true;
        let mut j = 0;
        while j < NI {
            eq &= a[j] == b[j];
            j += 1;
        }
        eq
    }

    /// `mask[j]` bounds the j-th output word (e.g. 0xFFFF_FFFF for a u32 output).
    pub fn apply(&mut self, i: [u64; NI], mask: [u64; NO]) -> [u64; NO] {
        self.apply_opt(i, mask, false)
    }

    /// Ideal-hash flavour: additionally injective on the recorded inputs.
    pub fn apply_injective(&mut self, i: [u64; NI], mask: [u64; NO]) -> [u64; NO] {
        self.apply_opt(i, mask, true)
    }

    // Every call appends one row (so `n` and all indices stay concrete for the solver); the
    // fresh output is constrained to agree with every earlier row that has the same input.
    fn apply_opt(&mut self, i: [u64; NI], mask: [u64; NO], injective: bool) -> [u64; NO] {
        assert!(self.n < N, "UF table overflow: raise N");
        let mut o = [0u64; NO];
        let mut j = 0;
        while j < NO {
            let v: u64 = kani::any();
            o[j] = v & mask[j];
            j += 1;
        }
        let mut k = 0;
        while k < self.n {
            let mut oeq = true;
            let mut j = 0;
            while j < NO {
                oeq &= self.out[k][j] == o[j];
                j += 1;
            }
            if Self::same(&self.inp[k], &i) {
                kani::assume(oeq);
            } else if injective {
                kani::assume(!oeq);
            }
            k += 1;
        }
        self.inp[self.n] = i;
        self.out[self.n] = o;
        self.n += 1;
        o
    }
}

/// Lock-step uninterpreted function: the implementation's k-th call (`rec`) draws a fresh output;
/// the reference's k-th call (`chk`) draws a fresh output constrained to equal the implementation's
/// k-th output *iff* the inputs are equal.  This constrains the function on fewer input pairs
/// than full Ackermann consistency, i.e. it is a coarser (still sound) over-approximation of "any
/// deterministic function", with linear instead of quadratic cost.
#[allow(dead_code)]
pub struct LockStep<const NI: usize, const NO: usize, const N: usize> {
    pub n_rec: usize,
    pub n_chk: usize,
    pub inp: [[u64; NI]; N],
    pub out: [[u64; NO]; N],
}

#[allow(dead_code)]
impl<const NI: usize, const NO: usize, const N: usize> LockStep<NI, NO, N> {
    pub const fn new() -> Self {
        Self { n_rec: 0, n_chk: 0, inp: [[0; NI]; N], out: [[0; NO]; N] }
    }
    fn fresh(mask: [u64; NO]) -> [u64; NO] {
        let mut o = [0u64; NO];
        let mut j = 0;
        while j < NO {
            let v: u64 = kani::any();
            o[j] = v & mask[j];
            j += 1;
        }
        o
    }
    pub fn rec(&mut self, i: [u64; NI], mask: [u64; NO]) -> [u64; NO] {
        assert!(self.n_rec < N, "lock-step table overflow: raise N");
        let o = Self::fresh(mask);
        self.inp[self.n_rec] = i;
        self.out[self.n_rec] = o;
        self.n_rec += 1;
        o
    }
    pub fn chk(&mut self, i: [u64; NI], mask: [u64; NO]) -> [u64; NO] {
        let o = Self::fresh(mask);
        if self.n_chk < self.n_rec {
            let k = self.n_chk;
            let mut ieq = true;
            let mut j = 0;
            while j < NI {
                ieq &= self.inp[k][j] == i[j];
                j += 1;
            }
            if ieq {
                let mut j = 0;
                while j < NO {
                    kani::assume(o[j] == self.out[k][j]);
                    j += 1;
                }
            }
        }
        self.n_chk += 1;
        o
    }
}
