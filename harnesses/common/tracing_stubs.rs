// Neutralises `tracing` (any reachable debug!/info!/warn! otherwise crashes kani-compiler 0.68:
// thread_local destructor ICE).  Apply all three to every harness that reaches logging code:
//
//   #[kani::stub(tracing_core::callsite::DefaultCallsite::interest, crate::tracing_stubs::interest_never)]
//   #[kani::stub(tracing::__macro_support::__is_enabled, crate::tracing_stubs::is_enabled_false)]
//   #[kani::stub(tracing_core::event::Event::dispatch, crate::tracing_stubs::dispatch_nop)]

#[allow(dead_code)]
pub fn interest_never(_c: &tracing_core::callsite::DefaultCallsite) -> tracing_core::subscriber::Interest {
    tracing_core::subscriber::Interest::never()
}

#[allow(dead_code)]
pub fn is_enabled_false(_m: &'static tracing_core::Metadata<'static>, _i: tracing_core::subscriber::Interest) -> bool {
    false
}

#[allow(dead_code)]
pub fn dispatch_nop<'a>(_m: &'static tracing_core::Metadata<'static>, _f: &'a tracing_core::field::ValueSet<'_>)
where
    'a: 'a,
{
}
