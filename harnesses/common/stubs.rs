// Environment stubs shared by the harness crates.

/// `alloc::fmt::format` -> empty string: used wherever formatted text is only an error message.
#[allow(dead_code)]
pub fn fmt_format_empty(_args: core::fmt::Arguments<'_>) -> String {
    String::new()
}

/// Fixed SipHash keys for std HashMap/HashSet (map contract is independent of the keys).
#[allow(dead_code)]
pub fn fixed_random_state() -> std::hash::RandomState {
    // RandomState is { k0: u64, k1: u64 }
    unsafe { core::mem::transmute::<(u64, u64), std::hash::RandomState>((0x0706050403020100, 0x0f0e0d0c0b0a0908)) }
}

/// `alloc::fmt::format` -> failed check + end of path.  For harnesses where every `format!` sits on an
/// error path that must be unreachable (e.g. all I/O succeeds): reaching it is reported, and the path is
/// cut BEFORE the error value's (recursive, exploding) drop glue.
#[allow(dead_code)]
pub fn fmt_format_unreachable(_args: core::fmt::Arguments<'_>) -> String {
    panic!("error path reached: a format!() call was executed")
}

