// Kani harnesses for cascette-client-storage.
#![allow(dead_code, unused_imports, static_mut_refs)]
#![cfg_attr(kani, feature(allocator_api))]

#[cfg(kani)]
#[path = "../../common/uf.rs"]
pub mod uf;
#[cfg(kani)]
#[path = "../../common/stubs.rs"]
pub mod stubs;
#[cfg(kani)]
#[path = "../../common/tracing_stubs.rs"]
pub mod tracing_stubs;
#[cfg(kani)]
mod c05_update;
#[cfg(kani)]
mod c05_index;
#[cfg(kani)]
mod c05_residency;
