use crate::c05_update::*;
use cascette_client_storage::index::update::*;

// @harness prop=C05 tier=thorough timeout=300 role=diag
#[kani::proof]
#[kani::unwind(10)]
fn c05_diag_a() {
    // concrete entries: are the loops decided?
    let mut s = UpdateSection::new();
    let e = any_entry();
    s.append(e.clone());
    s.append(e.clone());
    s.append(e.clone());
    assert!(s.page_count() == 2);
    assert!(s.entry_count() == 3);
    std::mem::forget((s, e));
}

// @harness prop=C05 tier=thorough timeout=300 role=diag
#[kani::proof]
#[kani::unwind(10)]
fn c05_diag_b() {
    let mut v: Vec<Vec<u32>> = Vec::new();
    let x: u32 = kani::any();
    v.push(vec![x, x]);
    v.push(vec![x]);
    let mut n = 0;
    for p in v.iter().rev() {
        for q in p.iter().rev() {
            if *q == 7 { n += 1; }
        }
    }
    assert!(n <= 3);
    std::mem::forget(v);
}
