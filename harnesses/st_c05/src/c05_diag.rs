use std::collections::BTreeMap;

// @harness prop=C05 tier=thorough timeout=300 role=diag
#[kani::proof]
#[kani::unwind(6)]
fn c05_diag_a() {
    let x: u32 = kani::any();
    let mut m: BTreeMap<u8, (usize, Vec<u32>)> = BTreeMap::new();
    m.insert(1, (2, Vec::with_capacity(2)));
    let e = m.get_mut(&1).unwrap();
    let mut i = 0;
    let mut n = 0;
    while i < e.0 {
        if x == i as u32 { n += 1; }
        i += 1;
    }
    assert!(n <= 2);
    std::mem::forget(m);
}
