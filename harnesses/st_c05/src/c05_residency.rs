// C05 (3) — ResidencyDb: a key is reported resident exactly when its latest mark says so.
//
// Histories with concrete (operation, key) sequences — one harness per sequence — over a 4-key
// alphabet; span offset/length symbolic.  Every step is followed by is_resident of all four keys and
// entry_count, the history by scan_keys, all compared with a "last mark per key" model.
// (Key choice symbolic per step was measured infeasible: the 16-bucket scans are then unrolled to the
// global bound with opaque page shapes.)
use cascette_client_storage::kmt::key_state::{ResidencyDb, ResidencyEntry};

// R0, R1 in bucket 1 with different first 8 bytes; R2 = first 8 bytes of R0 (same MurmurHash3 filter
// slot) but bucket 3; R3 = first 8 bytes of R0 and bucket 1 (same filter slot, same bucket page).
pub const RK: [[u8; 16]; 4] = [
    [1, 0, 0, 0, 0, 0, 0, 0, 0, 0, 0, 0, 0, 0, 0, 0],
    [0, 1, 0, 0, 0, 0, 0, 0, 0, 0, 0, 0, 0, 0, 0, 0],
    [1, 0, 0, 0, 0, 0, 0, 0, 0, 2, 0, 0, 0, 0, 0, 0],
    [1, 0, 0, 0, 0, 0, 0, 0, 0, 0x22, 0x22, 0, 0, 0, 0, 0],
];

#[derive(Clone, Copy, PartialEq, Eq)]
pub enum St {
    Absent,
    Resident,
    Deleted,
    SpanNr,
}
#[derive(Clone, Copy, PartialEq, Eq)]
pub enum Op {
    MarkR(usize),
    MarkNr(usize),
    Span(usize),
    Del1(usize),
    Del2(usize, usize),
}

pub struct RHist {
    pub db: ResidencyDb,
    pub st: [St; 4],
}

fn same16(a: &[u8; 16], b: &[u8; 16]) -> bool {
    let mut i = 0;
    let mut r = true;
    while i < 16 {
        r &= a[i] == b[i];
        i += 1;
    }
    r
}

impl RHist {
    pub fn new() -> Self {
        Self { db: ResidencyDb::new(std::path::PathBuf::new()), st: [St::Absent; 4] }
    }
    pub fn step(&mut self, op: Op, off: i32, len: i32) {
        match op {
            Op::MarkR(k) => {
                self.db.mark_resident(&RK[k]);
                self.st[k] = St::Resident;
            }
            Op::MarkNr(k) => {
                self.db.mark_non_resident(&RK[k]);
                self.st[k] = St::Deleted;
            }
            Op::Span(k) => {
                self.db.mark_span_non_resident(&RK[k], off, len);
                self.st[k] = St::SpanNr;
            }
            Op::Del1(k) => {
                self.db.delete_keys(&[RK[k]]);
                self.st[k] = St::Deleted;
            }
            Op::Del2(a, b) => {
                self.db.delete_keys(&[RK[a], RK[b]]);
                self.st[a] = St::Deleted;
                self.st[b] = St::Deleted;
            }
        }
        self.observe_keys();
    }
    /// is_resident of all four keys (single-bucket scans only)
    pub fn observe_keys(&self) {
        let mut k = 0;
        while k < 4 {
            assert!(self.db.is_resident(&RK[k]) == (self.st[k] == St::Resident), "is_resident must equal the latest mark of the key");
            k += 1;
        }
    }
    pub fn observe(&self) {
        let mut live = 0;
        let mut k = 0;
        while k < 4 {
            assert!(self.db.is_resident(&RK[k]) == (self.st[k] == St::Resident), "is_resident must equal the latest mark of the key");
            if self.st[k] == St::Resident || self.st[k] == St::SpanNr {
                live += 1;
            }
            k += 1;
        }
        assert!(self.db.entry_count() == live, "entry_count = keys whose latest mark is resident or span-non-resident");
    }
    pub fn observe_scan(&self) {
        let keys = self.db.scan_keys();
        let mut want = 0;
        let mut k = 0;
        while k < 4 {
            if self.st[k] == St::Resident {
                want += 1;
                let mut hits = 0;
                let mut j = 0;
                while j < keys.len() {
                    if same16(&keys[j], &RK[k]) {
                        hits += 1;
                    }
                    j += 1;
                }
                assert!(hits == 1, "scan_keys must list every resident key exactly once");
            }
            k += 1;
        }
        assert!(keys.len() == want, "scan_keys must list only resident keys");
        std::mem::forget(keys);
    }
}

macro_rules! res_history {
    ($name:ident, [$($op:expr),+]) => {
        #[kani::proof]
        #[kani::unwind(18)]
        #[kani::stub(std::fmt::format, crate::stubs::fmt_format_empty)]
        #[kani::stub(tracing_core::callsite::DefaultCallsite::interest, crate::tracing_stubs::interest_never)]
        #[kani::stub(tracing::__macro_support::__is_enabled, crate::tracing_stubs::is_enabled_false)]
        #[kani::stub(tracing_core::event::Event::dispatch, crate::tracing_stubs::dispatch_nop)]
        fn $name() {
            use Op::*;
            let off: i32 = kani::any();
            let len: i32 = kani::any();
            let mut h = RHist::new();
            $( h.step($op, off, len); )+
            kani::cover!(off < 0 && len == i32::MAX, "span at the field limits");
            std::mem::forget(h);
        }
    };
}

// @harness prop=C05 tier=quick timeout=300 role=residency-bucket-hash
// @bounds any 16-byte key; the four alphabet keys
// @encodes cascette_client_storage::kmt::key_state::ResidencyEntry::bucket_hash
// @catches bucket hash over the wrong byte range / wrong fold; documents the alphabet layout (R0,R1,R3 bucket 1, R2 bucket 3)
#[kani::proof]
#[kani::unwind(18)]
fn c05_residency_bucket_hash() {
    let k: [u8; 16] = kani::any();
    let x = k[0] ^ k[1] ^ k[2] ^ k[3] ^ k[4] ^ k[5] ^ k[6] ^ k[7] ^ k[8] ^ k[9] ^ k[10] ^ k[11] ^ k[12] ^ k[13] ^ k[14] ^ k[15];
    let b = ResidencyEntry::bucket_hash(&k);
    assert!(b == ((x >> 4) ^ (x & 0x0F)), "bucket = xor of all 16 key bytes, nibbles folded");
    assert!(ResidencyEntry::bucket_hash(&RK[0]) == 1 && ResidencyEntry::bucket_hash(&RK[1]) == 1, "alphabet layout");
    assert!(ResidencyEntry::bucket_hash(&RK[2]) == 3 && ResidencyEntry::bucket_hash(&RK[3]) == 1, "alphabet layout");
    kani::cover!(b == 15, "last bucket");
}

// NOT REGISTERED (measured): `buckets: [Vec<ResidencyPage>; 16]` — the Vec lengths inside the array are
// opaque to CBMC's constant propagation (same NonNull effect as in the index map), so every scan is
// unrolled 16 x 17 x 17 times; [MarkR, MarkNr, MarkR] with is_resident + entry_count after each step:
// symex not finished in 900 s; with is_resident only: not finished in 700 s.
// family prop=C05 tier=quick timeout=900 role=residency-history
// bounds: concrete (operation, key) sequences of 2..=4 steps (listed per harness) over 4 keys: R0,R1 same bucket; R2 same first 8 bytes as R0 (same murmur filter slot) in another bucket; R3 same filter slot and same bucket as R0; span offset/length symbolic (full i32); after every step is_resident of all 4 keys + entry_count, at the end scan_keys
// encodes: cascette_client_storage::kmt::key_state::ResidencyDb::mark_resident, cascette_client_storage::kmt::key_state::ResidencyDb::mark_non_resident, cascette_client_storage::kmt::key_state::ResidencyDb::mark_span_non_resident, cascette_client_storage::kmt::key_state::ResidencyDb::delete_keys, cascette_client_storage::kmt::key_state::ResidencyDb::is_resident, cascette_client_storage::kmt::key_state::ResidencyDb::entry_count, cascette_client_storage::kmt::key_state::ResidencyDb::scan_keys, cascette_client_storage::kmt::key_state::ResidencyDb::insert_entry, cascette_client_storage::kmt::key_state::ResidencyDb::update_hash_index_for_key
// assumes: key choice concrete per harness (symbolic key choice does not finish); real murmurhash3_finalize and hashlittle; delete_keys below BATCH_DELETE_THRESHOLD (the >10000-key batch path builds a std HashSet: outside); save/load not exercised
// catches: in-place overwrite not keeping the filter in sync (re-mark after unmark reported non-resident), filter false negative for keys sharing 8 bytes, wrong bucket scanned, duplicate entry on re-mark (entry_count / scan_keys), span-non-resident counted as resident, delete of one key hitting its bucket neighbour
// (instantiate e.g. `res_history!(c05_residency_h_mark_unmark_remark, [MarkR(0), MarkNr(0), MarkR(0)]);` to re-measure)
