// C05 (1) — update-section records: UpdateEntry / UpdatePage / UpdateSection, one-step level.
//
// The section constants are the cfg(kani) scale model of /repo (hook H3): UPDATE_PAGE_SIZE = 56
// (2 entries + 8 slack bytes, like 512 = 21*24 + 8), MIN_UPDATE_SECTION_SIZE = 112 (2 pages), so a
// section holds 4 entries and "page full" / "section full" are 2 / 4 appends away.
use cascette_client_storage::index::update::{
    ENTRIES_PER_PAGE, MIN_UPDATE_SECTION_SIZE, UPDATE_ENTRY_SIZE, UPDATE_PAGE_SIZE, UpdateEntry, UpdatePage,
    UpdateSection, UpdateStatus,
};
use cascette_client_storage::index::ArchiveLocation;

pub fn any_status() -> UpdateStatus {
    let s: u8 = kani::any();
    match s & 3 {
        0 => UpdateStatus::Normal,
        1 => UpdateStatus::Delete,
        2 => UpdateStatus::HeaderNonResident,
        _ => UpdateStatus::DataNonResident,
    }
}

fn status_byte(s: UpdateStatus) -> u8 {
    match s {
        UpdateStatus::Normal => 0,
        UpdateStatus::Delete => 3,
        UpdateStatus::HeaderNonResident => 6,
        UpdateStatus::DataNonResident => 7,
    }
}

/// Symbolic entry within the field limits of the on-disk format (id <= 1023, offset < 2^30).
pub fn any_entry() -> UpdateEntry {
    let ekey: [u8; 9] = kani::any();
    let id: u16 = kani::any();
    let off: u32 = kani::any();
    let size: u32 = kani::any();
    kani::assume(id <= 1023 && off < (1 << 30));
    UpdateEntry::new(ekey, ArchiveLocation { archive_id: id, archive_offset: off }, size, any_status())
}

pub fn same_key(a: &[u8; 9], b: &[u8; 9]) -> bool {
    a[0] == b[0] && a[1] == b[1] && a[2] == b[2] && a[3] == b[3] && a[4] == b[4] && a[5] == b[5] && a[6] == b[6] && a[7] == b[7] && a[8] == b[8]
}

pub fn same_entry(a: &UpdateEntry, b: &UpdateEntry) -> bool {
    same_key(&a.ekey, &b.ekey)
        && a.hash_guard == b.hash_guard
        && a.archive_location.archive_id == b.archive_location.archive_id
        && a.archive_location.archive_offset == b.archive_location.archive_offset
        && a.encoded_size == b.encoded_size
        && status_byte(a.status) == status_byte(b.status)
}

/// Scalar copy of an entry (oracle bookkeeping without symbolic indexing into arrays of structs).
#[derive(Clone, Copy)]
pub struct Flat {
    pub key: [u8; 9],
    pub guard: u32,
    pub id: u16,
    pub off: u32,
    pub size: u32,
    pub st: u8,
}
pub fn flat(e: &UpdateEntry) -> Flat {
    Flat { key: e.ekey, guard: e.hash_guard, id: e.archive_location.archive_id, off: e.archive_location.archive_offset, size: e.encoded_size, st: status_byte(e.status) }
}
pub fn same_flat(a: &Flat, b: &Flat) -> bool {
    same_key(&a.key, &b.key) && a.guard == b.guard && a.id == b.id && a.off == b.off && a.size == b.size && a.st == b.st
}

// ---- UpdateEntry: byte layout and round trip ---------------------------------------------------
// @harness prop=C05 tier=quick timeout=300 role=update-entry-layout-roundtrip
// @bounds ekey 9 symbolic bytes, archive id 0..=1023, offset < 2^30, size u32, status in {0,3,6,7}: all symbolic
// @encodes cascette_client_storage::index::update::UpdateEntry::new, cascette_client_storage::index::update::UpdateEntry::to_bytes, cascette_client_storage::index::update::UpdateEntry::from_bytes, cascette_client_storage::index::update::UpdateEntry::validate_hash_guard, cascette_client_storage::index::update::UpdateEntry::to_index_entry
// @assumes archive id <= 1023 and offset < 2^30 (the 5-byte location field cannot hold more); real hashlittle (no stub)
// @catches wrong field offset / endianness / shift in the 24-byte record, id bits lost at 1023, offset bits lost at 2^30-1, status byte mapping, guard without bit 31, to_index_entry dropping or swapping a field
#[kani::proof]
#[kani::unwind(10)]
fn c05_update_entry_layout_roundtrip() {
    let e = any_entry();
    let b = e.to_bytes();
    // independent layout specification (module doc of update.rs / Agent.exe layout)
    let id = e.archive_location.archive_id;
    let off = e.archive_location.archive_offset;
    let packed: u32 = ((id as u32 & 3) << 30) | off;
    let mut spec = [0u8; 24];
    spec[0] = e.hash_guard as u8;
    spec[1] = (e.hash_guard >> 8) as u8;
    spec[2] = (e.hash_guard >> 16) as u8;
    spec[3] = (e.hash_guard >> 24) as u8;
    let mut i = 0;
    while i < 9 {
        spec[4 + i] = e.ekey[i];
        i += 1;
    }
    spec[13] = (id >> 2) as u8;
    spec[14] = (packed >> 24) as u8;
    spec[15] = (packed >> 16) as u8;
    spec[16] = (packed >> 8) as u8;
    spec[17] = packed as u8;
    spec[18] = e.encoded_size as u8;
    spec[19] = (e.encoded_size >> 8) as u8;
    spec[20] = (e.encoded_size >> 16) as u8;
    spec[21] = (e.encoded_size >> 24) as u8;
    spec[22] = status_byte(e.status);
    let j: usize = kani::any();
    kani::assume(j < UPDATE_ENTRY_SIZE);
    assert!(b[j] == spec[j], "UpdateEntry::to_bytes differs from the documented 24-byte layout");
    assert!(e.hash_guard & 0x8000_0000 != 0, "hash guard must have bit 31 set (non-empty slot marker)");
    assert!(e.validate_hash_guard(), "entry built by new() must validate");
    let p = UpdateEntry::from_bytes(&b);
    assert!(same_entry(&p, &e), "from_bytes(to_bytes(e)) != e");
    let ie = e.to_index_entry();
    assert!(
        same_key(&ie.key, &e.ekey) && ie.archive_location.archive_id == id && ie.archive_location.archive_offset == off && ie.size == e.encoded_size,
        "to_index_entry must keep key, location and size"
    );
    kani::cover!(id == 1023 && off == (1 << 30) - 1, "field limits");
    kani::cover!(status_byte(e.status) == 3, "tombstone");
}

// @harness prop=C05 tier=quick timeout=300 role=update-entry-parse-arbitrary
// @bounds 24 arbitrary bytes
// @encodes cascette_client_storage::index::update::UpdateEntry::from_bytes, cascette_client_storage::index::update::UpdateEntry::to_bytes, cascette_client_storage::index::update::UpdateStatus::from_byte
// @catches parse that reads a field from the wrong bytes (re-serialisation differs), id above 1023 or offset above 2^30-1 produced by the parser, unknown status bytes not mapped to Normal
#[kani::proof]
#[kani::unwind(5)]
fn c05_update_entry_parse_arbitrary() {
    let d: [u8; UPDATE_ENTRY_SIZE] = kani::any();
    let p = UpdateEntry::from_bytes(&d);
    assert!(p.archive_location.archive_id <= 1023 && p.archive_location.archive_offset < (1 << 30), "parsed location outside the field limits");
    let b = p.to_bytes();
    let j: usize = kani::any();
    kani::assume(j < 22);
    assert!(b[j] == d[j], "to_bytes(from_bytes(d)) changed a key/location/size/guard byte");
    let st = d[22];
    let want = if st == 3 || st == 6 || st == 7 { st } else { 0 };
    assert!(b[22] == want, "status byte: 3/6/7 kept, everything else is Normal");
    kani::cover!(st == 7, "data-non-resident status");
    kani::cover!(p.archive_location.archive_id == 1023, "max archive id parsed");
}

// ---- UpdatePage: capacity and page round trip ---------------------------------------------------
macro_rules! page_roundtrip {
    ($name:ident, $n:expr) => {
        #[kani::proof]
        #[kani::unwind(10)]
        fn $name() {
            const N: usize = $n; // pushes attempted
            let es: [UpdateEntry; 3] = [any_entry(), any_entry(), any_entry()];
            let mut page = UpdatePage::new();
            assert!(page.is_empty() && !page.is_full() && page.len() == 0, "fresh page is empty");
            let mut k = 0;
            while k < N {
                let r = page.push(es[k].clone());
                assert!(r == (k < ENTRIES_PER_PAGE), "push must succeed exactly while the page has a free slot");
                k += 1;
            }
            let stored = if N < ENTRIES_PER_PAGE { N } else { ENTRIES_PER_PAGE };
            assert!(page.len() == stored, "page length");
            assert!(page.is_full() == (stored == ENTRIES_PER_PAGE), "is_full iff ENTRIES_PER_PAGE entries");
            let bytes = page.to_bytes();
            let back = UpdatePage::from_bytes(&bytes);
            match &back {
                None => assert!(stored == 0, "a non-empty page must parse back"),
                Some(p) => {
                    assert!(p.len() == stored, "page round trip changed the entry count");
                    // concrete positions (a symbolic index into the parsed Vec gives spurious CBMC traces)
                    let mut k = 0;
                    while k < stored {
                        assert!(same_entry(&p.entries()[k], &es[k]), "page round trip changed an entry");
                        assert!(same_entry(&page.entries()[k], &es[k]), "push stored a different entry");
                        k += 1;
                    }
                }
            }
            // a buffer one byte short of a page is not a page
            assert!(UpdatePage::from_bytes(&bytes[..UPDATE_PAGE_SIZE - 1]).is_none(), "short buffer accepted as a page");
            kani::cover!(back.is_some() == (stored > 0), "page image parsed");
            std::mem::forget((back, page, es));
        }
    };
}
// @family prop=C05 tier=quick timeout=300 role=update-page-capacity-roundtrip
// @bounds N = 0..=3 pushes (name suffix) into one page of the scaled model (2 entries + 8 slack bytes); entries fully symbolic (id <= 1023, offset < 2^30); every stored slot compared
// @encodes cascette_client_storage::index::update::UpdatePage::push, cascette_client_storage::index::update::UpdatePage::is_full, cascette_client_storage::index::update::UpdatePage::to_bytes, cascette_client_storage::index::update::UpdatePage::from_bytes
// @assumes hook H3 scale model: UPDATE_PAGE_SIZE = 56 (real 512), i.e. 2 instead of 21 entries per page, same 8 slack bytes
// @catches page accepting ENTRIES_PER_PAGE+1 entries or refusing the last slot (>= vs >), slot stride/offset errors in to_bytes/from_bytes, last slot not parsed (loop bound), empty-slot detection
page_roundtrip!(c05_update_page_n0, 0);
page_roundtrip!(c05_update_page_n1, 1);
page_roundtrip!(c05_update_page_n2, 2);
page_roundtrip!(c05_update_page_n3, 3);
// @end

// ---- UpdateSection: append / search / all_entries / to_bytes / from_bytes -----------------------
const CAP: usize = (MIN_UPDATE_SECTION_SIZE / UPDATE_PAGE_SIZE) * ENTRIES_PER_PAGE;

/// Section built by `n` appends of es[0..n] (each must succeed while there is room) plus the observed
/// append of es[n]; returns (section, stored count, result of the observed append).
fn build_section(es: &[UpdateEntry; 5], n: usize) -> (UpdateSection, usize, bool) {
    let mut s = UpdateSection::new();
    assert!(s.capacity_pages() * UPDATE_PAGE_SIZE == MIN_UPDATE_SECTION_SIZE, "new() has the minimum capacity");
    let mut k = 0;
    while k < n {
        let r = s.append(es[k].clone());
        assert!(r == (k < CAP), "append must succeed exactly while the section has room");
        k += 1;
    }
    let before = if n < CAP { n } else { CAP };
    assert!(s.is_full() == (before == CAP), "is_full iff capacity_pages * ENTRIES_PER_PAGE entries");
    let r = s.append(es[n].clone());
    assert!(r == (before < CAP), "append result must say whether the entry was stored");
    (s, before + r as usize, r)
}

macro_rules! section_step {
    ($name:ident, $n:expr) => {
        #[kani::proof]
        #[kani::unwind(10)]
        fn $name() {
            const N: usize = $n; // appends before the observed one
            let es: [UpdateEntry; 5] = [any_entry(), any_entry(), any_entry(), any_entry(), any_entry()];
            let probe: [u8; 9] = kani::any();
            let (s, count, _r) = build_section(&es, N);
            assert!(s.entry_count() == count, "entry_count after append");
            assert!(s.page_count() == (count + ENTRIES_PER_PAGE - 1) / ENTRIES_PER_PAGE, "pages are filled in order");
            // search: newest stored entry with that key (independent scan over the inputs)
            let mut want: Option<Flat> = None;
            let mut newest = 0;
            let mut k = 0;
            while k < count {
                if same_key(&es[k].ekey, &probe) {
                    want = Some(flat(&es[k]));
                    newest = k;
                }
                k += 1;
            }
            let got = s.search(&probe).map(flat);
            match (&got, &want) {
                (None, None) => {}
                (Some(g), Some(w)) => assert!(same_flat(g, w), "search must return the newest entry stored for the key"),
                _ => assert!(false, "search must find a key iff an entry with that key was stored (append result vs search)"),
            }
            // all_entries: oldest first
            assert!(s.all_entries().count() == count, "all_entries length");
            {
                let mut it = s.all_entries();
                let mut k = 0;
                while k < count {
                    assert!(it.next().is_some_and(|g| same_entry(g, &es[k])), "all_entries must yield the appended entries oldest first");
                    k += 1;
                }
            }
            kani::cover!(want.is_some(), "probe key stored");
            kani::cover!(count < 2 || (want.is_some() && newest + 1 < count), "an older entry is the newest one for the probe key");
            kani::cover!(count < 2 || (same_key(&es[0].ekey, &es[count - 1].ekey) && same_key(&probe, &es[0].ekey)), "same key stored twice and probed");
            std::mem::forget((s, es));
        }
    };
}
// @family prop=C05 tier=quick timeout=600 role=update-section-append-search
// @bounds section built by N+1 = 1..=5 appends (name suffix N = appends before the observed one; scaled capacity 4, so n4 is the append into a full section); all entries fully symbolic incl. equal keys and tombstones; probe key 9 symbolic bytes; every position compared
// @encodes cascette_client_storage::index::update::UpdateSection::new, cascette_client_storage::index::update::UpdateSection::append, cascette_client_storage::index::update::UpdateSection::is_full, cascette_client_storage::index::update::UpdateSection::search, cascette_client_storage::index::update::UpdateSection::all_entries, cascette_client_storage::index::update::UpdateSection::entry_count, cascette_client_storage::index::update::UpdateSection::page_count
// @assumes hook H3 scale model: 2 pages x 2 entries instead of 60 x 21 (the code is uniform in the constants)
// @catches append reporting success without storing (or the reverse), capacity off by one page/entry, is_full wrong at the boundary, search oldest-first or pages visited in the wrong order, all_entries order
section_step!(c05_update_section_step_n0, 0);
section_step!(c05_update_section_step_n1, 1);
section_step!(c05_update_section_step_n2, 2);
section_step!(c05_update_section_step_n3, 3);
section_step!(c05_update_section_step_n4, 4);
// @end

// Stand-in for hashlittle in the byte round trips: since 69dcb3e the page parser re-computes the guard
// of every stored entry, so with the real hash the solver has to prove lookup3(x) == lookup3(x) for two
// copies of the ARX circuit per entry (n3: 577 s, n4: > 600 s).  The code only compares the stored with
// the re-computed guard, so any deterministic function does; this one is a salted xor/rotate fold (the
// salt is symbolic per run; an Ackermann-table UF needs an unwind bound that makes the parser loops
// explode).
static mut HL_SALT: u32 = 0;
fn hashlittle_fold(d: &[u8], init: u32) -> u32 {
    assert!(d.len() == 19, "guard input is bytes 4..23 of an entry");
    let w0 = u32::from_le_bytes([d[0], d[1], d[2], d[3]]);
    let w1 = u32::from_le_bytes([d[4], d[5], d[6], d[7]]);
    let w2 = u32::from_le_bytes([d[8], d[9], d[10], d[11]]);
    let w3 = u32::from_le_bytes([d[12], d[13], d[14], d[15]]);
    let w4 = u32::from_le_bytes([d[16], d[17], d[18], 0]);
    let salt = unsafe { HL_SALT };
    w0 ^ w1.rotate_left(5) ^ w2.rotate_left(11) ^ w3.rotate_left(17) ^ w4.rotate_left(23) ^ salt ^ init.rotate_left(3)
}

/// Five entries whose raw fields are all drawn before the first (possibly stubbed) hash call.
fn any_entries5() -> [UpdateEntry; 5] {
    let keys: [[u8; 9]; 5] = kani::any();
    let ids: [u16; 5] = kani::any();
    let offs: [u32; 5] = kani::any();
    let sizes: [u32; 5] = kani::any();
    let sts: [u8; 5] = kani::any();
    core::array::from_fn(|k| {
        kani::assume(ids[k] <= 1023 && offs[k] < (1 << 30));
        let st = match sts[k] & 3 {
            0 => UpdateStatus::Normal,
            1 => UpdateStatus::Delete,
            2 => UpdateStatus::HeaderNonResident,
            _ => UpdateStatus::DataNonResident,
        };
        UpdateEntry::new(keys[k], ArchiveLocation { archive_id: ids[k], archive_offset: offs[k] }, sizes[k], st)
    })
}

macro_rules! section_roundtrip_body {
    ($n:expr) => {{
        const N: usize = $n;
        unsafe { HL_SALT = kani::any() };
        let es: [UpdateEntry; 5] = any_entries5();
        let (s, count, _r) = build_section(&es, N);
        let bytes = s.to_bytes();
        assert!(bytes.len() == MIN_UPDATE_SECTION_SIZE, "section image is capacity_pages * UPDATE_PAGE_SIZE bytes");
        let t = UpdateSection::from_bytes(&bytes);
        assert!(t.capacity_pages() == s.capacity_pages(), "section round trip changed the capacity");
        assert!(t.entry_count() == count, "section round trip changed the entry count");
        {
            let mut it = t.all_entries();
            let mut k = 0;
            while k < count {
                assert!(it.next().is_some_and(|g| same_entry(g, &es[k])), "section round trip changed an entry or the order");
                k += 1;
            }
        }
        kani::cover!(t.entry_count() == count && t.page_count() == s.page_count(), "round trip complete");
        std::mem::forget((t, bytes, s, es));
    }};
}
macro_rules! section_roundtrip {
    ($name:ident, $n:expr) => {
        #[kani::proof]
        #[kani::unwind(6)]
        #[kani::stub(cascette_crypto::jenkins::hashlittle, hashlittle_fold)]
        fn $name() {
            section_roundtrip_body!($n)
        }
    };
}
// the same with the real hashlittle (cross-check that the real guard function round-trips)
macro_rules! section_roundtrip_realhash {
    ($name:ident, $n:expr) => {
        #[kani::proof]
        #[kani::unwind(6)]
        fn $name() {
            section_roundtrip_body!($n)
        }
    };
}
// @family prop=C05 tier=quick timeout=600 role=update-section-bytes-roundtrip
// @bounds section holding 1..=4 entries (name suffix N = appends before the last one; n4 = fifth append refused, 4 stored = every page full, image ends exactly at the buffer end); entries fully symbolic, built by UpdateEntry::new; every position compared
// @encodes cascette_client_storage::index::update::UpdateSection::to_bytes, cascette_client_storage::index::update::UpdateSection::from_bytes, cascette_client_storage::index::update::UpdatePage::to_bytes, cascette_client_storage::index::update::UpdatePage::from_bytes, cascette_client_storage::index::update::UpdateEntry::to_bytes, cascette_client_storage::index::update::UpdateEntry::from_bytes
// @assumes hook H3 scale model (2 pages x 2 entries, 8 slack bytes per page as in the real 512-byte page); n0 runs the real hashlittle, n1..n4 replace cascette_crypto::jenkins::hashlittle by a cheap deterministic stand-in (salted xor/rotate fold, salt symbolic; the guard's bit 31 is OR-ed in by the code itself): the parser only compares stored with re-computed guards, and with the real hash the solver must prove lookup3(x)==lookup3(x) per entry (measured: n3 577 s, n4 > 600 s)
// @catches last page dropped by from_bytes (`<` instead of `<=` at the end of the buffer), last slot of a page dropped, page stride / slot stride errors, parse continuing past the first empty page, capacity not preserved
section_roundtrip_realhash!(c05_update_section_bytes_n0, 0);
section_roundtrip!(c05_update_section_bytes_n1, 1);
section_roundtrip!(c05_update_section_bytes_n2, 2);
section_roundtrip!(c05_update_section_bytes_n3, 3);
section_roundtrip!(c05_update_section_bytes_n4, 4);
// @end
