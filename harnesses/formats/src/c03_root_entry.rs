// C03 — root lookups filter candidate entries by locale and content flags; the hash-table lookups
// (std HashMap: outside) agree with a linear scan only if this filter is exact.  Kernel: the match
// predicates on all flag values (content flags up to the 40 bits of V4 roots).
use cascette_crypto::ContentKey;
use cascette_formats::root::entry::RootEntry;
use cascette_formats::root::{ContentFlags, LocaleFlags};

// @harness prop=C03 tier=quick timeout=300 role=root-entry-match-kernel
// @bounds every 32-bit locale mask pair and every 64-bit content flag pair (V4 uses 40 bits)
// @encodes cascette_formats::root::entry::RootEntry::matches_locale, cascette_formats::root::entry::RootEntry::matches_content, cascette_formats::root::entry::RootEntry::matches, cascette_formats::root::flags::LocaleFlags::matches
// @catches content flags compared on 32 bits only (V4 bits 32..39 ignored), any-of / all-of mix-up between locale and content, locale and content swapped
#[kani::proof]
#[kani::unwind(2)]
fn c03_root_entry_match_kernel() {
    let (el, rl): (u32, u32) = (kani::any(), kani::any());
    let (ec, rc): (u64, u64) = (kani::any(), kani::any());
    let e = RootEntry::new(0, ContentKey::from_bytes([0u8; 16]), LocaleFlags(el), ContentFlags { value: ec });
    let loc = el & rl != 0; // any requested locale present
    let con = ec & rc == rc; // every requested content flag present
    assert!(e.matches_locale(LocaleFlags(rl)) == loc, "matches_locale is not 'shares a locale bit'");
    assert!(e.matches_content(ContentFlags { value: rc }) == con, "matches_content is not 'contains all requested content bits' on the full flag width");
    assert!(e.matches(LocaleFlags(rl), ContentFlags { value: rc }) == (loc && con), "matches is not the conjunction");
    kani::cover!(rc >> 32 != 0 && con, "request with a V4 high flag bit satisfied");
    kani::cover!(rc >> 32 != 0 && !con && (ec as u32 & rc as u32) == rc as u32, "only the high bits differ");
}
