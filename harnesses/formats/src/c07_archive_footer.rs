// C07 — CDN archive-index footer: every field byte that the footer hash is meant to protect is
// protected.  Corruption style (writer and validator are both the real code, so a counterexample
// replays natively with the real MD5): a footer whose hash was produced by the real
// `calculate_footer_hash` is altered in ONE protected field; `is_valid` must turn false.
use crate::uf::Uf;
use cascette_crypto::md5::ContentKey;
use cascette_formats::archive::IndexFooter;

static mut H: Uf<3, 1, 4> = Uf::new(); // the 8 digest bytes the footer keeps (injective: ideal TRUNCATED hash)

// stub for cascette_crypto::md5::ContentKey::from_data: ideal hash of the 20-byte footer image
fn ideal_content_key(data: &[u8]) -> ContentKey {
    assert!(data.len() == 20, "footer hash input must be the 20-byte padded image");
    let mut w = [0u64; 3];
    let mut i = 0;
    while i < 20 {
        w[i / 8] |= (data[i] as u64) << (8 * (i % 8));
        i += 1;
    }
    let o = unsafe { H.apply_injective(w, [u64::MAX; 1]) };
    let mut b = [0u8; 16];
    b[..8].copy_from_slice(&o[0].to_le_bytes());
    ContentKey::from_bytes(b)
}

// @harness prop=C07 tier=quick timeout=900 role=archive-footer-field-corruption
// @bounds every footer (all protected fields symbolic: version, reserved, page size, offset width, size width, key length, hash length 8, element count); one protected field replaced by a different value (which field: symbolic)
// @encodes cascette_formats::archive::index::IndexFooter::calculate_footer_hash, cascette_formats::archive::index::IndexFooter::is_valid
// @assumes MD5 (ContentKey::from_data) is an ideal hash: uninterpreted and injective on the inputs of the run (truncation to 8 bytes: only the first output word is compared, collisions of the truncated digest are excluded by the idealisation)
// @catches a protected field missing from the hash input (e.g. hashed twice instead of its neighbour), wrong field order making two fields indistinguishable, comparison of a prefix only
#[kani::proof]
#[kani::unwind(22)]
#[kani::stub(cascette_crypto::md5::ContentKey::from_data, ideal_content_key)]
fn c07_archive_footer_field_corruption() {
    // harness inputs first
    let version: u8 = kani::any();
    let reserved: [u8; 2] = kani::any();
    let page_size_kb: u8 = kani::any();
    let offset_bytes: u8 = kani::any();
    let size_bytes: u8 = kani::any();
    let ekey_length: u8 = kani::any();
    let element_count: u32 = kani::any();
    let which: u8 = kani::any();
    let nv: u8 = kani::any();
    let nc: u32 = kani::any();
    kani::assume(which < 8);

    let mut f = IndexFooter {
        toc_hash: [0; 8],
        version,
        reserved,
        page_size_kb,
        offset_bytes,
        size_bytes,
        ekey_length,
        footer_hash_bytes: 8,
        element_count,
        footer_hash: Vec::new(),
    };
    f.footer_hash = f.calculate_footer_hash();
    assert!(f.is_valid(), "a footer carrying its own freshly computed hash must be valid");

    // corrupt exactly one protected field (the stored hash stays)
    match which {
        0 => { kani::assume(nv != f.version); f.version = nv; }
        1 => { kani::assume(nv != f.reserved[0]); f.reserved[0] = nv; }
        2 => { kani::assume(nv != f.reserved[1]); f.reserved[1] = nv; }
        3 => { kani::assume(nv != f.page_size_kb); f.page_size_kb = nv; }
        4 => { kani::assume(nv != f.offset_bytes); f.offset_bytes = nv; }
        5 => { kani::assume(nv != f.size_bytes); f.size_bytes = nv; }
        6 => { kani::assume(nv != f.ekey_length); f.ekey_length = nv; }
        _ => { kani::assume(nc != f.element_count); f.element_count = nc; }
    }
    assert!(!f.is_valid(), "a protected footer field was altered but the footer hash check still accepts it");
    kani::cover!(which == 4, "offset width altered");
    kani::cover!(which == 7, "element count altered");
    std::mem::forget(f);
}
