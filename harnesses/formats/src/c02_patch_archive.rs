// C02 — patch archive: the header validator and the key reader cooperate: every header that
// `validate` accepts describes keys that fit `read_key`'s 16-byte buffer (two sites that each look
// fine alone).
use cascette_formats::patch_archive::PatchArchiveHeader;
use cascette_formats::patch_archive::verif_access::read_key;
use std::io::Cursor;

// @harness prop=C02 tier=quick timeout=600 role=patch-archive-header-validate-vs-read-key
// @bounds every header (all 10 bytes symbolic through the public fields); for an accepted header each of the three key sizes is used to read a key from a 16-byte symbolic buffer
// @encodes cascette_formats::patch_archive::header::PatchArchiveHeader::validate, cascette_formats::patch_archive::block::read_key
// @assumes read_key reached through the cfg(kani) verif_access re-export
// @catches a key-size bound dropped or applied to the wrong field in validate (read_key slices key[..size] out of a 16-byte buffer), version / block size bounds
#[kani::proof]
#[kani::unwind(18)]
#[kani::stub(std::fmt::format, crate::stubs::fmt_format_empty)]
fn c02_patch_archive_header_validate_vs_read_key() {
    let h = PatchArchiveHeader {
        magic: kani::any(),
        version: kani::any(),
        file_key_size: kani::any(),
        old_key_size: kani::any(),
        patch_key_size: kani::any(),
        block_size_bits: kani::any(),
        block_count: kani::any(),
        flags: kani::any(),
    };
    let data: [u8; 16] = kani::any();
    let which: u8 = kani::any();
    kani::assume(which < 3);
    let r = h.validate();
    let ok = r.is_ok();
    std::mem::forget(r);
    let spec_ok = h.magic[0] == b'P'
        && h.magic[1] == b'A'
        && (h.version == 1 || h.version == 2)
        && h.file_key_size >= 1
        && h.file_key_size <= 16
        && h.old_key_size >= 1
        && h.old_key_size <= 16
        && h.patch_key_size >= 1
        && h.patch_key_size <= 16
        && h.block_size_bits >= 12
        && h.block_size_bits <= 24;
    assert!(ok == spec_ok, "validate differs from the documented header constraints");
    if ok {
        let size = match which {
            0 => h.file_key_size,
            1 => h.old_key_size,
            _ => h.patch_key_size,
        };
        let mut cur = Cursor::new(&data[..]);
        // must not panic (slice out of range) for any accepted size
        let k = read_key(&mut cur, size);
        match k {
            Ok(key) => {
                let i: usize = kani::any();
                kani::assume(i < 16);
                assert!(key[i] == if i < size as usize { data[i] } else { 0 }, "read_key must return the key bytes zero-padded to 16");
            }
            Err(e) => {
                std::mem::forget(e);
                assert!(false, "read_key failed on a 16-byte buffer for an accepted key size");
            }
        }
    }
    kani::cover!(ok && which == 2 && h.patch_key_size == 16, "accepted header, 16-byte patch key");
    kani::cover!(!ok && h.patch_key_size > 16, "oversized patch key rejected");
}
