// C19 — install / download manifests select exactly the tagged files; MSB-first bit layout.
use crate::stubs::*;
use cascette_crypto::{ContentKey, EncodingKey};
use cascette_formats::download::{DownloadFileEntry, DownloadHeader, DownloadManifest, DownloadManifestBuilder, PriorityCategory};
use cascette_formats::install::{InstallFileEntry, InstallHeader, InstallManifest, InstallManifestBuilder, InstallTag, TagType};

/// Independent specification of the on-disk bit: file i lives in byte i/8, bit 0x80 >> (i%8).
fn spec_bit(mask: &[u8], i: usize) -> bool {
    let byte = i >> 3;
    byte < mask.len() && (mask[byte] >> (7 - (i & 7))) & 1 == 1
}

// ---- bit kernel -------------------------------------------------------------------------------
// @harness prop=C19 tier=quick timeout=600 role=tag-mask-sizing
// @bounds entry_count 0..=2^32 symbolic
// @encodes cascette_formats::install::InstallTag::new
// @catches mask sized n/8 instead of ceil(n/8)
#[kani::proof]
fn c19_tag_mask_sizing() {
    let n: usize = kani::any();
    kani::assume(n <= 1 << 32);
    let t = InstallTag::new(String::new(), TagType::Platform, n);
    assert!(t.bit_mask.len() * 8 >= n && t.bit_mask.len() * 8 < n + 8, "mask length must be ceil(n/8)");
    kani::cover!(n % 8 == 1, "one past a byte boundary");
    std::mem::forget(t);
}

macro_rules! tag_bit_kernel {
    ($name:ident, $l:expr, $lo:expr) => {
        #[kani::proof]
        #[kani::unwind(26)]
        fn $name() {
            const L: usize = $l; // mask bytes
            let m0: [u8; L] = kani::any();
            let j: usize = kani::any();
            kani::assume(j < 8 * L + 16);
            // the file index is enumerated concretely (a symbolic index makes the heap object size of
            // the growth path symbolic); mask content and the observed second index stay symbolic
            let mut i = $lo;
            while i < 8 * L {
                if j != i {
                    let mut t = InstallTag { name: String::new(), tag_type: TagType::Platform, bit_mask: m0.to_vec() };
                    assert!(t.has_file(i) == spec_bit(&m0, i), "has_file differs from the MSB-first specification");
                    let before = t.file_count();
                    t.add_file(i);
                    assert!(t.has_file(i), "add_file(i) must make has_file(i) true");
                    assert!(spec_bit(&t.bit_mask, i), "add_file(i) must set byte i/8, bit 0x80>>(i%8)");
                    assert!(t.has_file(j) == spec_bit(&m0, j), "add_file(i) changed another file");
                    assert!(spec_bit(&t.bit_mask, j) == spec_bit(&m0, j), "add_file(i) changed another file's bit");
                    assert!(t.file_count() == before + !spec_bit(&m0, i) as usize, "file_count must count set files");
                    t.remove_file(i);
                    assert!(!t.has_file(i) && !spec_bit(&t.bit_mask, i), "remove_file(i) must clear the bit");
                    assert!(t.has_file(j) == spec_bit(&m0, j), "remove_file(i) changed another file");
                    t.remove_file(i);
                    assert!(!t.has_file(i), "remove_file of an absent file must leave it absent");
                    assert!(t.file_count() == before - spec_bit(&m0, i) as usize, "file_count after removal");
                    assert!(t.bit_mask.len() == L, "operations inside the mask must not resize it");
                    std::mem::forget(t);
                }
                i += 1;
            }
            kani::cover!(j < 8 * L && spec_bit(&m0, j), "observed file is a member");
        }
    };
}
// growth: add_file beyond the mask resizes to exactly byte+1 and sets only that bit (index concrete
// per harness: a symbolic index would make the heap object size symbolic)
macro_rules! tag_grow {
    ($name:ident, $l:expr, $i:expr) => {
        #[kani::proof]
        #[kani::unwind(14)]
        fn $name() {
            const L: usize = $l;
            const I: usize = $i;
            let m0: [u8; L] = kani::any();
            let mut t = InstallTag { name: String::new(), tag_type: TagType::Platform, bit_mask: m0.to_vec() };
            assert!(!t.has_file(I), "file beyond the mask must be absent");
            t.remove_file(I);
            assert!(t.bit_mask.len() == L, "remove_file beyond the mask must not grow it");
            t.add_file(I);
            assert!(t.bit_mask.len() == I / 8 + 1, "mask must grow to byte i/8 + 1");
            let j: usize = kani::any();
            kani::assume(j < 8 * (I / 8 + 1) + 8);
            assert!(t.has_file(j) == (j == I || spec_bit(&m0, j)), "growth changed another file or lost the new one");
            assert!(spec_bit(&t.bit_mask, j) == t.has_file(j), "has_file differs from the MSB-first specification");
            kani::cover!(j == I, "new member observed");
            std::mem::forget(t);
        }
    };
}
// @family prop=C19 tier=quick timeout=600 role=tag-bit-kernel
// @bounds mask of L bytes (L in the name: 1,2,9 -> file counts up to 72) with symbolic content; every file index inside the mask from the stated start (enumerated; l9_from56 = files 56..=71); observed second index symbolic
// @encodes cascette_formats::install::InstallTag::has_file, cascette_formats::install::InstallTag::add_file, cascette_formats::install::InstallTag::remove_file, cascette_formats::install::InstallTag::file_count
// @catches LSB-first bit order, remove toggling instead of clearing, add touching a neighbour bit, growth by the wrong amount
tag_bit_kernel!(c19_tag_bit_kernel_l1, 1, 0);
tag_bit_kernel!(c19_tag_bit_kernel_l2, 2, 0);
tag_bit_kernel!(c19_tag_bit_kernel_l3_from8, 3, 8);
tag_bit_kernel!(c19_tag_bit_kernel_l9_from56, 9, 56);
// @end
// @family prop=C19 tier=quick timeout=600 role=tag-mask-growth
// @bounds mask of L bytes symbolic content, file index concrete per harness (name: l<L>_i<index>) in the next / a later byte
// @encodes cascette_formats::install::InstallTag::add_file, cascette_formats::install::InstallTag::remove_file, cascette_formats::install::InstallTag::has_file
tag_grow!(c19_tag_grow_l0_i3, 0, 3);
tag_grow!(c19_tag_grow_l1_i8, 1, 8);
tag_grow!(c19_tag_grow_l1_i15, 1, 15);
tag_grow!(c19_tag_grow_l2_i37, 2, 37);
// @end

// has_file / get_files / intersect / union on arbitrary masks
// @harness prop=C19 tier=quick timeout=600 role=tag-mask-queries
// @bounds two masks of 2 and 1 bytes with symbolic content, probe index 0..=20 (inside both, inside one, beyond both)
// @encodes cascette_formats::install::InstallTag::has_file, cascette_formats::install::InstallTag::intersect, cascette_formats::install::InstallTag::union, cascette_formats::install::InstallTag::file_count
#[kani::proof]
#[kani::unwind(14)]
fn c19_tag_mask_queries() {
    let a: [u8; 2] = kani::any();
    let b: [u8; 2] = kani::any();
    let (la, lb): (usize, usize) = (2, 1); // different lengths: intersect = min, union = max
    let ta = InstallTag { name: String::new(), tag_type: TagType::Locale, bit_mask: a[..la].to_vec() };
    let tb = InstallTag { name: String::new(), tag_type: TagType::Locale, bit_mask: b[..lb].to_vec() };
    let i: usize = kani::any();
    kani::assume(i <= 20);
    assert!(ta.has_file(i) == spec_bit(&a[..la], i), "has_file differs from the MSB-first specification");
    let x = ta.intersect(&tb);
    let u = ta.union(&tb);
    assert!(spec_bit(&x, i) == (spec_bit(&a[..la], i) && spec_bit(&b[..lb], i)), "intersect is not bitwise AND of memberships");
    assert!(spec_bit(&u, i) == (spec_bit(&a[..la], i) || spec_bit(&b[..lb], i)), "union is not bitwise OR of memberships");
    kani::cover!(spec_bit(&x, i), "intersection non-empty");
    std::mem::forget((ta, tb, x, u));
}

// ---- builder mask re-packing on remove_file ---------------------------------------------------
fn mk_entries(n: usize) -> Vec<InstallFileEntry> {
    let mut v = Vec::new();
    let mut k = 0;
    while k < n {
        v.push(InstallFileEntry::new(String::new(), ContentKey::from_bytes([0u8; 16]), k as u32 + 1));
        k += 1;
    }
    v
}

macro_rules! install_remove_file {
    ($name:ident, $n:expr, $k:expr) => {
        #[kani::proof]
        #[kani::unwind(20)]
        #[kani::stub(std::hash::RandomState::new, fixed_random_state)]
        fn $name() {
            const N: usize = $n;
            let mask: [u8; (N + 7) / 8] = kani::any();
            let k: usize = $k; // concrete: Vec::remove at a symbolic index is a symbolic-length memmove
            let b = InstallManifestBuilder::verif_from_parts(
                vec![InstallTag { name: String::new(), tag_type: TagType::Platform, bit_mask: mask.to_vec() }],
                mk_entries(N),
            );
            let out = match b.remove_file(k).and_then(|b| b.build()) {
                Ok(o) => o,
                Err(_) => {
                    assert!(false, "remove_file of a valid index failed");
                    return;
                }
            };
            assert!(out.entries.len() == N - 1, "one entry removed");
            assert!(out.tags.len() == 1 && out.tags[0].bit_mask.len() == (N - 1 + 7) / 8, "mask resized to ceil((n-1)/8)");
            // every surviving file keeps its membership: new index q <-> old index q (q<k) / q+1 (q>=k)
            let q: usize = kani::any();
            kani::assume(q < N - 1);
            let old = if q < k { q } else { q + 1 };
            assert!(out.tags[0].has_file(q) == spec_bit(&mask, old), "membership of a surviving file changed");
            assert!(out.entries[q].file_size == old as u32 + 1, "entries not shifted consistently with the mask");
            // no ghost bits past the end
            kani::cover!(spec_bit(&mask, N - 1) && q == N - 2, "last file tagged and observed");
            let g: usize = kani::any();
            if g >= N - 1 && g < 8 * ((N - 1 + 7) / 8) {
                assert!(!spec_bit(&out.tags[0].bit_mask, g), "padding bit set after remove_file");
            }
            std::mem::forget(out);
        }
    };
}
// @family prop=C19 tier=quick timeout=900 role=install-builder-remove-file
// @bounds file count fixed per harness (9, 16, 17: byte boundary 8k+1 -> 8k, 8k, two bytes+1), one tag with a fully symbolic mask, removed index concrete per harness (name: n<files>_k<index>)
// @encodes cascette_formats::install::InstallManifestBuilder::remove_file, cascette_formats::install::InstallManifestBuilder::build, cascette_formats::install::InstallManifest::validate
// @assumes builder constructed through the cfg(kani) shim with an empty name index (remove_file/build do not consult it); RandomState::new pinned
// @catches old mask read bounded by the new size (last file loses its tags when 8k+1 -> 8k), shift direction, off-by-one at the removed index, stale padding bits
install_remove_file!(c19_install_remove_file_n9_k0, 9, 0);
install_remove_file!(c19_install_remove_file_n9_k4, 9, 4);
install_remove_file!(c19_install_remove_file_n16_k7, 16, 7);
install_remove_file!(c19_install_remove_file_n17_k8, 17, 8);
// @end

fn mk_dl_entries(n: usize) -> Vec<DownloadFileEntry> {
    let mut v = Vec::new();
    let mut k = 0;
    while k < n {
        v.push(DownloadFileEntry::new(EncodingKey::from_bytes([0u8; 16]), k as u64 + 1, 0).unwrap());
        k += 1;
    }
    v
}

macro_rules! download_remove_file {
    ($name:ident, $n:expr, $k:expr) => {
        #[kani::proof]
        #[kani::unwind(11)]
        #[kani::stub(std::hash::RandomState::new, fixed_random_state)]
        fn $name() {
            const N: usize = $n;
            let mask: [u8; (N + 7) / 8] = kani::any();
            let k: usize = $k;
            let mut b = DownloadManifestBuilder::verif_from_parts(
                mk_dl_entries(N),
                vec![InstallTag { name: String::new(), tag_type: TagType::Platform, bit_mask: mask.to_vec() }],
            );
            assert!(b.remove_file(k), "remove_file of a valid index must report true");
            assert!(!b.remove_file(N), "remove_file past the end must report false");
            let out = match b.build() {
                Ok(o) => o,
                Err(_) => {
                    assert!(false, "build after remove_file failed");
                    return;
                }
            };
            assert!(out.entries.len() == N - 1);
            assert!(out.tags.len() == 1 && out.tags[0].bit_mask.len() == (N - 1 + 7) / 8, "mask resized to ceil((n-1)/8)");
            let q: usize = kani::any();
            kani::assume(q < N - 1);
            let old = if q < k { q } else { q + 1 };
            assert!(out.tags[0].has_file(q) == spec_bit(&mask, old), "membership of a surviving file changed");
            assert!(out.entries[q].file_size.as_u64() == old as u64 + 1, "entries not shifted consistently with the mask");
            kani::cover!(spec_bit(&mask, N - 1) && q == N - 2, "last file tagged and observed");
            let g: usize = kani::any();
            if g >= N - 1 && g < 8 * ((N - 1 + 7) / 8) {
                assert!(!spec_bit(&out.tags[0].bit_mask, g), "padding bit set after remove_file");
            }
            std::mem::forget(out);
        }
    };
}
// (with the real Vec::push this does not finish in 3400 s: `while new_mask.len() <= idx { push }` makes the Vec length
// data-dependent and every push drags in the symbolic-size grow path; Vec::new / Vec::push are replaced by exact
// fixed-capacity models, see common/stubs.rs)
// NOT REGISTERED (measured: 3400 s timeout with real Vec::push; with fixed-capacity Vec models OOM after 735 s):
// DownloadManifestBuilder::remove_file is outside the claim.
// family-disabled prop=C19 tier=thorough timeout=900 mem=24 role=download-builder-remove-file
// @bounds file count fixed per harness (9, 17), one tag with a fully symbolic mask, removed index concrete per harness (name: n<files>_k<index>)
// @encodes cascette_formats::download::DownloadManifestBuilder::remove_file, cascette_formats::download::DownloadManifestBuilder::build
// @assumes builder constructed through the cfg(kani) shim with an empty name index; Vec::new -> with_capacity(24) and Vec::push -> push without the grow path (capacity asserted): exact fixed-capacity models of std
download_remove_file!(c19_download_remove_file_n9_k0, 9, 0);
download_remove_file!(c19_download_remove_file_n9_k4, 9, 4);
// end-disabled

// ---- queries on a directly constructed manifest --------------------------------------------------
fn name_of(k: usize) -> &'static str {
    match k {
        0 => "a",
        1 => "b",
        _ => "zz", // not present
    }
}

macro_rules! install_queries {
    ($name:ident, $n:expr, $x:expr, $y:expr, $two:expr) => {
#[kani::proof]
#[kani::unwind(4)]
fn $name() {
    const N: usize = $n;
    let ma: u8 = kani::any();
    let mb: u8 = kani::any();
    let sizes: [u32; N] = kani::any();
    let (x, y, two): (usize, usize, bool) = ($x, $y, $two);
    let mut entries = Vec::new();
    let mut k = 0;
    while k < N {
        entries.push(InstallFileEntry::new(String::new(), ContentKey::from_bytes([0u8; 16]), sizes[k]));
        k += 1;
    }
    let m = InstallManifest {
        header: InstallHeader::new(2, N as u32),
        tags: vec![
            InstallTag { name: String::from("a"), tag_type: TagType::Platform, bit_mask: vec![ma] },
            InstallTag { name: String::from("b"), tag_type: TagType::Locale, bit_mask: vec![mb] },
        ],
        entries,
    };
    let q2 = [name_of(x), name_of(y)];
    let q: &[&str] = if two { &q2[..] } else { &q2[..1] };
    // model
    let member = |name: usize, f: usize| -> bool {
        match name {
            0 => spec_bit(&[ma], f),
            1 => spec_bit(&[mb], f),
            _ => false,
        }
    };
    let missing = x == 2 || (two && y == 2);
    let all_of = |f: usize| !missing && member(x, f) && (!two || member(y, f));
    let any_of = |f: usize| member(x, f) || (two && member(y, f));

    let r_all = m.get_files_for_tags(q);
    let r_any = m.get_files_for_any_tag(q);
    let size = m.calculate_install_size(q);
    let (mut c_all, mut c_any, mut s_all) = (0usize, 0usize, 0u64);
    let mut f = 0;
    while f < N {
        if all_of(f) {
            c_all += 1;
            s_all += sizes[f] as u64;
        }
        if any_of(f) {
            c_any += 1;
        }
        f += 1;
    }
    assert!(r_all.len() == c_all, "all-of query returns a wrong number of files");
    assert!(r_any.len() == c_any, "any-of query returns a wrong number of files");
    assert!(size == s_all, "install size is not the sum over the all-of set");
    let p: usize = kani::any();
    if p < r_all.len() {
        assert!(all_of(r_all[p].0), "all-of query returned a file lacking a tag");
        assert!(r_all[p].1.file_size == sizes[r_all[p].0], "index/entry pairing broken");
        if p + 1 < r_all.len() {
            assert!(r_all[p].0 < r_all[p + 1].0, "results must be in ascending file order");
        }
    }
    if p < r_any.len() {
        assert!(any_of(r_any[p].0), "any-of query returned an untagged file");
        if p + 1 < r_any.len() {
            assert!(r_any[p].0 < r_any[p + 1].0, "results must be in ascending file order");
        }
    }
    kani::cover!(c_any == N, "every file selected by the any-of query");
    std::mem::forget(r_all);
    std::mem::forget(r_any);
    std::mem::forget(m);
}
    };
}
// @family prop=C19 tier=quick timeout=900 role=install-queries
// @bounds 1 file (quick; the all-of / any-of / missing-tag distinctions are all visible on one file) with symbolic size, 2 tags "a","b" with symbolic 1-byte masks; query concrete per harness: [a], [a,b], [a,missing]
// @encodes cascette_formats::install::InstallManifest::get_files_for_tags, cascette_formats::install::InstallManifest::get_files_for_any_tag, cascette_formats::install::InstallManifest::calculate_install_size, cascette_formats::install::InstallManifest::find_tag
// @catches all-of computed as any-of, missing tag ignored instead of empty result, size summed over the wrong set, index/entry pairing
install_queries!(c19_install_queries_n1_a, 1, 0, 0, false);
install_queries!(c19_install_queries_n1_a_b, 1, 0, 1, true);
install_queries!(c19_install_queries_n1_a_missing, 1, 0, 2, true);
// @end
// @family prop=C19 tier=quick timeout=900 mem=24 role=install-queries-n2
// @bounds 2 files, otherwise as above
// @encodes cascette_formats::install::InstallManifest::get_files_for_tags, cascette_formats::install::InstallManifest::get_files_for_any_tag, cascette_formats::install::InstallManifest::calculate_install_size
install_queries!(c19_install_queries_n2_a_b, 2, 0, 1, true);
// @end


// ---- download side ---------------------------------------------------------------------------------
fn spec_eff(ver: u8, prio: i8, base: i8) -> i8 {
    if ver == 3 {
        let d = prio as i16 - base as i16;
        if d > 127 { 127 } else if d < -128 { -128 } else { d as i8 }
    } else {
        prio
    }
}
fn spec_cat(e: i8) -> PriorityCategory {
    if e < 0 {
        PriorityCategory::Critical
    } else if e == 0 {
        PriorityCategory::Essential
    } else if e <= 2 {
        PriorityCategory::High
    } else if e <= 5 {
        PriorityCategory::Normal
    } else {
        PriorityCategory::Low
    }
}
fn mk_header(ver: u8, n: u32, tags: u16, base: i8) -> DownloadHeader {
    match ver {
        1 => DownloadHeader::new_v1(n, tags, false),
        2 => DownloadHeader::new_v2(n, tags, false, 0),
        _ => DownloadHeader::new_v3(n, tags, false, 0, base),
    }
}

// @harness prop=C19 tier=quick timeout=600 role=download-priority-kernel
// @bounds every i8 priority, every i8 base priority, header versions 1..=3, every 40-bit size
// @encodes cascette_formats::download::DownloadFileEntry::new, cascette_formats::download::DownloadFileEntry::effective_priority, cascette_formats::download::DownloadFileEntry::priority_category, cascette_formats::download::DownloadFileEntry::is_essential, cascette_formats::download::DownloadFileEntry::is_critical, cascette_formats::download::DownloadFileEntry::is_high_priority, cascette_formats::download::PriorityCategory::from_priority, cascette_formats::download::FileSize40
// @catches wrapping instead of saturating priority adjustment, base applied to V1/V2, category boundaries, 40-bit size limit off by one
#[kani::proof]
#[kani::unwind(3)]
fn c19_download_priority_kernel() {
    let prio: i8 = kani::any();
    let base: i8 = kani::any();
    let ver: u8 = kani::any();
    kani::assume(ver >= 1 && ver <= 3);
    let size: u64 = kani::any();
    let h = mk_header(ver, 1, 0, base);
    match DownloadFileEntry::new(EncodingKey::from_bytes([0u8; 16]), size, prio) {
        Err(e) => {
            assert!(size > 0xFF_FFFF_FFFF, "a size that fits in 40 bits was rejected");
            std::mem::forget(e); // error enums embed binrw::Error: recursive drop glue
        }
        Ok(e) => {
            assert!(size <= 0xFF_FFFF_FFFF, "a size above 2^40-1 was accepted");
            assert!(e.file_size.as_u64() == size, "40-bit size not preserved");
            let b = e.file_size.to_bytes();
            assert!(((b[0] as u64) << 32 | (b[1] as u64) << 24 | (b[2] as u64) << 16 | (b[3] as u64) << 8 | b[4] as u64) == size, "40-bit size must serialise big-endian");
            let eff = spec_eff(ver, prio, base);
            assert!(e.effective_priority(&h) == eff, "effective priority is not the clamped difference (V3) / the raw priority (V1, V2)");
            assert!(e.priority_category(&h) == spec_cat(eff), "priority category boundaries");
            assert!(e.is_essential(&h) == (eff <= 0), "is_essential");
            assert!(e.is_critical(&h) == (eff < 0), "is_critical");
            assert!(e.is_high_priority(&h) == (eff <= 1), "is_high_priority");
            kani::cover!(ver == 3 && prio as i16 - base as i16 > 127, "saturation at +127");
            kani::cover!(ver == 3 && (prio as i16 - base as i16) < -128, "saturation at -128");
            std::mem::forget(e);
        }
    }
}

macro_rules! download_tag_queries {
    ($name:ident, $q:expr, $na:expr, $nb:expr) => {
        #[kani::proof]
        #[kani::unwind(5)]
        fn $name() {
            const N: usize = 2;
            let ma: u8 = kani::any();
            let mb: u8 = kani::any();
            let sizes: [u64; N] = kani::any();
            kani::assume(sizes[0] <= 0xFF_FFFF_FFFF && sizes[1] <= 0xFF_FFFF_FFFF);
            let m = DownloadManifest {
                header: DownloadHeader::new_v1(N as u32, 2, false),
                entries: vec![
                    DownloadFileEntry::new(EncodingKey::from_bytes([0u8; 16]), sizes[0], 0).unwrap(),
                    DownloadFileEntry::new(EncodingKey::from_bytes([1u8; 16]), sizes[1], 0).unwrap(),
                ],
                tags: vec![
                    InstallTag { name: String::from("a"), tag_type: TagType::Platform, bit_mask: vec![ma] },
                    InstallTag { name: String::from("b"), tag_type: TagType::Locale, bit_mask: vec![mb] },
                ],
            };
            let q: &[&str] = &$q;
            // model: every named tag must exist and contain the file; an empty query selects everything
            let sel = |g: usize| -> bool {
                let a_ok = !$na || spec_bit(&[ma], g);
                let b_ok = !$nb || spec_bit(&[mb], g);
                let missing = q.len() > ($na as usize + $nb as usize);
                !missing && a_ok && b_ok
            };
            let r = m.entries_by_tags(q);
            let total = m.calculate_size_for_tags(q);
            let c = sel(0) as usize + sel(1) as usize;
            let s = (if sel(0) { sizes[0] } else { 0 }) + (if sel(1) { sizes[1] } else { 0 });
            assert!(r.len() == c, "entries_by_tags returns a wrong number of entries");
            assert!(total == s, "calculate_size_for_tags is not the sum over the selected set");
            let p: usize = kani::any();
            if p < r.len() {
                assert!(r[p].0 < N && sel(r[p].0), "entries_by_tags returned an unselected entry");
                assert!(r[p].1.file_size.as_u64() == sizes[r[p].0], "index/entry pairing broken");
                if p + 1 < r.len() {
                    assert!(r[p].0 < r[p + 1].0, "ascending order");
                }
            }
            kani::cover!(c <= 1, "at most one entry selected");
            std::mem::forget(r);
            std::mem::forget(m);
        }
    };
}
macro_rules! download_tag_queries_n1 {
    ($name:ident, $q:expr, $na:expr, $nb:expr) => {
        #[kani::proof]
        #[kani::unwind(4)]
        fn $name() {
            const N: usize = 1;
            let ma: u8 = kani::any();
            let mb: u8 = kani::any();
            let sizes: [u64; N] = kani::any();
            kani::assume(sizes[0] <= 0xFF_FFFF_FFFF);
            let m = DownloadManifest {
                header: DownloadHeader::new_v1(N as u32, 2, false),
                entries: vec![
                    DownloadFileEntry::new(EncodingKey::from_bytes([0u8; 16]), sizes[0], 0).unwrap(),
                ],
                tags: vec![
                    InstallTag { name: String::from("a"), tag_type: TagType::Platform, bit_mask: vec![ma] },
                    InstallTag { name: String::from("b"), tag_type: TagType::Locale, bit_mask: vec![mb] },
                ],
            };
            let q: &[&str] = &$q;
            // model: every named tag must exist and contain the file; an empty query selects everything
            let sel = |g: usize| -> bool {
                let a_ok = !$na || spec_bit(&[ma], g);
                let b_ok = !$nb || spec_bit(&[mb], g);
                let missing = q.len() > ($na as usize + $nb as usize);
                !missing && a_ok && b_ok
            };
            let r = m.entries_by_tags(q);
            let total = m.calculate_size_for_tags(q);
            let c = sel(0) as usize;
            let s = if sel(0) { sizes[0] } else { 0 };
            assert!(r.len() == c, "entries_by_tags returns a wrong number of entries");
            assert!(total == s, "calculate_size_for_tags is not the sum over the selected set");
            let p: usize = kani::any();
            if p < r.len() {
                assert!(r[p].0 < N && sel(r[p].0), "entries_by_tags returned an unselected entry");
                assert!(r[p].1.file_size.as_u64() == sizes[r[p].0], "index/entry pairing broken");
                if p + 1 < r.len() {
                    assert!(r[p].0 < r[p + 1].0, "ascending order");
                }
            }
            kani::cover!(c <= 1, "at most one entry selected");
            std::mem::forget(r);
            std::mem::forget(m);
        }
    };
}
// @family prop=C19 tier=quick timeout=900 role=download-tag-queries-n1
// @bounds 1 entry with symbolic 40-bit size, 2 tags "a","b" with symbolic 1-byte masks; query concrete per harness: [a], [a,b], [a,missing]
// @encodes cascette_formats::download::DownloadManifest::entries_by_tags, cascette_formats::download::DownloadManifest::calculate_size_for_tags
// @catches any-of instead of all-of, missing tag ignored, size over the wrong set
download_tag_queries_n1!(c19_download_tag_queries_n1_a, ["a"], true, false);
download_tag_queries_n1!(c19_download_tag_queries_n1_a_b, ["a", "b"], true, true);
download_tag_queries_n1!(c19_download_tag_queries_n1_a_missing, ["a", "zz"], true, false);
// @end
// @family prop=C19 tier=quick timeout=900 mem=24 role=download-tag-queries
// @bounds 2 entries with symbolic 40-bit sizes, 2 tags "a","b" with symbolic 1-byte masks; query concrete per harness: [a], [a,b], [a,missing], []
// @encodes cascette_formats::download::DownloadManifest::entries_by_tags, cascette_formats::download::DownloadManifest::calculate_size_for_tags
// @catches any-of instead of all-of, missing tag ignored, size over the wrong set
download_tag_queries!(c19_download_tag_queries_n2_a_b, ["a", "b"], true, true);
// @end

// @harness prop=C19 tier=quick timeout=900 role=download-priority-queries
// @bounds 2 entries with symbolic sizes and priorities, V1..V3 header with symbolic base priority, symbolic priority range and category
// @encodes cascette_formats::download::DownloadManifest::entries_by_priority, cascette_formats::download::DownloadManifest::entries_by_priority_range, cascette_formats::download::DownloadManifest::essential_download_size
// @catches range bounds exclusive/inclusive mix-up, raw instead of effective priority, essential size over the wrong set
#[kani::proof]
#[kani::unwind(5)]
fn c19_download_priority_queries() {
    const N: usize = 2;
    let sizes: [u64; N] = kani::any();
    let prios: [i8; N] = kani::any();
    let base: i8 = kani::any();
    let ver: u8 = kani::any();
    kani::assume(ver >= 1 && ver <= 3);
    kani::assume(sizes[0] <= 0xFF_FFFF_FFFF && sizes[1] <= 0xFF_FFFF_FFFF);
    let (lo, hi): (i8, i8) = (kani::any(), kani::any());
    let m = DownloadManifest {
        header: mk_header(ver, N as u32, 0, base),
        entries: vec![
            DownloadFileEntry::new(EncodingKey::from_bytes([0u8; 16]), sizes[0], prios[0]).unwrap(),
            DownloadFileEntry::new(EncodingKey::from_bytes([1u8; 16]), sizes[1], prios[1]).unwrap(),
        ],
        tags: Vec::new(),
    };
    let e0 = spec_eff(ver, prios[0], base);
    let e1 = spec_eff(ver, prios[1], base);
    let in0 = e0 >= lo && e0 <= hi;
    let in1 = e1 >= lo && e1 <= hi;
    let rr = m.entries_by_priority_range(lo, hi);
    assert!(rr.len() == in0 as usize + in1 as usize, "entries_by_priority_range returns a wrong number of entries");
    let p: usize = kani::any();
    if p < rr.len() {
        assert!(if rr[p].0 == 0 { in0 } else { rr[p].0 == 1 && in1 }, "entries_by_priority_range returned an entry outside the range");
    }
    let rc = m.entries_by_priority(PriorityCategory::Low);
    assert!(rc.len() == (e0 > 5) as usize + (e1 > 5) as usize, "entries_by_priority(Low) wrong");
    let ess = m.essential_download_size();
    assert!(ess == (if e0 <= 0 { sizes[0] } else { 0 }) + (if e1 <= 0 { sizes[1] } else { 0 }), "essential_download_size is not the sum over essential entries");
    kani::cover!(ver == 3 && in0 && !in1, "one entry in range under V3");
    std::mem::forget(rr);
    std::mem::forget(rc);
    std::mem::forget(m);
}
