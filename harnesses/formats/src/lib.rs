// Kani harnesses for cascette-formats.
#![allow(dead_code, unused_imports, static_mut_refs)]

#[cfg(kani)]
#[path = "../../common/uf.rs"]
pub mod uf;
#[cfg(kani)]
#[path = "../../common/stubs.rs"]
pub mod stubs;

#[cfg(kani)]
mod c19_tags;
#[cfg(kani)]
mod c02_patch_archive;
#[cfg(kani)]
mod c07_archive_footer;
#[cfg(kani)]
mod c03_root_entry;
