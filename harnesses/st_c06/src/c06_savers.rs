// C06 — a crash at any point of a save leaves old or new state: atomic-replace protocol of the
// std::fs savers, checked on the I/O trace of the REAL save routines (see common/fstrace.rs for the
// invariants I1–I4 and why they cover every crash point).
use crate::fstrace as fs;
use cascette_client_storage::index::IndexManager;
use cascette_client_storage::index::update::UpdateEntry;
use cascette_client_storage::index::{ArchiveLocation, GuardedBlockHeader, IndexEntry, UpdateStatus};
use cascette_client_storage::kmt::key_state::{ResidencyDb, ResidencyEntry, ResidencySpan, ResidencyUpdateType};
use std::path::{Path, PathBuf};

macro_rules! fs_stubs {
    ($(#[$m:meta])* fn $name:ident() $body:block) => {
        $(#[$m])*
        #[kani::proof]
        #[kani::stub(std::fs::File::create, crate::fstrace::file_create)]
        #[kani::stub(<std::fs::File as std::io::Write>::write, crate::fstrace::file_write)]
        #[kani::stub(<&std::fs::File as std::io::Write>::write, crate::fstrace::fileref_write)]
        #[kani::stub(<std::fs::File as std::io::Write>::flush, crate::fstrace::file_flush)]
        #[kani::stub(<&std::fs::File as std::io::Write>::flush, crate::fstrace::fileref_flush)]
        #[kani::stub(<std::fs::File as std::io::Seek>::seek, crate::fstrace::file_seek)]
        #[kani::stub(<&std::fs::File as std::io::Seek>::seek, crate::fstrace::fileref_seek)]
        #[kani::stub(std::fs::File::sync_all, crate::fstrace::file_sync_all)]
        #[kani::stub(std::fs::rename, crate::fstrace::fs_rename)]
        #[kani::stub(std::fs::remove_file, crate::fstrace::fs_remove_file)]
        #[kani::stub(std::fs::create_dir_all, crate::fstrace::fs_create_dir_all)]
        #[kani::stub(<std::os::fd::OwnedFd as std::ops::Drop>::drop, crate::fstrace::ownedfd_drop)]
        #[kani::stub(std::fmt::format, crate::stubs::fmt_format_unreachable)]
        #[kani::stub(tracing_core::callsite::DefaultCallsite::interest, crate::tracing_stubs::interest_never)]
        #[kani::stub(tracing::__macro_support::__is_enabled, crate::tracing_stubs::is_enabled_false)]
        #[kani::stub(tracing_core::event::Event::dispatch, crate::tracing_stubs::dispatch_nop)]
        fn $name() $body
    };
}

// write_index_to_file: one attempt, with and without an update section (one harness each: the two
// shapes take different paths through the routine).
macro_rules! index_write_h {
    ($name:ident, $with_update:expr) => {
fs_stubs! {
#[kani::unwind(5)]
fn $name() {
    fs::reset(b"d/00.idx", false, 0);
    let header: [u8; 16] = kani::any();
    let entries: [u8; 36] = kani::any();
    let ne: usize = kani::any();
    kani::assume(ne <= 2);
    let upd: [u8; 8] = kani::any();
    let with_update: bool = $with_update;
    let r = IndexManager::verif_write_index_to_file(
        Path::new("d/00.tmp"),
        &header,
        &entries[..ne * 18],
        if with_update { Some(&upd[..]) } else { None },
    );
    let ok = r.is_ok();
    std::mem::forget(r);
    unsafe {
        assert!(ok, "write_index_to_file failed although every I/O operation succeeded");
        assert!(fs::FS.nfiles == 1, "exactly one temp file created");
        let f = fs::FS.files[0];
        assert!(f.kind == 2, "data must go to the temp path");
        assert!(!f.failed, "Ok reported although an operation on the file failed");
        assert!(f.writes >= 1 && f.written >= 8 + 16 + 8 + 8 + ne * 18, "Ok reported before all bytes reached the file (flush missing?)");
        if with_update {
            assert!(f.written >= 65536 + 8, "the 64 KiB-aligned update section did not reach the file");
        }
        assert!(f.synced_after_last_write, "Ok reported without fsync after the last write");
        assert!(!fs::FS.final_created, "final path touched");
        kani::cover!(ok && ne == 2, "success with two sorted entries");
    }
}
}
    };
}
// @family prop=C06 tier=quick timeout=900 replay=none role=index-write-temp-file
// @bounds header 16 bytes, 0..=2 sorted entries (18 bytes each, count symbolic), update section present or absent (per harness), content symbolic; all I/O operations succeed (fault injection creates io::Error values whose drop glue does not terminate in CBMC: error paths are outside)
// @encodes cascette_client_storage::index::IndexManager::write_index_to_file
// @assumes std::fs File::create/write/flush/seek/sync_all, fs::rename/remove_file/create_dir_all and the fd drop replaced by the I/O trace model (common/fstrace.rs); BufWriter and binrw writers run for real; every format!() is on an error path (stubbed to a failed check that ends the path); tracing off
// @catches fsync skipped on a branch (e.g. only when an update section exists), flush missing before fsync, data written after fsync, direct write to the final path
index_write_h!(c06_index_write_temp_file_sorted_only, false);
index_write_h!(c06_index_write_temp_file_with_updates, true);
// @end

// (A composition harness for save_index's retry/rename logic over the contract of
// write_index_to_file was attempted and dropped: the header serialisation through binrw onto a Cursor
// keeps an error path alive whose binrw::Error drop glue exhausts memory even at unwind 4; measured
// 11 min -> OOM at 16 GB.  save_index's loop is therefore outside the claim.)

// (A second composition attempt — save_index on its success path over the contract of
// write_index_to_file with every format!() stubbed to a failed check — ran out of memory at 16 GB after
// 315 s as well; save_index stays outside.)

// std path manipulation is environment code whose debug-assertion UTF-8 boundary checks dominate
// symex; for the ONE concrete path used below it is replaced by its concrete result.
fn with_extension_dk<S: AsRef<std::ffi::OsStr>>(p: &Path, ext: S) -> PathBuf {
    let e = ext.as_ref().as_encoded_bytes();
    assert!(e.len() == 3 && e[0] == b't' && e[1] == b'm' && e[2] == b'p', "path model: only with_extension(\"tmp\") is modelled");
    let b = p.as_os_str().as_encoded_bytes();
    assert!(b.len() == 3 && b[0] == b'd' && b[1] == b'/' && b[2] == b'k', "path model: only the path d/k is modelled");
    PathBuf::from("d/k.tmp")
}
fn parent_dk(p: &Path) -> Option<&Path> {
    let b = p.as_os_str().as_encoded_bytes();
    assert!(b.len() == 3 && b[0] == b'd' && b[1] == b'/' && b[2] == b'k', "path model: only the path d/k is modelled");
    Some(Path::new("d"))
}

// page serialisation is irrelevant to the I/O protocol (C08 checks it): constant page image
fn page_bytes_const(_p: &cascette_client_storage::kmt::key_state::ResidencyPage) -> [u8; 1024] {
    [0x5A; 1024]
}

// ResidencyDb::save
fs_stubs! {
// NOT REGISTERED (measured: symex does not finish in 3400 s even with path operations and page
// serialisation stubbed — BufWriter::flush_buf and the 16 x pages loops are unrolled to the global bound because
// the Vec lengths inside `buckets: [Vec<ResidencyPage>; 16]` are opaque to CBMC): ResidencyDb::save is outside.
// harness-disabled prop=C06 tier=thorough timeout=3400 mem=24 replay=none role=residency-save-atomic-replace
// @bounds database with one page holding one entry (symbolic 16-byte key), built through the cfg(kani) shim verif_with_single_page; all I/O operations succeed
// @encodes cascette_client_storage::kmt::key_state::ResidencyDb::save, cascette_client_storage::kmt::key_state::ResidencyPage::to_bytes
// @assumes std::fs operations replaced by the trace model (common/fstrace.rs); Path::with_extension / Path::parent replaced by their concrete results for the path d/k; ResidencyPage::to_bytes replaced by a constant 1024-byte image (serialisation is checked under C08); every format!() is on an error path (stubbed to a failed check); tracing off
// @catches explicit flush dropped (buffered data written after fsync/rename), fsync missing, in-place write
#[kani::unwind(17)]
#[kani::stub(std::path::Path::with_extension, with_extension_dk)]
#[kani::stub(std::path::Path::parent, parent_dk)]
#[kani::stub(cascette_client_storage::kmt::key_state::ResidencyPage::to_bytes, page_bytes_const)]
fn c06_residency_save() {
    fs::reset(b"d/k", false, 0);
    let key: [u8; 16] = kani::any();
    let entry = ResidencyEntry::new(key, ResidencySpan::full(), ResidencyUpdateType::Set);
    let mut db = ResidencyDb::verif_with_single_page(PathBuf::from("d/k"), entry);
    let r = db.save();
    let ok = r.is_ok();
    std::mem::forget(r);
    assert!(ok, "save failed although every I/O operation succeeded");
    fs::assert_atomic_replace(ok);
    unsafe {
        assert!(fs::FS.nfiles == 1 && fs::FS.files[0].kind == 2, "exactly one temp file");
        assert!(fs::FS.files[0].written == 5 + 1024, "bucket header + one page must reach the file before fsync");
        kani::cover!(fs::FS.renames_ok == 1, "renamed into place");
    }
    std::mem::forget(db);
}
}
