// C03 (root part) — the two root-header readers (`RootVersion::detect`, `RootHeader::read`) agree on the
// header layout, and what `RootHeader::write` / the builder emits is read back unchanged.
//
// `RootBuilder::build` emits the header exclusively through `RootHeader::new_v2` / `new_v3v4` +
// `RootHeader::write`; `RootFile::parse_from_reader` reads it through `RootVersion::detect` followed by
// `RootHeader::read` and then takes `header.version()` as the block format.  The harnesses drive exactly
// these functions on byte buffers of concrete length with symbolic content.
use crate::stubs::*;
use cascette_formats::root::{RootHeader, RootHeaderInfo, RootMagic, RootVersion};
use std::io::Cursor;

/// Independent statement of the header grammar (from the format description in version.rs):
/// after the magic, an *extended* header starts with header_size in 16..100 followed by a version
/// field in 1..=4; everything else is the classic 12-byte header (total_files, named_files).
fn spec_extended(v1: u32, v2: u32) -> bool {
    v1 >= 16 && v1 < 100 && v2 >= 1 && v2 <= 4
}
fn spec_version(v1: u32, v2: u32) -> RootVersion {
    if spec_extended(v1, v2) {
        match v2 {
            1 | 2 => RootVersion::V2,
            3 => RootVersion::V3,
            _ => RootVersion::V4,
        }
    } else {
        RootVersion::V2
    }
}
fn word(b: &[u8], at: usize, le: bool) -> u32 {
    let a = [b[at], b[at + 1], b[at + 2], b[at + 3]];
    if le { u32::from_le_bytes(a) } else { u32::from_be_bytes(a) }
}
/// The region in which the two heuristics differ (value2 in {0, 5..=9} with a small value1).
fn kf_region(v1: u32, v2: u32) -> bool {
    v1 >= 16 && v1 < 100 && (v2 == 0 || (v2 >= 5 && v2 <= 9))
}

// ---- (a) detect == spec for every 12-byte prefix -------------------------------------------------
// @harness prop=C03 tier=quick timeout=300 role=root-detect-spec
// @bounds 12 fully symbolic bytes (magic, value1, value2): every magic incl. MFST / TSFM / none, every value1, value2 in u32
// @encodes cascette_formats::root::RootVersion::detect
// @assumes none
// @catches wrong endianness per magic, boundary of the header_size window (16 / 100), version window (1..=4), version-field -> block-format mapping, reader position not restored
#[kani::proof]
#[kani::unwind(26)]
#[kani::stub(std::fmt::format, fmt_format_empty)]
fn c03_root_detect_spec() {
    let buf: [u8; 12] = kani::any();
    let mut cur = Cursor::new(&buf[..]);
    let d = RootVersion::detect(&mut cur);
    let mfst = buf[0] == b'M' && buf[1] == b'F' && buf[2] == b'S' && buf[3] == b'T';
    let tsfm = buf[0] == b'T' && buf[1] == b'S' && buf[2] == b'F' && buf[3] == b'M';
    match &d {
        Ok(v) => {
            if mfst || tsfm {
                let (v1, v2) = (word(&buf, 4, tsfm), word(&buf, 8, tsfm));
                assert!(*v == spec_version(v1, v2), "detect differs from the header grammar");
                kani::cover!(tsfm && v1 == 99 && v2 == 4, "upper corner of the extended window (TSFM)");
                kani::cover!(mfst && v1 == 16 && v2 == 1, "lower corner of the extended window (MFST)");
            } else {
                assert!(*v == RootVersion::V1, "no magic must be V1");
            }
        }
        Err(_) => assert!(false, "detect must succeed on 12 bytes"),
    }
    assert!(cur.position() == 0, "detect must restore the reader position");
    std::mem::forget(d);
}

// ---- (b) detect vs read on every header prefix ----------------------------------------------------
// @harness prop=C03 tier=quick timeout=600 role=root-readers-agree
// @bounds 104-byte buffer: magic MFST or TSFM (symbolic choice), bytes 4..24 symbolic (value1, value2, total_files, named_files, first padding word), rest zero, so value1 and value2 range over all of u32 and a header_size up to 99 never hits EOF
// @encodes cascette_formats::root::RootVersion::detect, cascette_formats::root::RootHeader::read, cascette_formats::root::RootHeader::version, cascette_formats::root::RootHeader::size
// @assumes std::fmt::format stubbed to an empty string (error text only); the region value1 in 16..100 && value2 in {0,5..=9} is excluded here and asserted in c03_root_readers_disagree_kf
// @catches the two extended-header heuristics drifting apart (window bounds 16/100, version window, value2 < value1), wrong endianness, header.version() mapping, padding skip consuming the wrong number of bytes
#[kani::proof]
#[kani::unwind(26)]
#[kani::stub(std::fmt::format, fmt_format_empty)]
fn c03_root_readers_agree() {
    const N: usize = 104; // >= largest header_size + 4: read never hits EOF inside the window
    let le: bool = kani::any();
    let sym: [u8; 20] = kani::any(); // bytes 4..24
    let mut buf = [0u8; N];
    let m = if le { *b"TSFM" } else { *b"MFST" };
    let mut k = 0;
    while k < 4 {
        buf[k] = m[k];
        k += 1;
    }
    let mut k = 0;
    while k < 20 {
        buf[4 + k] = sym[k];
        k += 1;
    }
    let (v1, v2) = (word(&buf, 4, le), word(&buf, 8, le));
    kani::cover!(spec_extended(v1, v2) && v2 == 4 && v1 == 99, "extended V4 header, largest header_size");
    kani::cover!(v1 == 16 && v2 == 10, "small value1 with value2 = 10 (classic)");
    kani::cover!(v1 == 100 && v2 == 1, "value1 just above the window");
    kani::assume(!kf_region(v1, v2));
    let mut cur = Cursor::new(&buf[..]);
    let d = RootVersion::detect(&mut cur);
    let dv = match &d {
        Ok(v) => *v,
        Err(_) => {
            assert!(false, "detect failed");
            return;
        }
    };
    assert!(dv == spec_version(v1, v2), "detect differs from the header grammar");
    let h = RootHeader::read(&mut cur, dv);
    match &h {
        Ok(hd) => {
            let ext = matches!(hd, RootHeader::V3V4 { .. });
            assert!(ext == spec_extended(v1, v2), "detect and read disagree on the header layout");
            assert!(hd.version() == dv, "header.version() differs from the detected version");
            if ext {
                assert!(hd.size() == v1 as usize, "extended header size");
                assert!(hd.total_files() == word(&buf, 12, le) && hd.named_files() == word(&buf, 16, le), "extended header counts");
                let consumed = if v1 > 20 { v1 as u64 } else { 20 };
                assert!(cur.position() == consumed, "read must consume exactly max(header_size, 20) bytes");
            } else {
                assert!(hd.total_files() == v1 && hd.named_files() == v2, "classic header counts");
                assert!(cur.position() == 12, "classic header is 12 bytes");
            }
            assert!(hd.magic().is_little_endian() == le, "magic / endianness");
        }
        Err(_) => assert!(false, "read failed on a complete header"),
    }
    std::mem::forget(h);
    std::mem::forget(d);
}

// ---- (c) what the builder writes is read back -----------------------------------------------------
fn write_header(h: &RootHeader, out: &mut [u8; 28]) -> usize {
    let mut cur = Cursor::new(&mut out[..]);
    let r = h.write(&mut cur);
    assert!(r.is_ok(), "header write failed");
    std::mem::forget(r);
    cur.position() as usize
}

// @harness prop=C03 tier=quick timeout=300 role=root-v2-header-roundtrip
// @bounds classic V2 header with total_files, named_files symbolic over u32 outside the region (total_files in 16..=99 && named_files <= 9), magic TSFM (what new_v2 / the builder emits) or MFST (symbolic choice); followed by 16 symbolic bytes of block data
// @encodes cascette_formats::root::RootHeader::new_v2, cascette_formats::root::RootHeader::write, cascette_formats::root::RootVersion::detect, cascette_formats::root::RootHeader::read
// @assumes std::fmt::format stubbed (error text only); complement region asserted in c03_root_v2_small_header_kf
// @catches a classic header re-read with the extended layout (or vice versa), swapped / truncated counts, endianness mismatch between write and read, wrong header length
#[kani::proof]
#[kani::unwind(26)]
#[kani::stub(std::fmt::format, fmt_format_empty)]
fn c03_root_v2_header_roundtrip() {
    let t: u32 = kani::any();
    let n: u32 = kani::any();
    let be: bool = kani::any();
    let tail: [u8; 16] = kani::any();
    kani::cover!(t == 15 && n == 3, "just below the window");
    kani::cover!(t == 99 && n == 10, "inside the window with >= 10 named files");
    kani::cover!(t == 100 && n == 0, "just above the window");
    kani::assume(!(t >= 16 && t <= 99 && n <= 9));
    let h = if be {
        RootHeader::V2 { magic: RootMagic::Mfst, info: RootHeaderInfo { total_files: t, named_files: n } }
    } else {
        RootHeader::new_v2(t, n)
    };
    let mut buf = [0u8; 28];
    let len = write_header(&h, &mut buf);
    assert!(len == 12, "classic header is 12 bytes");
    let mut k = 0;
    while k < 16 {
        buf[12 + k] = tail[k];
        k += 1;
    }
    let mut cur = Cursor::new(&buf[..]);
    let d = RootVersion::detect(&mut cur);
    assert!(matches!(&d, Ok(RootVersion::V2)), "classic V2 header not detected as V2");
    let r = RootHeader::read(&mut cur, RootVersion::V2);
    match &r {
        Ok(RootHeader::V2 { magic, info }) => {
            assert!(info.total_files == t && info.named_files == n, "counts changed in the round trip");
            assert!(magic.is_little_endian() == !be, "magic changed in the round trip");
            assert!(cur.position() == 12, "blocks must start at offset 12");
        }
        _ => assert!(false, "classic V2 header not read back as a classic V2 header"),
    }
    std::mem::forget(r);
    std::mem::forget(d);
}

// @harness prop=C03 tier=quick timeout=300 role=root-v2-small-header-kf
// @bounds classic V2 header as emitted by the builder with total_files in 16..=99 and named_files in 0..=9 (the exact complement of c03_root_v2_header_roundtrip), TSFM or MFST, followed by 16 symbolic bytes and zero padding to 104 bytes
// @encodes cascette_formats::root::RootHeader::new_v2, cascette_formats::root::RootHeader::write, cascette_formats::root::RootVersion::detect, cascette_formats::root::RootHeader::read
// @assumes std::fmt::format stubbed (error text only)
// @catches KNOWN DEFECT of /repo: a small classic V2 root (16..=99 files, fewer than 10 named files) is read back with the extended header layout
#[kani::proof]
#[kani::unwind(26)]
#[kani::stub(std::fmt::format, fmt_format_empty)]
fn c03_root_v2_small_header_kf() {
    let t: u32 = kani::any();
    let n: u32 = kani::any();
    let be: bool = kani::any();
    let tail: [u8; 16] = kani::any();
    kani::assume(t >= 16 && t <= 99 && n <= 9);
    let h = if be {
        RootHeader::V2 { magic: RootMagic::Mfst, info: RootHeaderInfo { total_files: t, named_files: n } }
    } else {
        RootHeader::new_v2(t, n)
    };
    let mut hb = [0u8; 28];
    let len = write_header(&h, &mut hb);
    assert!(len == 12, "classic header is 12 bytes");
    // 104 bytes: the mis-read header_size (= total_files <= 99) never runs into EOF, so the failure
    // shown is the layout confusion itself
    let mut buf = [0u8; 104];
    let mut k = 0;
    while k < 12 {
        buf[k] = hb[k];
        k += 1;
    }
    let mut k = 0;
    while k < 16 {
        buf[12 + k] = tail[k];
        k += 1;
    }
    let mut cur = Cursor::new(&buf[..]);
    let d = RootVersion::detect(&mut cur);
    let dv = match &d {
        Ok(v) => *v,
        Err(_) => {
            assert!(false, "detect failed");
            return;
        }
    };
    let r = RootHeader::read(&mut cur, dv);
    kani::cover!(n == 0, "no named files");
    let ok = match &r {
        Ok(RootHeader::V2 { info, .. }) => info.total_files == t && info.named_files == n,
        _ => false,
    };
    assert!(ok, "KF: classic V2 header with total_files in 16..=99 and named_files <= 9 is not read back as V2 with the same counts");
    std::mem::forget(r);
    std::mem::forget(d);
}

// @harness prop=C03 tier=quick timeout=300 role=root-readers-disagree-kf
// @bounds 104-byte buffer, magic MFST/TSFM symbolic, value1 in 16..=99, value2 in {0,5..=9} (the exact complement of c03_root_readers_agree), bytes 12..24 symbolic, rest zero
// @encodes cascette_formats::root::RootVersion::detect, cascette_formats::root::RootHeader::read, cascette_formats::root::RootHeader::version
// @assumes std::fmt::format stubbed (error text only)
// @catches KNOWN DEFECT of /repo: detect classifies the prefix as a classic V2 header, read parses it as an extended header (V3/V4 block format)
#[kani::proof]
#[kani::unwind(26)]
#[kani::stub(std::fmt::format, fmt_format_empty)]
fn c03_root_readers_disagree_kf() {
    let le: bool = kani::any();
    let sym: [u8; 20] = kani::any();
    let mut buf = [0u8; 104];
    let m = if le { *b"TSFM" } else { *b"MFST" };
    let mut k = 0;
    while k < 4 {
        buf[k] = m[k];
        k += 1;
    }
    let mut k = 0;
    while k < 20 {
        buf[4 + k] = sym[k];
        k += 1;
    }
    let (v1, v2) = (word(&buf, 4, le), word(&buf, 8, le));
    kani::assume(kf_region(v1, v2));
    let mut cur = Cursor::new(&buf[..]);
    let d = RootVersion::detect(&mut cur);
    let dv = match &d {
        Ok(v) => *v,
        Err(_) => {
            assert!(false, "detect failed");
            return;
        }
    };
    let r = RootHeader::read(&mut cur, dv);
    kani::cover!(v2 == 0, "version field 0");
    let agree = match &r {
        Ok(hd) => hd.version() == dv && matches!(hd, RootHeader::V2 { .. }),
        Err(_) => false,
    };
    assert!(agree, "KF: RootVersion::detect says classic V2 but RootHeader::read parses an extended header (value1 in 16..100, value2 = 0 or 5..=9)");
    std::mem::forget(r);
    std::mem::forget(d);
}

// @harness prop=C03 tier=quick timeout=300 role=root-v3v4-header-roundtrip
// @bounds extended header as emitted by the builder (new_v3v4: header_size 20) with version in {1,2,3,4} symbolic, total_files / named_files symbolic over u32, TSFM or MFST; plus header_size 24 with a symbolic padding word; followed by symbolic bytes
// @encodes cascette_formats::root::RootHeader::new_v3v4, cascette_formats::root::RootHeader::write, cascette_formats::root::RootVersion::detect, cascette_formats::root::RootHeader::read, cascette_formats::root::RootHeader::version
// @assumes std::fmt::format stubbed (error text only)
// @catches extended header re-read as classic, version field -> block format mapping (1,2 -> V2; 3 -> V3; 4 -> V4), counts swapped, padding word written/skipped inconsistently
#[kani::proof]
#[kani::unwind(26)]
#[kani::stub(std::fmt::format, fmt_format_empty)]
fn c03_root_v3v4_header_roundtrip() {
    let t: u32 = kani::any();
    let n: u32 = kani::any();
    let ver: u32 = kani::any();
    let be: bool = kani::any();
    let pad24: bool = kani::any();
    let padding: u32 = kani::any();
    let tail: [u8; 4] = kani::any();
    kani::assume(ver >= 1 && ver <= 4);
    let h = if be || pad24 {
        RootHeader::V3V4 {
            magic: if be { RootMagic::Mfst } else { RootMagic::Tsfm },
            header_size: if pad24 { 24 } else { 20 },
            version: ver,
            info: RootHeaderInfo { total_files: t, named_files: n },
            padding: if pad24 { padding } else { 0 },
        }
    } else {
        RootHeader::new_v3v4(ver, t, n)
    };
    let mut buf = [0u8; 28];
    let len = write_header(&h, &mut buf);
    assert!(len == if pad24 { 24 } else { 20 }, "extended header length");
    let mut k = 0;
    while k < 4 {
        buf[len + k] = tail[k];
        k += 1;
    }
    let mut cur = Cursor::new(&buf[..]);
    let d = RootVersion::detect(&mut cur);
    let want = match ver {
        1 | 2 => RootVersion::V2,
        3 => RootVersion::V3,
        _ => RootVersion::V4,
    };
    let dv = match &d {
        Ok(v) => *v,
        Err(_) => {
            assert!(false, "detect failed");
            return;
        }
    };
    assert!(dv == want, "extended header: detected version differs from the version field");
    let r = RootHeader::read(&mut cur, dv);
    match &r {
        Ok(hd) => {
            assert!(*hd == h, "extended header changed in the round trip");
            assert!(hd.version() == want, "header.version() differs from the version field");
            assert!(hd.total_files() == t && hd.named_files() == n, "counts changed in the round trip");
            assert!(cur.position() as usize == len, "blocks must start right after the header");
        }
        Err(_) => assert!(false, "extended header not read back"),
    }
    kani::cover!(ver == 4 && pad24 && t == 20 && n == 0, "V4, padded, small counts");
    kani::cover!(ver == 1 && !pad24 && !be, "version 1 via new_v3v4");
    std::mem::forget(r);
    std::mem::forget(d);
}
