use crate::stubs::*;
use cascette_formats::root::{RootHeader, RootHeaderInfo, RootMagic, RootVersion};
use std::io::Cursor;

// characterisation (not registered): EVERY point of the region fails
#[kani::proof]
#[kani::unwind(26)]
#[kani::stub(std::fmt::format, fmt_format_empty)]
fn x_region_all_fail() {
    let t: u32 = kani::any();
    let n: u32 = kani::any();
    let tail: [u8; 16] = kani::any();
    kani::assume(t >= 16 && t <= 99 && n <= 9);
    let h = RootHeader::new_v2(t, n);
    let mut buf = [0u8; 104];
    {
        let mut cur = Cursor::new(&mut buf[..]);
        let r = h.write(&mut cur);
        std::mem::forget(r);
    }
    let mut k = 0;
    while k < 16 { buf[12 + k] = tail[k]; k += 1; }
    let mut cur = Cursor::new(&buf[..]);
    let d = RootVersion::detect(&mut cur);
    let dv = match &d { Ok(v) => *v, Err(_) => { assert!(false); return; } };
    let r = RootHeader::read(&mut cur, dv);
    let ok = match &r {
        Ok(RootHeader::V2 { info, .. }) => info.total_files == t && info.named_files == n,
        _ => false,
    };
    assert!(!ok, "some point of the region is read back correctly");
    // and what is returned instead
    match &r {
        Ok(RootHeader::V3V4 { header_size, version, .. }) => assert!(*header_size == t && *version == n),
        _ => assert!(false, "not an extended header"),
    }
    // detect: V2 classic for n in {0,5..9}; for n in 1..=4 by version
    let want = if n == 3 { RootVersion::V3 } else if n == 4 { RootVersion::V4 } else { RootVersion::V2 };
    assert!(dv == want);
    std::mem::forget(r);
    std::mem::forget(d);
}
