// C03 (encoding table part) — page-index lookups agree with a linear scan of all entries.
//
// An `EncodingFile` value is constructed directly (all fields are public) in the representation the
// builder emits: pages non-empty, keys strictly increasing across the concatenation of the pages,
// `index[p].first_key == pages[p].entries[0].key` (established by c03_enc_builder_* for the real
// builder).  Shape (entries per page) is concrete per harness; all 16 key bytes of every entry and of
// every probe are symbolic.
use crate::stubs::*;
use cascette_crypto::{ContentKey, EncodingKey};
use cascette_formats::encoding::{CKeyPageEntry, EKeyPageEntry, ESpecTable, EncodingFile, EncodingHeader, IndexEntry, Page};

/// N <= 6 symbolic 16-byte keys (drawn as u128 words and written without a loop, so that the harness
/// itself does not force a larger unwind bound than the code under test needs).
pub fn any_keys<const N: usize>() -> [[u8; 16]; N] {
    assert!(N <= 6);
    let mut out = [[0u8; 16]; N];
    if N > 0 {
        out[0] = kani::any::<u128>().to_be_bytes();
    }
    if N > 1 {
        out[1] = kani::any::<u128>().to_be_bytes();
    }
    if N > 2 {
        out[2] = kani::any::<u128>().to_be_bytes();
    }
    if N > 3 {
        out[3] = kani::any::<u128>().to_be_bytes();
    }
    if N > 4 {
        out[4] = kani::any::<u128>().to_be_bytes();
    }
    if N > 5 {
        out[5] = kani::any::<u128>().to_be_bytes();
    }
    out
}

pub fn any_ekeys<const N: usize>() -> [[[u8; 16]; 2]; N] {
    assert!(N <= 6);
    let mut out = [[[0u8; 16]; 2]; N];
    if N > 0 {
        out[0] = any_keys::<2>();
    }
    if N > 1 {
        out[1] = any_keys::<2>();
    }
    if N > 2 {
        out[2] = any_keys::<2>();
    }
    if N > 3 {
        out[3] = any_keys::<2>();
    }
    if N > 4 {
        out[4] = any_keys::<2>();
    }
    if N > 5 {
        out[5] = any_keys::<2>();
    }
    out
}

#[inline]
pub fn kv(b: &[u8; 16]) -> u128 {
    u128::from_be_bytes(*b)
}

/// Number of encoding keys of the g-th content key (concrete pattern 1,2,1,2,..).
pub const fn nk(g: usize) -> usize {
    1 + (g % 2)
}

pub fn mk_ckey_file(shape: &[usize], keys: &[[u8; 16]], ek: &[[[u8; 16]; 2]]) -> EncodingFile {
    let mut pages = Vec::new();
    let mut index = Vec::new();
    let (mut g, mut p) = (0, 0);
    while p < shape.len() {
        let mut entries = Vec::new();
        let mut e = 0;
        while e < shape[p] {
            let mut eks = Vec::new();
            eks.push(EncodingKey::from_bytes(ek[g][0]));
            if nk(g) == 2 {
                eks.push(EncodingKey::from_bytes(ek[g][1]));
            }
            entries.push(CKeyPageEntry { key_count: nk(g) as u8, file_size: 0, content_key: ContentKey::from_bytes(keys[g]), encoding_keys: eks });
            if e == 0 {
                index.push(IndexEntry::new(keys[g], [0u8; 16]));
            }
            g += 1;
            e += 1;
        }
        pages.push(Page { entries, original_data: Vec::new() });
        p += 1;
    }
    EncodingFile {
        header: EncodingHeader::new(),
        espec_table: ESpecTable { entries: Vec::new() },
        ckey_index: index,
        ckey_pages: pages,
        ekey_index: Vec::new(),
        ekey_pages: Vec::new(),
        trailing_espec: None,
    }
}

/// Linear scan: position of `probe` among all keys (keys are distinct).  Written out for <= 6 keys.
pub fn scan(keys: &[[u8; 16]], probe: &[u8; 16]) -> Option<usize> {
    let n = keys.len();
    assert!(n <= 6);
    let p = kv(probe);
    let mut found = None;
    if n > 0 && kv(&keys[0]) == p {
        found = Some(0);
    }
    if n > 1 && kv(&keys[1]) == p {
        found = Some(1);
    }
    if n > 2 && kv(&keys[2]) == p {
        found = Some(2);
    }
    if n > 3 && kv(&keys[3]) == p {
        found = Some(3);
    }
    if n > 4 && kv(&keys[4]) == p {
        found = Some(4);
    }
    if n > 5 && kv(&keys[5]) == p {
        found = Some(5);
    }
    found
}

pub fn assume_increasing(keys: &[[u8; 16]]) {
    let n = keys.len();
    assert!(n <= 6);
    if n > 1 {
        kani::assume(kv(&keys[0]) < kv(&keys[1]));
    }
    if n > 2 {
        kani::assume(kv(&keys[1]) < kv(&keys[2]));
    }
    if n > 3 {
        kani::assume(kv(&keys[2]) < kv(&keys[3]));
    }
    if n > 4 {
        kani::assume(kv(&keys[3]) < kv(&keys[4]));
    }
    if n > 5 {
        kani::assume(kv(&keys[4]) < kv(&keys[5]));
    }
}

macro_rules! enc_ckey_find {
    ($name:ident, $n:expr, $shape:expr, $u:expr) => {
        #[kani::proof]
        #[kani::unwind($u)]
        fn $name() {
            const N: usize = $n;
            const SHAPE: &[usize] = &$shape;
            let keys: [[u8; 16]; N] = any_keys::<N>();
            let ek: [[[u8; 16]; 2]; N] = any_ekeys::<N>();
            let probe: [u8; 16] = kani::any::<u128>().to_be_bytes();
            assume_increasing(&keys);
            let f = mk_ckey_file(SHAPE, &keys, &ek);
            let want = scan(&keys, &probe);
            let pk = ContentKey::from_bytes(probe);
            let r = f.find_encoding(&pk);
            match (r, want) {
                (None, None) => {}
                (Some(e), Some(g)) => assert!(kv(e.as_bytes()) == kv(&ek[g][0]), "find_encoding returned another entry's key"),
                (Some(_), None) => assert!(false, "find_encoding found a key that was never inserted"),
                (None, Some(_)) => assert!(false, "find_encoding missed an inserted key"),
            }
            let first_of_last = N - SHAPE[SHAPE.len() - 1];
            kani::cover!(want == Some(first_of_last), "probe is the first key of the last page");
            kani::cover!(want == Some(first_of_last - 1), "probe is the last key of the page before");
            kani::cover!(want.is_none() && kv(&probe) > kv(&keys[first_of_last]), "absent probe inside the last page's range");
            std::mem::forget(f);
        }
    };
}
// @family prop=C03 tier=quick timeout=900 role=encoding-ckey-find
// @bounds shape per harness = entries per CKey page (name: p<entries>_<entries>..), 2-3 pages x 1-2 entries; all 16 bytes of every content key, of every encoding key (1 or 2 per content key, pattern 1,2,1,2..) and of the probe symbolic (so present keys, key+-1 neighbours, first key of a later page, all-00 / all-FF are included)
// @encodes cascette_formats::encoding::EncodingFile::find_encoding
// @assumes builder invariant: pages non-empty, content keys strictly increasing over the concatenated pages, index first_key = first entry key of its page (established for EncodingBuilder by c03_enc_builder_*); CBMC flags from Cargo.toml: --unwindset memcmp.0:18, --max-field-sensitivity-array-size 1024
// @catches partition_point with < instead of <= (first key of a later page lost), page_idx off by one, scan of the wrong page, first vs last encoding key, key compared on fewer than 16 bytes
enc_ckey_find!(c03_enc_ckey_find_p2_2, 4, [2, 2], 3);
enc_ckey_find!(c03_enc_ckey_find_p1_2_1, 4, [1, 2, 1], 4);
enc_ckey_find!(c03_enc_ckey_find_p2_1_2, 5, [2, 1, 2], 4);
// @end

// find_all_encodings clones the found entry's Vec; with more than one page the entry (and so the
// size of the clone) is symbolic, which the model checker cannot handle (symbolic-size heap object).
// Shapes are kept tiny for that reason.
macro_rules! enc_ckey_find_all {
    ($name:ident, $n:expr, $shape:expr, $u:expr) => {
        #[kani::proof]
        #[kani::unwind($u)]
        fn $name() {
            const N: usize = $n;
            const SHAPE: &[usize] = &$shape;
            let keys: [[u8; 16]; N] = any_keys::<N>();
            let ek: [[[u8; 16]; 2]; N] = any_ekeys::<N>();
            let probe: [u8; 16] = kani::any::<u128>().to_be_bytes();
            let j: usize = kani::any();
            assume_increasing(&keys);
            let f = mk_ckey_file(SHAPE, &keys, &ek);
            let want = scan(&keys, &probe);
            let pk = ContentKey::from_bytes(probe);
            let ra = f.find_all_encodings(&pk);
            match want {
                None => assert!(ra.is_empty(), "find_all_encodings found a key that was never inserted"),
                Some(g) => {
                    assert!(ra.len() == nk(g), "find_all_encodings: wrong number of encoding keys");
                    if j < ra.len() {
                        assert!(kv(ra[j].as_bytes()) == kv(&ek[g][j]), "find_all_encodings: wrong / reordered encoding key");
                    }
                }
            }
            kani::cover!(want == Some(0), "probe is the first key of the first page");
            kani::cover!(want == Some(N - 1) && j == 1, "last key, second encoding key observed");
            kani::cover!(want.is_none() && kv(&probe) < kv(&keys[0]), "absent probe below the first page");
            std::mem::forget(ra);
            std::mem::forget(f);
        }
    };
}
// @family prop=C03 tier=quick timeout=900 role=encoding-ckey-find-all
// @bounds one CKey page with 2 entries (p2) and two pages with 1 entry each (p1_1: 1 resp. 2 encoding keys, so the page choice decides the size of the cloned list); larger multi-page shapes make the cloned Vec's size symbolic over more cases and ran out of memory; 16-byte content keys, encoding keys (1,2,1,2 per entry) and probe fully symbolic
// @encodes cascette_formats::encoding::EncodingFile::find_all_encodings
// @assumes builder invariant as in encoding-ckey-find
// @catches <= vs < on a page's first key, page_idx off by one, wrong page, only the first / a truncated list of encoding keys returned, order of encoding keys
enc_ckey_find_all!(c03_enc_ckey_find_all_p2, 2, [2], 3);
enc_ckey_find_all!(c03_enc_ckey_find_all_p1_1, 2, [1, 1], 3);
// @end
// @family prop=C03 tier=thorough timeout=3300 mem=24 role=encoding-ckey-find-all-p4
// @bounds one page with 4 entries; everything else as above
// @encodes cascette_formats::encoding::EncodingFile::find_all_encodings
// @assumes builder invariant as in encoding-ckey-find
// @catches as encoding-ckey-find-all with a longer in-page scan
enc_ckey_find_all!(c03_enc_ckey_find_all_p4, 4, [4], 5);
// @end

macro_rules! enc_ckey_batch {
    ($name:ident, $n:expr, $shape:expr, $u:expr, $all:expr) => {
        #[kani::proof]
        #[kani::unwind($u)]
        fn $name() {
            const N: usize = $n;
            const SHAPE: &[usize] = &$shape;
            let keys: [[u8; 16]; N] = any_keys::<N>();
            let ek: [[[u8; 16]; 2]; N] = any_ekeys::<N>();
            let probes: [[u8; 16]; 2] = any_keys::<2>();
            let j: usize = kani::any();
            let q: usize = kani::any();
            kani::assume(q < 2);
            assume_increasing(&keys);
            let f = mk_ckey_file(SHAPE, &keys, &ek);
            let pks = [ContentKey::from_bytes(probes[0]), ContentKey::from_bytes(probes[1])];
            let want = scan(&keys, &probes[q]);
            if !$all {
                let rb = f.batch_find_encodings(&pks);
                assert!(rb.len() == 2, "batch result length");
                match (rb[q], want) {
                    (None, None) => {}
                    (Some(e), Some(g)) => assert!(kv(e.as_bytes()) == kv(&ek[g][0]), "batch_find_encodings: result of another key"),
                    (Some(_), None) => assert!(false, "batch_find_encodings found a key that was never inserted"),
                    (None, Some(_)) => assert!(false, "batch_find_encodings missed an inserted key"),
                }
                std::mem::forget(rb);
            } else {
                let ra = f.batch_find_all_encodings(&pks);
                assert!(ra.len() == 2, "batch result length");
                match want {
                    None => assert!(ra[q].is_empty(), "batch_find_all_encodings found a key that was never inserted"),
                    Some(g) => {
                        assert!(ra[q].len() == nk(g), "batch_find_all_encodings: wrong number of encoding keys");
                        if j < ra[q].len() {
                            assert!(kv(ra[q][j].as_bytes()) == kv(&ek[g][j]), "batch_find_all_encodings: wrong encoding key");
                        }
                    }
                }
                std::mem::forget(ra);
            }
            let first_of_last = N - SHAPE[SHAPE.len() - 1];
            kani::cover!(kv(&probes[0]) > kv(&probes[1]) && want.is_some(), "unsorted batch, observed probe present");
            kani::cover!(want == Some(first_of_last), "observed probe is the first key of the last page");
            kani::cover!(kv(&probes[0]) == kv(&probes[1]) && want.is_some(), "duplicate probes");
            std::mem::forget(f);
        }
    };
}
// @family prop=C03 tier=quick timeout=900 role=encoding-ckey-batch
// @bounds 2 CKey pages x 2 entries; batch of 2 fully symbolic probes in any order (sorted, unsorted, equal), observed position symbolic
// @encodes cascette_formats::encoding::EncodingFile::batch_find_encodings
// @assumes builder invariant as in encoding-ckey-find
// @catches >= vs > against the next page's first key, result stored at the sorted instead of the original position, cursor not advanced / advanced too far between pages, probe below the first page
enc_ckey_batch!(c03_enc_ckey_batch_p2_2, 4, [2, 2], 3, false);
// @end
// NOT REGISTERED (measured in the thorough tier: tool error / out of memory after 241 s, 2.9 M variables; earlier
// attempts did not finish in 19 min): batch_find_encodings on 3 pages (1,2,1 entries).
// enc_ckey_batch!(c03_enc_ckey_batch_p1_2_1, 4, [1, 2, 1], 4, false);
// batch_find_all_encodings is OUT OF REACH (stated in the report): `results[orig_idx].clone_from(&entry.encoding_keys)`
// writes a Vec at a symbolic position; measured: batch of 2 on 2x2 entries exhausts 24 GB, batch of 1 exhausts 16 GB
// during propositional reduction (harness body = enc_ckey_batch! with the last argument `true`).  Its page-walk is a
// textual copy of batch_find_encodings, which is covered above.

// ---- EKey side ---------------------------------------------------------------------------------
pub fn mk_ekey_file(shape: &[usize], keys: &[[u8; 16]], espec: &[u32]) -> EncodingFile {
    let mut pages = Vec::new();
    let mut index = Vec::new();
    let (mut g, mut p) = (0, 0);
    while p < shape.len() {
        let mut entries = Vec::new();
        let mut e = 0;
        while e < shape[p] {
            entries.push(EKeyPageEntry { encoding_key: EncodingKey::from_bytes(keys[g]), espec_index: espec[g], file_size: 0 });
            if e == 0 {
                index.push(IndexEntry::new(keys[g], [0u8; 16]));
            }
            g += 1;
            e += 1;
        }
        pages.push(Page { entries, original_data: Vec::new() });
        p += 1;
    }
    let mut specs = Vec::new();
    specs.push(String::from("n"));
    specs.push(String::from("zz"));
    EncodingFile {
        header: EncodingHeader::new(),
        espec_table: ESpecTable { entries: specs },
        ckey_index: Vec::new(),
        ckey_pages: Vec::new(),
        ekey_index: index,
        ekey_pages: pages,
        trailing_espec: None,
    }
}

pub fn any_u32s<const N: usize>() -> [u32; N] {
    assert!(N <= 6);
    let mut out = [0u32; N];
    if N > 0 {
        out[0] = kani::any();
    }
    if N > 1 {
        out[1] = kani::any();
    }
    if N > 2 {
        out[2] = kani::any();
    }
    if N > 3 {
        out[3] = kani::any();
    }
    if N > 4 {
        out[4] = kani::any();
    }
    if N > 5 {
        out[5] = kani::any();
    }
    out
}

/// The table has two strings of length 1 and 2: the length identifies the entry.
pub fn spec_len(idx: u32) -> Option<usize> {
    match idx {
        0 => Some(1),
        1 => Some(2),
        _ => None,
    }
}

macro_rules! enc_ekey_lookup {
    ($name:ident, $n:expr, $shape:expr, $u:expr, $batch:expr) => {
        #[kani::proof]
        #[kani::unwind($u)]
        fn $name() {
            const N: usize = $n;
            const SHAPE: &[usize] = &$shape;
            let keys: [[u8; 16]; N] = any_keys::<N>();
            let espec: [u32; N] = any_u32s::<N>();
            let probes: [[u8; 16]; 2] = any_keys::<2>();
            let q: usize = kani::any();
            kani::assume(q < 2);
            assume_increasing(&keys);
            let f = mk_ekey_file(SHAPE, &keys, &espec);
            let pks = [EncodingKey::from_bytes(probes[0]), EncodingKey::from_bytes(probes[1])];
            let want = match scan(&keys, &probes[q]) {
                Some(g) => spec_len(espec[g]),
                None => None,
            };
            if !$batch {
                let r = f.find_espec(&pks[q]);
                assert!(r.map(|s| s.len()) == want, "find_espec differs from the linear scan");
            } else {
                let rb = f.batch_find_especs(&pks);
                assert!(rb.len() == 2, "batch result length");
                assert!(rb[q].map(|s| s.len()) == want, "batch_find_especs differs from the linear scan");
                std::mem::forget(rb);
            }
            let first_of_last = N - SHAPE[SHAPE.len() - 1];
            kani::cover!(scan(&keys, &probes[q]) == Some(first_of_last) && want == Some(2), "first key of the last page, second espec");
            kani::cover!(kv(&probes[0]) > kv(&probes[1]) && want.is_some(), "unsorted batch, observed probe present");
            kani::cover!(scan(&keys, &probes[q]).is_some() && want.is_none(), "present key with an espec index outside the table");
            std::mem::forget(f);
        }
    };
}
// @family prop=C03 tier=quick timeout=900 role=encoding-ekey-lookup
// @bounds shape per harness = entries per EKey page; *_find_* drive find_espec, *_batch_* drive batch_find_especs; all 16 bytes of every encoding key and of both probes symbolic, espec_index symbolic over u32 (table has 2 strings), batch of 2 probes in any order, observed position symbolic
// @encodes cascette_formats::encoding::EncodingFile::find_espec, cascette_formats::encoding::EncodingFile::batch_find_especs, cascette_formats::encoding::ESpecTable::get
// @assumes builder invariant: pages non-empty, encoding keys strictly increasing, index first_key = first entry key
// @catches page-boundary comparison (<= vs <, >= vs >), wrong page, espec index off by one, result stored at the sorted position
enc_ekey_lookup!(c03_enc_ekey_find_p2_2, 4, [2, 2], 3, false);
enc_ekey_lookup!(c03_enc_ekey_find_p1_2_1, 4, [1, 2, 1], 4, false);
enc_ekey_lookup!(c03_enc_ekey_batch_p2_2, 4, [2, 2], 3, true);
// @end
// @family prop=C03 tier=thorough timeout=3300 mem=24 role=encoding-ekey-batch-wide
// @bounds 3 EKey pages (1,2,1 entries), otherwise as encoding-ekey-lookup
// @encodes cascette_formats::encoding::EncodingFile::batch_find_especs
// @assumes builder invariant as in encoding-ekey-lookup
// @catches as encoding-ekey-lookup, with a middle page
enc_ekey_lookup!(c03_enc_ekey_batch_p1_2_1, 4, [1, 2, 1], 4, true);
// @end
