// C03 (CDN archive index part) — TOC + in-chunk binary search agree with a linear scan.
//
// An `ArchiveIndex` value is constructed directly (all fields public) in the representation
// `ArchiveIndexBuilder::build` emits: entries sorted by key (duplicates allowed), toc[c] = key of the last
// entry of chunk c, chunk = `records_per_block` consecutive entries.  `records_per_block` is computed by the
// lookups from the footer as page_size_kb*1024 / (ekey_length + size_bytes + offset_bytes); it is forced to
// 1..=3 through footer field values (page_size_kb = 1, large size_bytes / offset_bytes) which no other part of
// the lookup path consults.  This is a scale model of the real 4096 / 24 = 170 records per chunk.
use crate::c03_encoding::{any_keys, kv};
use crate::stubs::*;
use cascette_formats::archive::{ArchiveIndex, IndexEntry, IndexFooter};

/// Footer whose fields give exactly `rpb` records per block.
fn footer(rpb: usize, n: usize) -> IndexFooter {
    let (size_bytes, offset_bytes) = match rpb {
        1 => (255u8, 255u8), // record 526 bytes -> 1024/526 = 1
        2 => (255, 100),     // record 371 bytes -> 2
        _ => (255, 20),      // record 291 bytes -> 3
    };
    IndexFooter {
        toc_hash: [0u8; 8],
        version: 1,
        reserved: [0, 0],
        page_size_kb: 1,
        offset_bytes,
        size_bytes,
        ekey_length: 16,
        footer_hash_bytes: 8,
        element_count: n as u32,
        footer_hash: Vec::new(),
    }
}

/// entries[g] = (keys[g], size = g, offset = off[g]); toc as the builder derives it.
fn mk_index(keys: &[[u8; 16]], rpb: usize) -> ArchiveIndex {
    let n = keys.len();
    let mut entries = Vec::new();
    let mut toc = Vec::new();
    let mut g = 0;
    while g < n {
        entries.push(IndexEntry::new(keys[g].to_vec(), g as u32, 0));
        if (g + 1) % rpb == 0 || g + 1 == n {
            toc.push(keys[g].to_vec());
        }
        g += 1;
    }
    ArchiveIndex { entries, toc, footer: footer(rpb, n) }
}

fn assume_sorted(keys: &[[u8; 16]]) {
    let mut g = 0;
    while g + 1 < keys.len() {
        kani::assume(kv(&keys[g]) <= kv(&keys[g + 1]));
        g += 1;
    }
}

/// Linear scan: (index of the first entry whose key equals the probe, number of such entries).
fn scan(keys: &[[u8; 16]], probe: &[u8; 16]) -> (usize, usize) {
    let (mut first, mut cnt) = (usize::MAX, 0);
    let mut g = 0;
    while g < keys.len() {
        if kv(&keys[g]) == kv(probe) {
            if cnt == 0 {
                first = g;
            }
            cnt += 1;
        }
        g += 1;
    }
    (first, cnt)
}

macro_rules! arch_lookup {
    ($name:ident, $n:expr, $rpb:expr, $u:expr, $all:expr) => {
        #[kani::proof]
        #[kani::unwind($u)]
        #[kani::stub(std::fmt::format, fmt_format_empty)]
        fn $name() {
            const N: usize = $n;
            const RPB: usize = $rpb;
            let keys: [[u8; 16]; N] = any_keys::<N>();
            let probe: [u8; 16] = kani::any::<u128>().to_be_bytes();
            let j: usize = kani::any();
            assume_sorted(&keys);
            let idx = mk_index(&keys, RPB);
            let (first, cnt) = scan(&keys, &probe);
            if !$all {
                let r = idx.binary_search_key(&probe);
                match r {
                    None => assert!(cnt == 0, "binary_search_key missed an indexed key"),
                    Some(e) => {
                        assert!(cnt > 0, "binary_search_key found a key that was never indexed");
                        let g = e.size as usize;
                        assert!(g >= first && g < first + cnt, "binary_search_key returned an entry with another key");
                    }
                }
                let r2 = idx.find_entry(&probe);
                assert!(r2.is_some() == (cnt > 0), "find_entry differs from the linear scan");
            } else {
                let m = idx.find_all_key_matches(&probe);
                assert!(m.len() == cnt, "find_all_key_matches: number of matches differs from the linear scan");
                if j < m.len() {
                    assert!(m[j].size as usize == first + j, "find_all_key_matches: wrong entry / order");
                }
                std::mem::forget(m);
            }
            // witnesses: last key of chunk 0 / first key of chunk 1 / long shared prefix over the boundary
            kani::cover!(cnt > 0 && first == RPB - 1, "probe is the last key of the first chunk");
            kani::cover!(cnt > 0 && first == RPB && (kv(&keys[RPB - 1]) >> 56) == (kv(&keys[RPB]) >> 56) && kv(&keys[RPB - 1]) != kv(&keys[RPB]), "first key of chunk 1, sharing a 9-byte prefix with the last key of chunk 0");
            kani::cover!(cnt == 0 && kv(&probe) > kv(&keys[0]) && kv(&probe) < kv(&keys[N - 1]), "absent probe inside the key range");
            std::mem::forget(idx);
        }
    };
}
// @family prop=C03 tier=quick timeout=900 role=archive-index-binary-search
// @bounds N entries (name: n<N>) in chunks of R records (name: r<R>), N<=6, R in 1..=3 (2-3 chunks, last chunk full or partial); all 16 bytes of every key and of the probe symbolic (long shared prefixes across a chunk boundary, duplicates, neighbours, all-00/FF included)
// @encodes cascette_formats::archive::ArchiveIndex::binary_search_key, cascette_formats::archive::ArchiveIndex::find_entry, cascette_formats::archive::ArchiveIndex::records_per_block
// @assumes builder representation: entries sorted (non-strict), toc[c] = last key of chunk c; records-per-block scaled to R through footer fields (scale model of 170); std::fmt::format stubbed; CBMC flags from Cargo.toml: --unwindset memcmp.0:18, --max-field-sensitivity-array-size 1024
// @catches TOC comparison on fewer than all key bytes, chunk start/end off by one, wrong chunk on Err(idx), last partial chunk cut, in-chunk search on a wrong range, idx relative to chunk returned as absolute
arch_lookup!(c03_arch_search_n4_r2, 4, 2, 6, false);
arch_lookup!(c03_arch_search_n5_r2, 5, 2, 7, false);
arch_lookup!(c03_arch_search_n6_r3, 6, 3, 8, false);
arch_lookup!(c03_arch_search_n3_r1, 3, 1, 5, false);
// @end
// @family prop=C03 tier=quick timeout=900 role=archive-index-find-all
// @bounds as archive-index-binary-search; result list compared in length and, at a symbolic position, in content and order
// @encodes cascette_formats::archive::ArchiveIndex::find_all_key_matches, cascette_formats::archive::ArchiveIndex::find_all_entries, cascette_formats::archive::ArchiveIndex::binary_search_key
// @assumes as archive-index-binary-search
// @catches duplicates across a chunk boundary lost, backward / forward scan off by one, matches in wrong order
arch_lookup!(c03_arch_find_all_n4_r2, 4, 2, 6, true);
arch_lookup!(c03_arch_find_all_n5_r2, 5, 2, 7, true);
// @end

// ---- probes of another length than the indexed keys ------------------------------------------------
macro_rules! arch_trunc {
    ($name:ident, $n:expr, $rpb:expr, $pl:expr, $u:expr) => {
        #[kani::proof]
        #[kani::unwind($u)]
        #[kani::stub(std::fmt::format, fmt_format_empty)]
        fn $name() {
            const N: usize = $n;
            const RPB: usize = $rpb;
            const PL: usize = $pl;
            let keys: [[u8; 16]; N] = any_keys::<N>();
            const PLC: usize = if PL <= 16 { PL } else { 16 };
            let a: [u8; 16] = kani::any::<u128>().to_be_bytes();
            let b: [u8; 16] = kani::any::<u128>().to_be_bytes();
            let mut pw = [0u8; 32];
            pw[..16].copy_from_slice(&a);
            pw[16..].copy_from_slice(&b);
            assume_sorted(&keys);
            let idx = mk_index(&keys, RPB);
            let probe = &pw[..PL];
            // a probe of another length equals no 16-byte key: the scan finds nothing
            let r = idx.binary_search_key(probe);
            assert!(r.is_none(), "a probe of another length matched a 16-byte key");
            let m = idx.find_all_key_matches(probe);
            assert!(m.is_empty(), "a probe of another length matched a 16-byte key");
            let c: usize = kani::any();
            kani::cover!(c < N && (kv(&keys[c]) >> (8 * (16 - PLC))) == (kv(&a) >> (8 * (16 - PLC))), "the probe's first min(len,16) bytes are a prefix of an indexed key");
            std::mem::forget(m);
            std::mem::forget(idx);
        }
    };
}
// @family prop=C03 tier=quick timeout=900 role=archive-index-truncated-probe
// @bounds N=4 entries in chunks of 2, 16-byte keys fully symbolic; probe of 9 (truncated) resp. 17 (over-long) symbolic bytes
// @encodes cascette_formats::archive::ArchiveIndex::binary_search_key, cascette_formats::archive::ArchiveIndex::find_all_key_matches
// @assumes as archive-index-binary-search
// @catches prefix match reported as a hit, slice index panic for probes shorter / longer than the TOC keys
arch_trunc!(c03_arch_trunc_probe9, 4, 2, 9, 6);
arch_trunc!(c03_arch_trunc_probe17, 4, 2, 17, 6);
// @end

// ---- validate_toc_consistency ------------------------------------------------------------------------
macro_rules! arch_toc {
    ($name:ident, $n:expr, $rpb:expr, $c:expr, $u:expr) => {
        #[kani::proof]
        #[kani::unwind($u)]
        #[kani::stub(std::fmt::format, fmt_format_empty)]
        fn $name() {
            const N: usize = $n;
            const RPB: usize = $rpb;
            const C: usize = $c; // TOC entries present
            let keys: [[u8; 16]; N] = any_keys::<N>();
            let tk: [[u8; 16]; C] = any_keys::<C>();
            let mut idx = mk_index(&keys, RPB);
            let mut toc = Vec::new();
            let mut c = 0;
            while c < C {
                toc.push(tk[c].to_vec());
                c += 1;
            }
            let old = core::mem::replace(&mut idx.toc, toc);
            std::mem::forget(old);
            // oracle: one TOC key per chunk, equal (all 16 bytes) to the last key of that chunk
            let chunks = (N + RPB - 1) / RPB;
            let mut good = C == chunks;
            let mut c = 0;
            while c < C && c < chunks {
                let last = if (c + 1) * RPB <= N { (c + 1) * RPB - 1 } else { N - 1 };
                good &= kv(&tk[c]) == kv(&keys[last]);
                c += 1;
            }
            let r = idx.verif_validate_toc_consistency();
            assert!(r.is_ok() == good, "validate_toc_consistency differs from the definition of a consistent TOC");
            kani::cover!(if C == chunks { good } else { kv(&tk[0]) == kv(&keys[RPB - 1]) }, "consistent TOC (right length), resp. right first key with a wrong TOC length");
            kani::cover!(!good && (kv(&tk[0]) >> 8) == (kv(&keys[RPB - 1]) >> 8) && kv(&tk[0]) != kv(&keys[RPB - 1]), "first TOC key differing from the chunk's last key only in the last byte");
            std::mem::forget(r);
            std::mem::forget(idx);
        }
    };
}
// @family prop=C03 tier=quick timeout=600 role=archive-index-toc-consistency
// @bounds N entries in chunks of R (name n<N>_r<R>), C TOC keys present (name c<C>: the right number, one fewer, one more); all entry keys and TOC keys fully symbolic and independent
// @encodes cascette_formats::archive::ArchiveIndex::validate_toc_consistency, cascette_formats::archive::ArchiveIndex::records_per_block
// @assumes records-per-block scaled through footer fields; private function reached through the cfg(kani) shim verif_validate_toc_consistency
// @catches TOC key compared on fewer than 16 bytes, first instead of last key of the chunk, last partial chunk skipped, TOC length not checked
arch_toc!(c03_arch_toc_n5_r2_c3, 5, 2, 3, 7);
arch_toc!(c03_arch_toc_n4_r2_c2, 4, 2, 2, 6);
arch_toc!(c03_arch_toc_n4_r2_c1, 4, 2, 1, 6);
arch_toc!(c03_arch_toc_n4_r2_c3, 4, 2, 3, 6);
// @end
