// C03 (encoding builder part) — `EncodingBuilder`'s paging establishes the representation invariant the
// lookup harnesses (c03_encoding.rs) assume, and keeps exactly the inserted mappings.
//
// The private `build_ckey_pages(page_size)` + `build_index` are reached through the cfg(kani) shim
// `verif_build_ckey(page_size_in_bytes)`; the public `build()` only offers page sizes that are multiples
// of 1 KiB (>= 26 entries per page).  A byte-granular page size is the scale model: 80 bytes hold two
// one-key entries (38 bytes each) or one two-key entry (54 bytes).
//
// Keys: the first byte of every content key is concrete and distinct per mapping (so that the sort order
// and with it every Vec length is decided by constant propagation; a symbolic order makes the size of the
// cloned encoding-key lists symbolic, which is out of reach), the other 15 bytes are symbolic.  The
// insertion order (a permutation) is concrete per harness.
use crate::c03_encoding::{any_ekeys, any_keys, kv};
use crate::stubs::*;
use md5_plain;
use cascette_crypto::{ContentKey, EncodingKey};
use cascette_formats::encoding::{CKeyEntryData, EncodingBuilder};

/// md5::compute stand-in: an arbitrary digest (page checksums are not part of this property).
fn md5_any<T: AsRef<[u8]>>(_data: T) -> md5_plain::Digest {
    md5_plain::Digest([0u8; 16])
}

macro_rules! enc_builder_ckey {
    ($name:ident, $m:expr, $first:expr, $nk:expr, $page:expr, $shape:expr, $u:expr) => {
        #[kani::proof]
        #[kani::unwind($u)]
        #[kani::stub(std::fmt::format, fmt_format_empty)]
        #[kani::stub(md5_plain::compute, md5_any)]
        fn $name() {
            const M: usize = $m;
            const FIRST: [u8; M] = $first; // concrete first key byte per mapping, in insertion order
            const NK: [usize; M] = $nk; // encoding keys per mapping, in insertion order
            const PAGE: usize = $page;
            const SHAPE: &[usize] = &$shape; // expected entries per page
            let mut keys: [[u8; 16]; M] = any_keys::<M>();
            let ek: [[[u8; 16]; 2]; M] = any_ekeys::<M>();
            let sizes: [u64; M] = [kani::any(); M];
            let g: usize = kani::any();
            let q: usize = kani::any();
            kani::assume(g < M && q < 2);
            let mut b = EncodingBuilder::new();
            let mut i = 0;
            while i < M {
                keys[i][0] = FIRST[i];
                let mut eks = Vec::new();
                eks.push(EncodingKey::from_bytes(ek[i][0]));
                if NK[i] == 2 {
                    eks.push(EncodingKey::from_bytes(ek[i][1]));
                }
                b.add_ckey_entry(CKeyEntryData { content_key: ContentKey::from_bytes(keys[i]), file_size: sizes[i], encoding_keys: eks });
                i += 1;
            }
            let r = b.verif_build_ckey(PAGE);
            let (index, pages) = match &r {
                Ok(x) => (&x.0, &x.1),
                Err(_) => {
                    assert!(false, "builder failed");
                    return;
                }
            };
            // shape: pages non-empty, greedy fill, one index entry per page
            assert!(pages.len() == SHAPE.len(), "number of pages");
            assert!(index.len() == pages.len(), "one index entry per page");
            let (mut p, mut total) = (0, 0);
            let mut prev: Option<u128> = None;
            let mut seen_g = 0usize;
            while p < SHAPE.len() {
                assert!(pages[p].entries.len() == SHAPE[p], "entries in page (greedy paging by byte size)");
                assert!(!pages[p].entries.is_empty(), "empty page");
                assert!(kv(&index[p].first_key) == kv(pages[p].entries[0].content_key.as_bytes()), "index first_key is not the first key of its page");
                let mut e = 0;
                while e < SHAPE[p] {
                    let en = &pages[p].entries[e];
                    let k = kv(en.content_key.as_bytes());
                    if let Some(pk) = prev {
                        assert!(pk < k, "keys not strictly increasing over the concatenated pages");
                    }
                    prev = Some(k);
                    // the mapping g is stored exactly once, with its size and all its encoding keys in order
                    if k == kv(&keys[g]) {
                        seen_g += 1;
                        assert!(en.file_size == sizes[g], "file size of a mapping changed");
                        assert!(en.key_count as usize == NK[g] && en.encoding_keys.len() == NK[g], "number of encoding keys changed");
                        if q < NK[g] {
                            assert!(kv(en.encoding_keys[q].as_bytes()) == kv(&ek[g][q]), "encoding key of a mapping changed");
                        }
                    }
                    total += 1;
                    e += 1;
                }
                p += 1;
            }
            assert!(total == M, "number of stored mappings");
            assert!(seen_g == 1, "an inserted mapping is missing or duplicated");
            kani::cover!(g == M - 1 && q + 1 == NK[M - 1], "last inserted mapping, its last encoding key observed");
            kani::cover!(g == 0, "first inserted mapping observed");
            std::mem::forget(r);
            std::mem::forget(b);
        }
    };
}
// @family prop=C03 tier=quick timeout=900 role=encoding-builder-ckey-invariant
// @bounds 3 mappings inserted in a concrete order per harness (name: the order of the first key bytes), first key byte concrete and distinct, other 15 key bytes / encoding keys (1 or 2 per mapping, concrete pattern per harness) / file sizes symbolic; page size 80 or 40 bytes (scale model of 4096: 2 resp. 1 one-key entries per page, a two-key entry of 54 bytes fills resp. overflows a page)
// @encodes cascette_formats::encoding::EncodingBuilder::add_ckey_entry, cascette_formats::encoding::EncodingBuilder::build_ckey_pages, cascette_formats::encoding::EncodingBuilder::build_index, cascette_formats::encoding::EncodingBuilder::serialize_ckey_page
// @assumes md5::compute replaced by a constant digest (page checksums are not observed); std::fmt::format stubbed; page size in bytes through the cfg(kani) shim verif_build_ckey (public build() only offers multiples of 1 KiB); distinct content keys
// @catches entries not sorted / sorted descending, page split with >= instead of > (or size accounting off by the key_count byte), entry lost or duplicated at a page switch, last instead of first key in the index, key_count / encoding keys truncated
enc_builder_ckey!(c03_enc_builder_ckey_312_page80, 3, [0x30, 0x10, 0x20], [1, 1, 1], 80, [2, 1], 5);
enc_builder_ckey!(c03_enc_builder_ckey_231_page80_mixed, 3, [0x20, 0x30, 0x10], [2, 1, 1], 80, [1, 1, 1], 5);
enc_builder_ckey!(c03_enc_builder_ckey_123_page76, 3, [0x10, 0x20, 0x30], [1, 1, 2], 76, [2, 1], 5);
enc_builder_ckey!(c03_enc_builder_ckey_321_page40, 3, [0x30, 0x20, 0x10], [1, 2, 1], 40, [1, 1, 1], 5);
// @end

// EKey side (build_ekey_pages): OUT OF REACH.  It builds and queries a std HashMap<&String, u32> of espec strings;
// measured with the analogous harness (3 entries, 2 concrete espec strings, RandomState pinned, page size 50 bytes via
// verif_build_ekey): symex 408 s, hashbrown probe loops do not constant-fold, CBMC out of memory at 24 GB.  Its paging
// loop is a textual copy of build_ckey_pages (covered above); the shim verif_build_ekey stays available.
