#!/bin/sh
# validation of the thorough tiers (evidence goes to .work/thorough-evidence, not to evidence/)
for p in "$@"; do
  echo "=== $p $(date +%H:%M:%S)" >> /verif/.work/thoroughrun.log
  (cd /verif && VERIF_EVIDENCE_TO=/verif/.work/thorough-evidence VERIF_JOBS=${VERIF_JOBS:-12} ./check $p --tier thorough > /verif/.work/thorough-$p.log 2>&1; echo "exit=$?" >> /verif/.work/thorough-$p.log)
  grep -E "^\[(CEX|ERROR|TIMEOUT|UNWIND|VACUOUS)|^INCONCLUSIVE|^VIOLATION|^OK |^exit" /verif/.work/thorough-$p.log | tail -12 >> /verif/.work/thoroughrun.log
done
echo "=== all done $(date +%H:%M:%S)" >> /verif/.work/thoroughrun.log
