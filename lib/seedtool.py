#!/usr/bin/env python3
"""seedtool confirm <dir>            : confirm a delivered seeded change in its scratch worktree
   seedtool detect <seeded-id> [tier] [--only substr] : apply /verif/seeded/<id>/patch.diff to /repo, run the check, revert
   seedtool keep <dir> <id>          : copy a confirmed delivery into /verif/seeded/<id>/"""
import json, os, re, shutil, subprocess, sys, time
from pathlib import Path

def sh(cmd, cwd=None, timeout=3600):
    p = subprocess.run(cmd, shell=True, cwd=cwd, capture_output=True, text=True, timeout=timeout)
    return p.returncode, p.stdout + p.stderr

def demo_info(d):
    d = Path(d)
    rs = sorted((d / "demo").glob("*.rs"))
    readme = "".join(p.read_text() for p in (d / "demo").glob("README*"))
    m = re.search(r"-p (\S+)", readme)
    crate = m.group(1)
    return rs, crate

def confirm(d):
    d = Path(d)
    meta = json.loads((d / "meta.json").read_text())
    pid = meta["property"]
    wt = Path(f"/tmp/wt-{pid}")
    rs, crate = demo_info(d)
    res = {}
    sh("git checkout -- . && git clean -fdq crates", wt)
    tests = wt / "crates" / crate / "tests"
    made = not tests.exists()
    tests.mkdir(exist_ok=True)
    for r in rs:
        shutil.copy(r, tests / r.name)
    names = " ".join(f"--test {r.stem}" for r in rs)
    rc, out = sh(f"cargo test -p {crate} --offline {names}", wt)
    res["demo_without_change"] = "pass" if rc == 0 else "fail"
    rc, out = sh(f"git apply {d/'patch.diff'}", wt)
    if rc != 0:
        print("patch does not apply", out); return 1
    rc, out = sh(f"cargo test -p {crate} --offline {names}", wt)
    res["demo_with_change"] = "pass" if rc == 0 else "fail"
    for r in rs:
        (tests / r.name).unlink()
    if made:
        shutil.rmtree(tests)
    for attempt in range(3):  # two env-var tests in cascette-protocol::retry are flaky under load
        rc, out = sh("cargo test --workspace --no-fail-fast --offline", wt)
        passed = sum(int(x) for x in re.findall(r"test result: \w+\. (\d+) passed", out))
        failed = sum(int(x) for x in re.findall(r"test result: \w+\. \d+ passed; (\d+) failed", out))
        names = re.findall(r"^test (\S+) \.\.\. FAILED", out, re.M)
        res.setdefault("suite_failures_seen", []).append(names)
        if rc == 0 or not all("retry::tests::" in n for n in names):
            break
    res["suite_with_change"] = f"rc={rc} passed={passed} failed={failed}"
    sh("git checkout -- . && git clean -fdq crates", wt)
    ok = res["demo_without_change"] == "pass" and res["demo_with_change"] == "fail" and rc == 0 and failed == 0
    res["confirmed"] = ok
    print(json.dumps(res))
    (d / "confirm.json").write_text(json.dumps(res, indent=1))
    return 0 if ok else 1

def keep(d, sid):
    d = Path(d)
    dst = Path("/verif/seeded") / sid
    if dst.exists():
        shutil.rmtree(dst)
    dst.mkdir(parents=True)
    shutil.copy(d / "patch.diff", dst / "patch.diff")
    shutil.copytree(d / "demo", dst / "demo")
    meta = json.loads((d / "meta.json").read_text())
    if (d / "confirm.json").exists():
        meta["confirmed_by_me"] = json.loads((d / "confirm.json").read_text())
    (dst / "meta.json").write_text(json.dumps(meta, indent=1))
    print("kept", dst)

def detect(sid, tier="quick", only=None, prop=None):
    """Runs the check against a scratch worktree of /repo HEAD with the seeded patch applied
    (VERIF_REPO), so /repo itself stays untouched while other checks are running."""
    dst = Path("/verif/seeded") / sid
    meta = json.loads((dst / "meta.json").read_text())
    pid = prop or meta["property"]
    wt = Path(f"/tmp/seedwt-{sid}")
    sh(f"git -C /repo worktree remove --force {wt}")
    rc, out = sh(f"git -C /repo worktree add -q --detach {wt} HEAD")
    if rc != 0:
        print("worktree failed", out); return 2
    rc, out = sh(f"git apply {dst/'patch.diff'}", wt)
    if rc != 0:
        print("patch does not apply", out); sh(f"git -C /repo worktree remove --force {wt}"); return 2
    t0 = time.time()
    try:
        cmd = f"VERIF_REPO={wt} ./check {pid} --tier {tier}" + (f" --only {only}" if only else "")
        rc, out = sh(cmd, "/verif", timeout=4*3600)
    finally:
        sh(f"git -C /repo worktree remove --force {wt}")
        alt = "alt-" + re.sub(r"[^A-Za-z0-9]+", "_", str(wt)).strip("_")
        sh(f"rm -rf /verif/.kani-target/{alt}-* /verif/.work/{alt}")
    lines = [l for l in out.splitlines() if re.match(r"VIOLATION|INCONCLUSIVE|KNOWN|OK |\s+counterexample|\[(CEX|ERROR|TIMEOUT|UNWIND|VACUOUS)", l)]
    print("\n".join(lines[-25:]))
    viol = any(l.startswith("VIOLATION") for l in lines)
    verdict = "DETECTED" if (rc == 1 and viol) else "flagged-inconclusive" if rc == 2 else "MISSED" if rc == 0 else "TOOL-ERROR"
    if verdict == "TOOL-ERROR":
        print(out[-1500:])
    print(f"== {sid}: check exit {rc} ({verdict}) in {time.time()-t0:.0f}s")
    det = meta.setdefault("detection", {})
    det[f"{(prop + ':') if prop else ''}{tier}{'/'+only if only else ''}"] = {"exit": rc, "lines": lines[-8:], "wall_s": round(time.time()-t0)}
    (dst / "meta.json").write_text(json.dumps(meta, indent=1))
    return 0

if __name__ == "__main__":
    a = sys.argv[1:]
    if a[0] == "confirm": sys.exit(confirm(a[1]))
    if a[0] == "keep": keep(a[1], a[2])
    if a[0] == "detect":
        only = None; prop = None
        if "--only" in a:
            i = a.index("--only"); only = a[i+1]; a = a[:i] + a[i+2:]
        if "--prop" in a:
            i = a.index("--prop"); prop = a[i+1]; a = a[:i] + a[i+2:]
        sys.exit(detect(a[1], a[2] if len(a) > 2 else "quick", only, prop))
