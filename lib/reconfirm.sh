#!/bin/sh
# re-confirms every kept seed against the current /repo HEAD (baseline moved by fix commits)
log=/verif/.work/reconfirm.log
: > $log
for p in C01 C02 C03 C05 C06 C07 C08 C09 C14 C16 C17 C18 C19 C20; do
  git -C /repo worktree remove --force /tmp/wt-$p 2>/dev/null
  git -C /repo worktree add -q --detach /tmp/wt-$p HEAD && cp -r /repo/target /tmp/wt-$p/target
  for n in 1 2 3; do
    echo "== $p-$n" >> $log
    python3 /verif/lib/seedtool.py confirm /verif/seeded/$p-$n >> $log 2>&1
  done
  git -C /repo worktree remove --force /tmp/wt-$p
done
echo "== done" >> $log
