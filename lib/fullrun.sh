#!/bin/sh
# lib/fullrun.sh <tier> <ID>... : full runs one after another (evidence is written by each)
tier=$1; shift
for p in "$@"; do
  echo "=== $p $(date +%H:%M:%S)" >> /verif/.work/fullrun.log
  (cd /verif && VERIF_JOBS=${VERIF_JOBS:-8} ./check $p --tier $tier > /verif/.work/full-$p-$tier.log 2>&1; echo "exit=$?" >> /verif/.work/full-$p-$tier.log)
  tail -2 /verif/.work/full-$p-$tier.log >> /verif/.work/fullrun.log
done
echo "=== all done $(date +%H:%M:%S)" >> /verif/.work/fullrun.log
