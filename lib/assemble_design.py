#!/usr/bin/env python3
"""Assembles DESIGN.md from design_parts/*.md and generated tables (seed detection, fixes)."""
import json, glob, re
from pathlib import Path
V = Path('/verif')
parts = V / 'design_parts'
s = (parts/'s1_4.md').read_text() + (parts/'s5a.md').read_text() + (parts/'s5b.md').read_text() + (parts/'s6.md').read_text()

# seed table
rows = []
for f in sorted(glob.glob(str(V/'seeded/*/meta.json'))):
    m = json.load(open(f)); sid = f.split('/')[-2]
    det = m.get('detection', {})
    verdict, by = 'not run', ''
    for k, v in det.items():
        lines = v.get('lines', [])
        viol = [l for l in lines if l.startswith('VIOLATION')]
        if v['exit'] == 1 and viol:
            verdict = 'caught (VIOLATION, replayed natively)'
            hs = sorted({re.sub(r'.*/', '', l.split('replay=')[1]).replace('.json', '') for l in viol})
            by = ', '.join(hs[:3])
            break
        elif v['exit'] == 2:
            verdict = 'flagged (inconclusive, exit 2)'
            by = k
        elif v['exit'] == 0 and verdict == 'not run':
            verdict = 'missed'
            by = k
    note = m.get('outside_note', '')
    what = (m.get('breaks', '') or '')[:110].replace('|', '/').replace('\n', ' ')
    fn = ', '.join(m.get('functions', [])[:2])[:70].replace('|', '/')
    rows.append(f"| {sid} | {fn} | {what} | {verdict}{(' — ' + note) if note else ''} | {by} |")
table = "| seed | function(s) | what breaks | result of the quick tier | harness |\n|---|---|---|---|---|\n" + "\n".join(rows)
s = s.replace('@@SEEDTABLE@@', table)
extra_f = (parts/'morefixes.md').read_text() if (parts/'morefixes.md').exists() else ''
extra_k = (parts/'morefindings.md').read_text() if (parts/'morefindings.md').exists() else ''
s = s.replace('@@MOREFIXES@@', extra_f.rstrip('\n')).replace('@@MOREFINDINGS@@', extra_k.rstrip('\n'))
(V/'DESIGN.md').write_text(s)
print('DESIGN.md assembled:', len(s), 'bytes,', len(rows), 'seeds')
