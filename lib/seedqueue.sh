#!/bin/sh
# lib/seedqueue.sh <logfile> <seed-id>...   : runs seed detection (quick tier) one after another
log=$1; shift
for s in "$@"; do
  echo "=== $s $(date +%H:%M:%S)" >> "$log"
  VERIF_JOBS=${VERIF_JOBS:-4} python3 /verif/lib/seedtool.py detect "$s" quick >> "$log" 2>&1
done
echo "=== queue done $(date +%H:%M:%S)" >> "$log"
