#!/usr/bin/env python3
"""Driver for the solver-based checks of cascette-rs (see /verif/DESIGN.md).

One *harness* = one Kani proof harness = one (family of) SAT queries over the real code compiled
from /repo's current working tree.  A property is decided by the set of harnesses registered for
it (annotations in the harness sources, `// @harness ...`).

Exit codes of `check <ID>`:
  0  every harness discharged (or only KNOWN-FINDINGs)        -> property held on everything explored
  1  a counterexample was found and reproduced natively        -> prints VIOLATION property=<id> replay=<path>
  2  inconclusive (timeout / OOM / ICE / unwinding / vacuity / non-reproducing counterexample)
"""
import argparse
import concurrent.futures as cf
import json
import os
import re
import resource
import shutil
import signal
import subprocess
import sys
import time
from pathlib import Path

VERIF = Path(__file__).resolve().parent.parent
REPO = Path(os.environ.get("VERIF_REPO", "/repo")).resolve()
SRC_HARN = VERIF / "harnesses"
if REPO == Path("/repo"):
    ALT = ""
    HARN = SRC_HARN
    WORK = VERIF / ".work"
else:
    # development aid (seed testing without touching /repo): run against another checkout by
    # copying the harness crates with their path dependencies rewritten.  Registered checks never
    # use this; they always run against /repo.
    ALT = "alt-" + re.sub(r"[^A-Za-z0-9]+", "_", str(REPO)).strip("_") + "-"
    WORK = VERIF / ".work" / ALT.rstrip("-")
    HARN = WORK / "harnesses"
TARGETS = VERIF / ".kani-target"
EVID = VERIF / "evidence"
REPLAYS = VERIF / "replays"
KNOWN = VERIF / "known_findings.json"

ENV = dict(os.environ)
ENV.update({"CARGO_NET_OFFLINE": "true", "CARGO_TERM_COLOR": "never", "RUST_BACKTRACE": "0"})
ENV.pop("RUSTFLAGS", None)

TIER_CAP = {"quick": 900, "thorough": 3600}  # per-harness wall-clock cap (s) unless annotated lower


# --------------------------------------------------------------------------------------------
# registry: parse `// @harness k=v ...` annotation blocks in harness sources
# --------------------------------------------------------------------------------------------
class Harness:
    def __init__(self, group, module, name, meta, lines):
        self.group, self.module, self.name = group, module, name
        self.prop = meta["prop"]
        self.tier = meta.get("tier", "quick")  # quick => runs in both tiers
        self.timeout = int(meta.get("timeout", "600"))
        self.mem_gb = int(meta.get("mem", "16"))
        self.replay = meta.get("replay", "playback")  # playback | none
        self.ram = int(meta.get("ram", "3"))  # expected peak GB (thorough-tier scheduling weight)
        self.role = meta.get("role", name)
        self.bounds = lines.get("bounds", [])
        self.encodes = lines.get("encodes", [])
        self.assumes = lines.get("assumes", [])
        self.catches = lines.get("catches", [])

    @property
    def path(self):
        return f"{self.module}::{self.name}"


ANN = re.compile(r"^\s*//\s*@(\w+)\s*(.*)$")
FN = re.compile(r"^\s*(?:pub\s+)?fn\s+(\w+)\s*\(")
MACRO = re.compile(r"^\s*\w+!\s*\(\s*(\w+)\s*[,)]")


def scan_registry():
    """`// @harness k=v..` annotates the next `fn name(` / `macro!(name, ..)` line;
    `// @family k=v..` annotates every such line up to `// @end`.  Other `// @key text` lines after
    the opener (bounds / encodes / assumes / catches) are attached as free text."""
    hs = []
    for crate in sorted(SRC_HARN.iterdir()):
        src = crate / "src"
        if not src.is_dir():
            continue
        for f in sorted(src.rglob("*.rs")):
            module = f.stem
            meta, lines, family = None, {}, False
            for ln in f.read_text().splitlines():
                m = ANN.match(ln)
                if m:
                    key, rest = m.group(1), m.group(2).strip()
                    if key in ("harness", "family"):
                        meta = dict(kv.split("=", 1) for kv in rest.split())
                        lines = {}
                        family = key == "family"
                    elif key == "end":
                        meta, lines, family = None, {}, False
                    elif meta is not None:
                        lines.setdefault(key, []).append(rest)
                    continue
                if meta is None:
                    continue
                m = FN.match(ln) or MACRO.match(ln)
                if m and not ln.lstrip().startswith("//"):
                    if m.group(1) in ("macro_rules",):
                        continue
                    hs.append(Harness(crate.name, module, m.group(1), meta, lines))
                    if not family:
                        meta, lines = None, {}
    return hs


# --------------------------------------------------------------------------------------------
# running one harness
# --------------------------------------------------------------------------------------------
def _limits(mem_gb):
    def f():
        os.setsid()
        lim = mem_gb * (1 << 30)
        resource.setrlimit(resource.RLIMIT_AS, (lim, lim))
    return f


def run_cmd(cmd, cwd, log, timeout, mem_gb, env=None):
    t0 = time.time()
    with open(log, "w") as out:
        p = subprocess.Popen(cmd, cwd=cwd, stdout=out, stderr=subprocess.STDOUT, env=env or ENV,
                             preexec_fn=_limits(mem_gb))
        try:
            rc = p.wait(timeout=timeout)
            to = False
        except subprocess.TimeoutExpired:
            to = True
            try:
                os.killpg(p.pid, signal.SIGKILL)
            except ProcessLookupError:
                pass
            rc = p.wait()
    return rc, to, time.time() - t0


def sync_alt_harnesses():
    if not ALT:
        return
    if HARN.exists():
        shutil.rmtree(HARN)
    shutil.copytree(SRC_HARN, HARN, ignore=shutil.ignore_patterns("target", "Cargo.lock"))
    for toml in HARN.glob("*/Cargo.toml"):
        toml.write_text(toml.read_text().replace('"/repo/', f'"{REPO}/'))


def prepare_group(group):
    d = HARN / group
    lock = REPO / "Cargo.lock"
    if lock.exists():
        shutil.copy(lock, d / "Cargo.lock")
    (TARGETS / (ALT + group)).mkdir(parents=True, exist_ok=True)


CHECK_RE = re.compile(r"^Check (\d+): ([^\n]+)\n\t - Status: (\w+)\n\t - Description: \"(.*)\"(?:\n\t - Location: (.*))?", re.M)


def parse_log(text):
    r = {"verdict": None, "failed": [], "checks": 0, "n_failed": None, "covers": None,
         "unwind_fail": False, "vars": 0, "clauses": 0, "solver_s": 0.0, "symex_s": 0.0,
         "verif_s": None, "stubs": [], "error": None}
    if "VERIFICATION:- SUCCESSFUL" in text:
        r["verdict"] = "SUCCESSFUL"
    elif "VERIFICATION:- FAILED" in text:
        r["verdict"] = "FAILED"
    m = re.search(r"\*\* (\d+) of (\d+) failed", text)
    if m:
        r["n_failed"], r["checks"] = int(m.group(1)), int(m.group(2))
    m = re.search(r"\*\* (\d+) of (\d+) cover properties satisfied", text)
    if m:
        r["covers"] = (int(m.group(1)), int(m.group(2)))
    for m in CHECK_RE.finditer(text):
        num, name, status, desc, loc = m.groups()
        if status in ("FAILURE", "UNDETERMINED"):
            if "unwinding assertion" in desc:
                r["unwind_fail"] = True
            if status == "FAILURE":
                r["failed"].append({"check": name, "desc": desc.replace('\\"', '"').strip('"'), "loc": loc or ""})
    for m in re.finditer(r"(\d+) variables, (\d+) clauses", text):
        r["vars"], r["clauses"] = max(r["vars"], int(m.group(1))), max(r["clauses"], int(m.group(2)))
    r["solver_s"] = round(sum(float(x) for x in re.findall(r"Runtime Solver: ([\d.e+-]+)s", text)), 3)
    r["symex_s"] = round(sum(float(x) for x in re.findall(r"Runtime Symex: ([\d.e+-]+)s", text)), 3)
    m = re.search(r"Verification Time: ([\d.]+)s", text)
    if m:
        r["verif_s"] = float(m.group(1))
    r["stubs"] = sorted(set(re.findall(r"^\s*- Stub: (.*)$", text, re.M)))
    if "Status: ERROR" in text or "CBMC failed" in text or "internal compiler error" in text \
            or "error: could not compile" in text or "Kani unexpectedly panicked" in text:
        m = re.search(r"^(error.*|.*internal compiler error.*|.*unexpectedly panicked.*)$", text, re.M)
        r["error"] = m.group(1)[:300] if m else "tool error"
    return r


def run_harness(h, tier, extra_args=()):
    logdir = WORK / "logs" / h.prop
    logdir.mkdir(parents=True, exist_ok=True)
    log = logdir / f"{h.name}.log"
    cmd = ["cargo", "kani", "-Z", "stubbing", "--exact", "--harness", h.path,
           "--target-dir", str(TARGETS / (ALT + h.group))] + list(extra_args)
    timeout = min(h.timeout, TIER_CAP[tier]) if tier == "quick" else max(h.timeout, 1)
    rc, to, wall = run_cmd(cmd, HARN / h.group, log, timeout, h.mem_gb)
    text = log.read_text(errors="replace")
    r = parse_log(text)
    r.update({"harness": h.name, "group": h.group, "rc": rc, "timeout": to, "wall_s": round(wall, 1),
              "log": str(log)})
    if to:
        r["status"] = "TIMEOUT"
    elif r["verdict"] == "SUCCESSFUL" and rc == 0 and r["n_failed"] == 0 and not r["unwind_fail"]:
        c = r["covers"]
        if c is not None and c[0] != c[1]:
            r["status"] = "VACUOUS"
        else:
            r["status"] = "PROVED"
    elif r["verdict"] == "FAILED" and r["failed"] and not r["error"]:
        only_unwind = all("unwinding assertion" in f["desc"] for f in r["failed"])
        unsupported = [f for f in r["failed"] if "not currently supported by Kani" in f["desc"]]
        if unsupported:
            # the model reached something Kani cannot encode: a gap in MY machinery, never a violation
            r["status"] = "ERROR"
            r["error"] = "unsupported construct reached: " + unsupported[0]["desc"][:160]
        else:
            r["status"] = "UNWIND" if only_unwind else "CEX"
    else:
        r["status"] = "ERROR"
        if not r["error"]:
            tail = text.strip().splitlines()[-3:]
            r["error"] = " | ".join(tail)[:300]
    return r


# --------------------------------------------------------------------------------------------
# counterexample -> concrete playback -> native replay
# --------------------------------------------------------------------------------------------
def kani_home():
    base = Path.home() / ".kani"
    ds = sorted(base.glob("kani-*"))
    return ds[-1] if ds else None


def playback_env(release):
    """Replicates what `cargo kani playback` sets up; for release drops overflow checks."""
    kh = kani_home()
    flags = []
    if not release:
        flags.append("-Coverflow-checks=on")
    flags += ["-Zunstable-options", "-Ztrim-diagnostic-paths=no", "-Zhuman_readable_cgu_names",
              "-Zalways-encode-mir", "--cfg=kani", "-Zcrate-attr=feature(register_tool)",
              "-Zcrate-attr=register_tool(kanitool)", "--force-warn", "unstable_features",
              "--sysroot", f"{kh}/playback", "-L", f"{kh}/playback/lib", "--extern", "force:kani",
              "--extern", f"noprelude,nounused:std={kh}/playback/lib/libstd.rlib", "--cfg", "vreplay"]
    env = dict(ENV)
    env["CARGO_ENCODED_RUSTFLAGS"] = "\x1f".join(flags)
    env["RUSTC"] = f"{kh}/bin/kani-compiler"
    env["CARGO_TERM_PROGRESS_WHEN"] = "never"
    env["RUST_BACKTRACE"] = "0"
    return env, f"{kh}/toolchain/bin/cargo"


TEST_RE = re.compile(r"(/// Test generated for harness.*?\n)?#\[test\]\n(?:#\[[^\n]*\]\n)*fn (kani_concrete_playback_\w+)\(\) \{.*?\n\}\n", re.S)


def extract_playback(h, scratch):
    """Run Kani with concrete playback on a scratch copy; return a list of (test_name, test_src)
    — Kani prints one test per failed check AND per satisfied cover, in source order — or []."""
    if scratch.exists():
        shutil.rmtree(scratch)
    scratch.mkdir(parents=True)
    shutil.copytree(HARN / h.group, scratch / h.group, ignore=shutil.ignore_patterns("target"))
    shutil.copytree(HARN / "common", scratch / "common")
    log = scratch / "extract.log"
    cmd = ["cargo", "kani", "-Z", "stubbing", "-Z", "concrete-playback", "--concrete-playback=print",
           "--exact", "--harness", h.path, "--target-dir", str(TARGETS / (ALT + h.group))]
    # kani-driver builds one trace per failed check incl. reachability checks: without this flag the
    # playback step can need > 15 GB for harnesses with thousands of checks
    if "no-assertion-reach-checks" not in (scratch / h.group / "Cargo.toml").read_text():
        cmd += ["-Z", "unstable-options", "--no-assertion-reach-checks"]
    run_cmd(cmd, scratch / h.group, log, max(h.timeout * 3, 1200), max(h.mem_gb, 40))
    text = log.read_text(errors="replace")
    out, seen = [], set()
    for m in re.finditer(r"```\n(.*?#\[test\].*?)```", text, re.S):
        src = m.group(1)
        nm = re.search(r"fn (kani_concrete_playback_\w+)\(", src)
        if nm and nm.group(1) not in seen:
            seen.add(nm.group(1))
            out.append((nm.group(1), src))
    # failed-check witnesses first, cover witnesses last
    out.sort(key=lambda t: 1 if "Check for `cover`" in t[1] else 0)
    return out[:12]


def native_replay(h, tests, scratch):
    """Compile the harness crate natively (kani's playback library, stubs inactive, cfg(vreplay))
    and run the recorded value vectors through the real code.  `tests` = [(name, src)].
    Returns dict profile -> verdict; 'reproduced' if ANY recorded vector makes the harness panic."""
    crate = scratch / h.group
    if not crate.exists():
        shutil.copytree(HARN / h.group, crate, ignore=shutil.ignore_patterns("target"))
        if not (scratch / "common").exists():
            shutil.copytree(HARN / "common", scratch / "common")
    lock = REPO / "Cargo.lock"
    if lock.exists():
        shutil.copy(lock, crate / "Cargo.lock")
    modfile = None
    for f in (crate / "src").rglob(f"{h.module}.rs"):
        modfile = f
    body = modfile.read_text()
    for name, src in tests:
        if name not in body:
            # assertion messages may contain braces: playback compiles them as format strings
            body += "\n" + src + "\n"
    modfile.write_text(body)
    out = {}
    for profile in ("dev", "release"):
        env, cargo = playback_env(profile == "release")
        env["CARGO_TARGET_DIR"] = str(TARGETS / f"{ALT}playback-{h.group}")
        cmd = [cargo, "test", "--lib", "--target", "x86_64-unknown-linux-gnu", "-Zhost-config",
               "-Ztarget-applies-to-host", '--config=host.rustflags=["--cfg=kani_host"]']
        if profile == "release":
            cmd.append("--release")
        cmd += ["--", "kani_concrete_playback_", "--test-threads", "1"]
        log = scratch / f"replay-{profile}.log"
        rc, to, _ = run_cmd(cmd, crate, log, 900, 32, env)
        text = log.read_text(errors="replace")
        if to:
            out[profile] = "hang"
            continue
        verdicts = []
        # per-test outcome: "test path::name ... ok|FAILED"; panic messages in the failures section
        for name, _ in tests:
            m = re.search(r"test \S*" + re.escape(name) + r" \.\.\. (ok|FAILED)", text)
            if not m:
                continue
            if m.group(1) == "ok":
                verdicts.append("not-reproduced")
                continue
            pm = re.search(r"---- \S*" + re.escape(name) + r" stdout ----\n(.*?)(?:\n\n|\Z)", text, re.S)
            msg = (pm.group(1) if pm else "panic").replace("\n", " ")[:300]
            if "concrete values left over" in msg:
                # the harness body ran to its end without any assertion failing; the left-over
                # values are the draws of stubs that are inactive natively
                verdicts.append("not-reproduced")
            else:
                verdicts.append("reproduced: " + msg)
        rep = [v for v in verdicts if v.startswith("reproduced")]
        if rep:
            out[profile] = rep[0]
        elif verdicts:
            out[profile] = "not-reproduced"
        else:
            out[profile] = "replay-error"
    return out


def load_known():
    if KNOWN.exists():
        return json.loads(KNOWN.read_text())
    return {"findings": [], "fixed": []}


def match_known(prop, h, failed, known):
    """A failed check is 'known' iff a listed finding for this property names this harness role and a
    substring of the failing assertion's description."""
    res = []
    for f in failed:
        hit = None
        for k in known.get("findings", []):
            if k["property"] == prop and k["harness"] == h.name and k["assertion"] in f["desc"]:
                hit = k
        res.append(hit)
    return res


# --------------------------------------------------------------------------------------------
# main check
# --------------------------------------------------------------------------------------------
def check(prop, tier, only=None, jobs=None):
    t0 = time.time()
    seed = int(os.environ.get("VERIF_SEED", "0") or 0)
    allh = [h for h in scan_registry() if h.prop == prop]
    hs = [h for h in allh if tier == "thorough" or h.tier == "quick"]
    if only:
        hs = [h for h in hs if only in h.name]
    if not hs:
        print(f"no harnesses registered for {prop} ({tier})")
        return 2
    # seed only permutes launch order (nothing is random in a SAT verdict)
    hs.sort(key=lambda h: (-(h.timeout), h.name))
    if seed:
        import random
        random.Random(seed).shuffle(hs)
        hs.sort(key=lambda h: -(h.timeout))
    sync_alt_harnesses()
    for g in sorted({h.group for h in hs}):
        prepare_group(g)
    jobs = jobs or int(os.environ.get("VERIF_JOBS", "0") or 0) or min(14, os.cpu_count() or 4)
    results = []
    # many multi-GB harnesses at once exhaust the machine (measured: 13 LRU history harnesses of
    # ~7 M variables -> CBMC out of memory); schedule by expected peak memory (annotation ram=<GB>, default 3)
    import threading
    ram_budget = int(os.environ.get("VERIF_RAM_GB", "44"))
    ram_cv = threading.Condition()
    ram_used = [0]

    def run_weighted(h):
        w = min(h.ram, ram_budget)
        with ram_cv:
            while ram_used[0] + w > ram_budget:
                ram_cv.wait()
            ram_used[0] += w
        try:
            return run_harness(h, tier)
        finally:
            with ram_cv:
                ram_used[0] -= w
                ram_cv.notify_all()

    with cf.ThreadPoolExecutor(max_workers=jobs) as ex:
        futs = {ex.submit(run_weighted, h): h for h in hs}
        for fu in cf.as_completed(futs):
            r = fu.result()
            results.append((futs[fu], r))
            print(f"[{r['status']:8}] {r['harness']:55} {r['wall_s']:7.1f}s checks={r['checks']} "
                  f"vars={r['vars']} solver={r['solver_s']}s", flush=True)
    results.sort(key=lambda x: x[0].name)

    known = load_known()
    violations, inconclusive, known_hits = [], [], []
    for h, r in results:
        if r["status"] == "PROVED":
            continue
        if r["status"] != "CEX":
            inconclusive.append((h, r, r["status"] + (": " + r["error"] if r.get("error") else "")))
            continue
        real_failed = [f for f in r["failed"] if "unwinding assertion" not in f["desc"]]
        hits = match_known(prop, h, real_failed, known)
        new = [f for f, k in zip(real_failed, hits) if k is None]
        for f, k in zip(real_failed, hits):
            if k is not None and k not in known_hits:
                known_hits.append(k)
        if not new:
            r["status"] = "KNOWN"
            continue
        # a new counterexample: extract concrete values and replay natively
        scratch = WORK / "replay" / h.name
        replay_path = None
        verdict = None
        if h.replay == "playback":
            pb = extract_playback(h, scratch)
            if pb:
                rr = native_replay(h, pb, scratch)
                r["replay"] = rr
                REPLAYS.mkdir(exist_ok=True)
                (REPLAYS / prop).mkdir(exist_ok=True)
                replay_path = REPLAYS / prop / f"{h.name}.json"
                replay_path.write_text(json.dumps({
                    "property": prop, "group": h.group, "module": h.module, "harness": h.name,
                    "failed_checks": new, "tests": pb, "native": rr,
                    "how": f"./check {prop} --replay {replay_path}"}, indent=1))
                if any(v.startswith("reproduced") or v == "hang" for v in rr.values()):
                    verdict = "reproduced"
                elif all(v == "not-reproduced" for v in rr.values()):
                    verdict = "not-reproduced"
                else:
                    verdict = "replay-error"
            else:
                verdict = "no-playback-values"
        else:
            # model-level harness (environment model has no native twin): the Kani trace is the replay
            REPLAYS.mkdir(exist_ok=True)
            (REPLAYS / prop).mkdir(exist_ok=True)
            replay_path = REPLAYS / prop / f"{h.name}.json"
            replay_path.write_text(json.dumps({
                "property": prop, "group": h.group, "module": h.module, "harness": h.name,
                "failed_checks": new, "native": None,
                "how": f"./check {prop} --tier {tier} --only {h.name}  (re-runs the solver on the real code)"},
                indent=1))
            verdict = "reproduced"
        r["replay_verdict"] = verdict
        if verdict == "reproduced":
            violations.append((h, r, new, replay_path))
        else:
            inconclusive.append((h, r, f"counterexample did not replay natively ({verdict})"))
        if not os.environ.get("VERIF_KEEP_SCRATCH"):
            shutil.rmtree(scratch, ignore_errors=True)

    write_evidence(prop, tier, seed, allh, results, violations, inconclusive, known_hits, time.time() - t0,
                   partial=bool(only))

    for k in known_hits:
        print(f"KNOWN-FINDING: property={prop} {k['what']}")
    for h, r, why in inconclusive:
        print(f"INCONCLUSIVE property={prop} harness={h.name}: {why} (log {r['log']})")
    for h, r, new, path in violations:
        for f in new[:3]:
            print(f"  counterexample in {h.name}: {f['desc']} @ {f['loc']}")
        print(f"VIOLATION property={prop} replay={path}")
    if violations:
        return 1
    if inconclusive:
        return 2
    print(f"OK property={prop} tier={tier}: {len(results)} harnesses discharged "
          f"({sum(r['checks'] for _, r in results)} solver-decided checks) in {time.time()-t0:.0f}s")
    return 0


def write_evidence(prop, tier, seed, allh, results, violations, inconclusive, known_hits, wall, partial=False):
    EVID.mkdir(exist_ok=True)
    proved = [(h, r) for h, r in results if r["status"] in ("PROVED", "KNOWN")]
    nontriv = [(h, r) for h, r in proved if r["checks"] > 0 and (r["covers"] is None or r["covers"][0] == r["covers"][1])]
    enc, assumes, stubs = [], [], []
    for h, r in results:
        for e in h.encodes:
            for x in e.split(","):
                x = x.strip()
                if x and x not in enc:
                    enc.append(x)
        for a in h.assumes:
            if a not in assumes:
                assumes.append(a)
        for s in r["stubs"]:
            if s not in stubs:
                stubs.append(s)
    samples = []
    for h, r in results:
        samples.append({
            "harness": f"{h.group}::{h.path}", "role": h.role, "status": r["status"],
            "bounds": " ; ".join(h.bounds), "cbmc_checks": r["checks"], "failed_checks": r["n_failed"],
            "covers_satisfied": list(r["covers"]) if r["covers"] else None,
            "sat_variables": r["vars"], "sat_clauses": r["clauses"], "solver_s": r["solver_s"],
            "symex_s": r["symex_s"], "wall_s": r["wall_s"],
            **({"counterexample": r["failed"][:3], "replay": r.get("replay"), "replay_verdict": r.get("replay_verdict")}
               if r["status"] in ("CEX", "KNOWN") else {}),
            **({"error": r.get("error")} if r["status"] in ("ERROR", "TIMEOUT", "VACUOUS", "UNWIND") else {}),
        })
    not_run = [h.name for h in allh if h.name not in {x.name for x, _ in results}]
    ev = {
        "property_id": prop, "tier": tier, "seed": seed, "level": "model_checking",
        "coverage": {
            "evaluations": sum(r["checks"] for _, r in results),
            "distinct_nontrivial": len(nontriv),
            "rule": "evaluation = one CBMC check (assertion / overflow / bounds / unwinding / cover) decided by the SAT "
                    "solver over ALL values of the harness's symbolic inputs within its bounds; distinct_nontrivial = "
                    "number of distinct harnesses (queries over different code/bounds) that were discharged with every "
                    "kani::cover! reachability witness satisfied (non-vacuous)",
            "obligations": len(results), "discharged": len(proved),
            "samples": samples,
            "checker_cmd": "cargo kani -Z stubbing --exact --harness <h> (Kani 0.68.0 / CBMC 6.11.0 / CaDiCaL), "
                           "unwinding assertions on",
            "trusted_base": ["Kani 0.68 MIR->goto translation", "CBMC 6.11 + CaDiCaL", "harness reference models",
                             "listed stubs/assumptions"],
            "functions_encoded": enc, "stubs_applied": stubs,
            "solver_time_s": round(sum(r["solver_s"] for _, r in results), 2),
            "symex_time_s": round(sum(r["symex_s"] for _, r in results), 2),
            "sat_variables_max": max([r["vars"] for _, r in results] + [0]),
            "harnesses_not_run_in_this_tier": not_run,
            "known_findings_hit": [k["what"] for k in known_hits],
            "inconclusive": [f"{h.name}: {why}" for h, _, why in inconclusive],
            "exhaustive": False,
            "explanation": "bounded model checking of the real code: each harness is a for-all claim over its symbolic "
                           "inputs inside the stated bounds; nothing outside the bounds is claimed",
        },
        "assumptions": assumes + ["VERIF_SEED only permutes harness launch order; SAT verdicts are deterministic"],
        "wall_s": round(wall, 1),
        "violations": len(violations),
    }
    # VERIF_EVIDENCE_TO=<dir>: development aid (validation runs that must not overwrite the committed evidence)
    alt_dir = os.environ.get("VERIF_EVIDENCE_TO")
    if alt_dir:
        Path(alt_dir).mkdir(parents=True, exist_ok=True)
        dest = Path(alt_dir) / f"{prop}.{tier}.json"
    else:
        dest = (WORK / f"evidence-partial-{prop}.json") if (partial or ALT) else (EVID / f"{prop}.json")
    dest.write_text(json.dumps(ev, indent=1))


def replay(prop, path):
    d = json.loads(Path(path).read_text())
    hs = [h for h in scan_registry() if h.name == d["harness"]]
    if not hs:
        print("harness not found")
        return 2
    h = hs[0]
    if not d.get("tests"):
        return check(prop, "thorough", only=h.name)
    scratch = WORK / "replay" / (h.name + "-manual")
    shutil.rmtree(scratch, ignore_errors=True)
    scratch.mkdir(parents=True)
    rr = native_replay(h, [tuple(t) for t in d["tests"]], scratch)
    print(json.dumps(rr, indent=1))
    shutil.rmtree(scratch, ignore_errors=True)
    if any(v.startswith("reproduced") or v == "hang" for v in rr.values()):
        print(f"VIOLATION property={prop} replay={path}")
        return 1
    return 0


def main():
    ap = argparse.ArgumentParser()
    ap.add_argument("prop", nargs="?")
    ap.add_argument("--tier", default=os.environ.get("VERIF_TIER", "quick"), choices=["quick", "thorough"])
    ap.add_argument("--only")
    ap.add_argument("--jobs", type=int)
    ap.add_argument("--replay")
    ap.add_argument("--list", action="store_true")
    a = ap.parse_args()
    if a.list or not a.prop:
        for h in scan_registry():
            print(f"{h.prop} {h.tier:8} {h.group:10} {h.path:70} t={h.timeout}")
        return 0
    if a.replay:
        return replay(a.prop, a.replay)
    return check(a.prop, a.tier, a.only, a.jobs)


if __name__ == "__main__":
    sys.exit(main())
