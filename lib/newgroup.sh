#!/bin/sh
# lib/newgroup.sh <group> <base: formats|storage|protocol|cache>  -> creates harnesses/<group> as a copy of the base skeleton
set -e
g=$1; base=$2
cd "$(dirname "$0")/../harnesses"
[ -d "$g" ] && { echo exists; exit 0; }
mkdir -p "$g/src" "$g/.cargo"
cp "$base/.cargo/config.toml" "$g/.cargo/config.toml"
sed "s/^name = .*/name = \"vh_$g\"/" "$base/Cargo.toml" > "$g/Cargo.toml"
# lib.rs without the base's own harness modules
grep -v '^mod c[0-9]' "$base/src/lib.rs" | awk 'BEGIN{skip=0} {print}' > "$g/src/lib.rs.tmp"
python3 - "$g" <<'PY'
import sys,re
g=sys.argv[1]
p=f"{g}/src/lib.rs.tmp"
s=open(p).read()
# drop dangling "#[cfg(kani)]" lines that preceded removed mod lines
lines=s.split("\n"); out=[]
for i,l in enumerate(lines):
    if l.strip()=="#[cfg(kani)]" and (i+1>=len(lines) or not lines[i+1].strip() or lines[i+1].startswith("//")):
        continue
    out.append(l)
open(f"{g}/src/lib.rs","w").write("\n".join(out).rstrip()+"\n")
PY
rm "$g/src/lib.rs.tmp"
echo "created harnesses/$g"
