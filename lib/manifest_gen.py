#!/usr/bin/env python3
"""Regenerates MANIFEST.json from the table below (kept in one place so it stays valid)."""
import json, subprocess
from pathlib import Path
V = Path(__file__).resolve().parent.parent

HOOK_COMMITS = subprocess.run(["git", "-C", "/repo", "log", "--format=%H %s", "--grep=^verif hook"],
                              capture_output=True, text=True).stdout.strip().splitlines()

CLAIMED = {}   # id -> dict(text, note, design_ref)
NA = {}        # id -> reason
exec((V / "lib" / "manifest_table.py").read_text())

checks = []
for pid, c in sorted(CLAIMED.items()):
    checks.append({
        "property_id": pid,
        "quick_cmd": f"./check {pid} --tier quick",
        "thorough_cmd": f"./check {pid} --tier thorough",
        "evidence_file": f"/verif/evidence/{pid}.json",
        "replay_cmd_template": f"./check {pid} --replay {{path}}",
        "engine": "kani-cbmc",
        "level_claimed": {"category": "model_checking", "text": c["text"], "design_ref": c["design_ref"]},
        "level_note": c["note"],
        "technique": c.get("technique", "bounded model checking of the compiled Rust code: Kani 0.68 symbolic execution -> CBMC 6.11 -> CaDiCaL SAT verdict over symbolic inputs; counterexamples replayed natively"),
    })
m = {
    "version": 1,
    "setup_cmd": "./setup.sh",
    "hooks": {
        "guard": "cfg(kani)",
        "enable": "set automatically by `cargo kani` (kani-compiler passes --cfg kani); never set by cargo build/test",
        "baseline_off_cmd": "cd /repo && cargo test --workspace --no-fail-fast --offline",
        "source_commits": [l.split()[0] for l in HOOK_COMMITS],
        "add_only": ADD_ONLY,
    },
    "engines": [{"name": "kani-cbmc", "path": "/verif/lib/driver.py",
                 "serves_properties": sorted(CLAIMED),
                 "kind_free_text": "Kani 0.68.0 proof harnesses in out-of-tree crates (/verif/harnesses/*) with path deps on /repo/crates/*; CBMC 6.11 + CaDiCaL decide; concrete playback replays counterexamples natively (dev+release)"}],
    "checks": checks,
    "notes": NOTES,
    "not_applicable": [{"property_id": k, "reason": v} for k, v in sorted(NA.items())],
}
(V / "MANIFEST.json").write_text(json.dumps(m, indent=1) + "\n")
print("MANIFEST.json written:", len(checks), "checks,", len(NA), "not applicable")
