ADD_ONLY = True
NOTES = ("All checks are bounded: every claim is 'for all symbolic inputs inside the stated bounds'; "
         "bounds, stubs and assumptions are listed per harness in the evidence files and in DESIGN.md.")

CLAIMED["C09"] = dict(
    text="Bounded model checking of the real cipher/hash code against reference models written from the published "
         "algorithms: the SAT solver decides equality for every key/IV/seed/message inside the stated length bounds "
         "(no sampling). Bounded, hence model_checking, not proof.",
    note="Trusted: Kani/CBMC/CaDiCaL, the reference models in harnesses/crypto/src/refmodels.rs, UF abstraction of ARX "
         "kernels (each kernel separately proved equal to its spec on arbitrary words). Lengths above the bounds are outside the claim.",
    design_ref="DESIGN.md §5 C09")

_TODO = "check not built yet in this revision (planned: DESIGN.md §5); not claimed until its harnesses run"
for _p in ["C01","C02","C03","C05","C06","C07","C08","C14","C16","C17","C18","C19","C20"]:
    NA[_p] = _TODO
NA["C04"] = "storage path = memmap2 + DashMap + parking_lot/tokio locks + async; constructing them aborts kani-compiler 0.68 (TLS-destructor ICE) and mmap has no model; no separable kernel"
NA["C10"] = "MemoryCache (DashMap) and DiskCache (tokio Semaphore/RwLock) abort kani-compiler (ICE, probed); eviction arithmetic is not a separate function; no other installed engine executes Rust symbolically"
NA["C11"] = "interleavings of concurrent tasks: Kani/CBMC's Rust front end is sequential; same ICE as C10"
NA["C12"] = "MultiLayerCacheImpl hard-wires the C10 cache types as layers; unreachable for the same reason"
NA["C13"] = "reqwest/TCP/tokio timeouts/DashMap-backed ProtocolCache; the only pure piece (should_retry) is checked under C14"
NA["C15"] = "axum/TCP server + format!-built text + mail-parser client: sockets not encodable, string formatting of arbitrary DB strings beyond the SAT back end"
