ADD_ONLY = False  # three hooks cfg-split an existing line (LruManager key_map -> BTreeMap under cfg(kani); retry::sleep cfg attribute); all others only add code
NOTES = ("All checks are bounded model checking of the REAL code (Kani 0.68 -> CBMC 6.11 -> CaDiCaL): every claim is "
         "'for all symbolic inputs inside the stated bounds'; bounds, stubs, scale models and assumptions are listed per "
         "harness in the evidence files (coverage.samples[*].bounds, assumptions) and in DESIGN.md. Counterexamples are "
         "replayed natively (Kani concrete playback, dev + release) before a VIOLATION is printed; genuine defects that were "
         "not repaired are listed in known_findings.json and printed as KNOWN-FINDING lines.")

_T = "bounded model checking of the compiled Rust code: Kani 0.68 symbolic execution -> CBMC 6.11 -> CaDiCaL SAT verdict over symbolic inputs; counterexamples replayed natively"


def _c(pid, text, note, ref=None, technique=None):
    CLAIMED[pid] = dict(text=text, note=note, design_ref=ref or f"DESIGN.md §5 {pid}", technique=technique or _T)


_c("C01",
   "Bounded model checking of BLTE builder programs (concrete sequences of builder calls, all payload bytes / keys / IVs "
   "symbolic) against the identity oracle decode(encode(x)) == x and chunk-table truthfulness; ciphers abstracted as an "
   "uninterpreted keystream so that the decisive fact is whether builder and decoder use the same (key, IV, block index).",
   "Modes N and E only (zlib/LZ4 codecs outside); payloads of a few bytes; cipher = UF keystream (justified by C09); "
   "serialise->parse->decode only where stated per harness.")
_c("C02",
   "Bounded model checking of the parsers on arbitrary byte strings of fixed small lengths: Kani's automatic panic / "
   "overflow / out-of-bounds checks plus unwinding assertions (termination) plus an allocator spy (largest request <= 64*N + 64 KiB) "
   "decide 'fails closed' for every input of the stated lengths.",
   "Record/header-level parsers of cascette-formats and the storage-side byte parsers; whole-file binrw parsers and text formats "
   "(configs, BPSV, ESpec, MIME) are outside (binrw::Error drop glue does not terminate in CBMC); input lengths as listed per harness.")
_c("C03",
   "Bounded model checking of the lookup kernels (encoding table find/batch, CDN archive index binary search / TOC, root header "
   "version heuristics) against linear-scan oracles on directly constructed structures with fully symbolic keys, assuming the "
   "representation invariant that a second harness shows the builders establish.",
   "2-3 pages x 1-2 entries, <= 6 archive entries with scaled records-per-chunk; TVFS and ContentResolver outside; two root-header "
   "findings recorded in known_findings.json.")
_c("C05",
   "Bounded model checking of the local key index as a map: one bucket's update section (append/search/byte round trip), the search_both_sections kernel, and IndexManager through its public API (one-step mutators from arbitrary pre-states, mutators on a full update section, the flush merge on six shapes, enumeration, short histories from new()) against a 'latest value per 9-byte key' model; the boolean result of every mutator must equal 'the model changed'.",
   "Container hooks under cfg(kani) (not add-only): the bucket map is a one-slot map, the scratch maps of flush/enumeration a 4-slot sorted array (std BTreeMap values holding Vecs are opaque to CBMC); update section scaled to 2 pages x 2 entries; save_index = Ok/Err model; merge / enumeration on concrete key shapes; ResidencyDb histories, several buckets and reload from files are outside.")
_c("C06",
   "The real save routines run symbolically over an I/O trace model of std::fs; the solver decides, for every input inside the bounds, "
   "the atomic-replace protocol invariants I1-I4 (data only to the temp file, complete + fsynced before rename, nothing written after, "
   "no in-place write), which imply old-or-new at every crash point under POSIX rename atomicity and fsync durability.",
   "Covers IndexManager::write_index_to_file only (with and without an update section); crash points are discharged by the protocol "
   "argument in DESIGN.md, not enumerated; ResidencyDb::save (harness does not finish), I/O error paths, save_index's retry loop, LRU "
   "checkpoint and DiskCache (tokio) are outside.",
   technique="bounded model checking of the real save code over a stubbed std::fs I/O-trace model (Kani/CBMC SAT verdict on protocol invariants)")
_c("C07",
   "Bounded model checking under an ideal-hash model (uninterpreted injective function in place of MD5/Jenkins): for every valid "
   "artifact and every symbolic single-byte corruption of the protected region the real validator must reject.",
   "Artifacts: update entries, local headers, LRU files, residency entries, encoding page digest, archive-index footer; MIME checksum and "
   "validating caches (tokio/DashMap) outside; genuine hash collisions excluded by the idealisation.")
_c("C08",
   "Bounded model checking of read/write pairs at record level: for every symbolic byte string the reader accepts, write(read(b)) "
   "re-reads to the same fields and is a fixed point; read(write(v)) == v for symbolic field values.",
   "Record/header level only (sizes as listed); whole-file round trips, configs/BPSV/ESpec, TVFS tables outside.")
_c("C09",
   "Bounded model checking of the real cipher/hash code against reference models written from the published algorithms: the SAT "
   "solver decides equality for every key/IV/seed/message inside the stated length bounds (no sampling). ARX kernels are proved "
   "equal to their specification on arbitrary words and abstracted as uninterpreted functions in the skeleton harnesses.",
   "Trusted: Kani/CBMC/CaDiCaL, the reference models in harnesses/crypto/src/refmodels.rs; lengths above the bounds (61 bytes quick, "
   "132 thorough for lookup3; vector-width + tail for SIMD helpers) are outside; MD5 core (third-party md-5 crate) trusted, only the key glue is checked.")
_c("C14",
   "Bounded model checking of the real RetryPolicy::execute state machine driven by a minimal executor with a virtual clock "
   "(cfg(kani) sleep recorder): symbolic policy (incl. arbitrary f64 multipliers) and symbolic outcome sequences; assertions on "
   "attempt count, stop conditions, and every recorded delay; plus the Retry-After hint parser (parse_retry_after) on a real "
   "reqwest::Response with a symbolic header value against a reference decimal parser.",
   "Retry-After value <= 6 bytes (url::Url::parse stubbed); max_attempts <= 3 (quick) / 5 (thorough); jitter draw symbolic in [0,0.3); from_env string parsing and the CDN status mapping as listed per harness.")
_c("C16",
   "Bounded model checking of ZBSDIFF build->apply on all (old,new) pairs of the stated small lengths with symbolic bytes: "
   "apply(old, build(old,new)) == new for the builders, memory patcher == streaming patcher, and result length == header size or Err "
   "for arbitrary symbolic patch components.",
   "zlib wrappers stubbed to identity; lengths <= 3-6 bytes; suffix-array builder as stated per harness.")
_c("C17",
   "Bounded model checking of LruManager histories (every history up to the stated length over touch / remove / evict_tail / "
   "evict_to_target / bump_generation / reset, keys from a 4-key alphabet incl. the all-zero key) against a textbook LRU model and "
   "the structural invariant of the intrusive list; lru_file serialize/deserialize round trip and the is_active partition.",
   "Capacities 1-3, length <= 3 (quick) / 4 (thorough, capacity 1); key map is a BTreeMap under cfg(kani) (hook H6: same map contract); tokio-based "
   "checkpoint/load/run_cycle outside; two all-zero-key findings recorded in known_findings.json; one defect fixed (59baa81).")
_c("C18",
   "Bounded model checking of validate_spans (quadratic overlap oracle), plan_archive_merge (plan safety assertions over symbolic "
   "segment populations) and the compaction file movers over an in-memory file model.",
   "<= 4 spans / segments; segment_size and threshold from a concrete grid in quick; I/O buffer scaled under cfg(kani); ArchiveManager::compact outside.")
_c("C19",
   "Bounded model checking of the tag bit kernel (MSB-first specification, every file index of masks up to 9 bytes), builder mask "
   "re-packing on remove_file (fully symbolic masks across byte boundaries), all-of / any-of / size queries and the download priority "
   "arithmetic against set / clamp models.",
   "Mask sizes and file counts concrete per harness (symbolic heap sizes do not finish); queries on 1 file in quick (2 in thorough); "
   "builder constructed through a cfg(kani) shim without the name HashMap.")
_c("C20",
   "Bounded model checking of the path/URL construction kernels: build_url never panics for content keys of 0..32 bytes; validate_endpoint equals whitelist AND no leading '/' AND no '.'/'..' segment for every ASCII string of 1-2 (3, 5 thorough) bytes and accepted endpoints stay inside cache_dir/api/ribbit; DiskCache::get_file_path on concrete adversarial and well-formed keys.",
   "get_file_path is checked on CONCRETE keys only since its repair (symbolic keys no longer finish): a regression list, not a for-all claim; typed-key as_cache_key formatting/injectivity, download/download_range, hashed sub-directories and real I/O are outside.")
NA["C04"] = "storage path = memmap2 + DashMap + parking_lot/tokio locks + async; constructing them aborts kani-compiler 0.68 (TLS-destructor ICE) and mmap has no model; no separable kernel"
NA["C10"] = "MemoryCache (DashMap) and DiskCache (tokio Semaphore/RwLock) abort kani-compiler (ICE, probed); eviction arithmetic is not a separate function; no other installed engine executes Rust symbolically"
NA["C11"] = "interleavings of concurrent tasks: Kani/CBMC's Rust front end is sequential; same ICE as C10"
NA["C12"] = "MultiLayerCacheImpl hard-wires the C10 cache types as layers; unreachable for the same reason"
NA["C13"] = "reqwest/TCP/tokio timeouts/DashMap-backed ProtocolCache; the only pure piece (should_retry) is checked under C14"
NA["C15"] = "axum/TCP server + format!-built text + mail-parser client: sockets not encodable, string formatting of arbitrary DB strings beyond the SAT back end"

# properties whose harnesses are not (yet) all green are kept out of the manifest until their quick tier passes
PENDING = []
for _p in PENDING:
    if _p in CLAIMED:
        del CLAIMED[_p]
        NA[_p] = "check under construction in this revision (harnesses exist under /verif/harnesses but the quick tier has not been validated end to end); not claimed until it runs green"
